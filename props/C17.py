"""C17 - user-defined primitives obey the extension contract; checkpoint is transparent."""
LEVEL = "proof"


def check(rep, tier):
    from contracts import core_rules, tracer_primitive, diffops
    core_rules.run(rep, tier)
    tracer_primitive.run(rep, tier, only=("W4", "W1", "W2", "W3", "W7"))
    diffops.run_ops(rep, tier)
    diffops.run_nary(rep, tier)
