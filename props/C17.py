"""C17 - user-defined primitives obey the extension contract; checkpoint is transparent."""
LEVEL = "proof"


def check(rep, tier):
    from contracts import core_rules, tracer_primitive, diffops
    rep.run(core_rules.run, rep, tier)
    rep.run(tracer_primitive.run, rep, tier, only=("W4", "W1", "W2", "W3", "W7"))
    rep.run(diffops.run_ops, rep, tier)
    rep.run(diffops.run_nary, rep, tier)
    from contracts import discipline as _d17
    rep.run(_d17.run_frame, rep, tier)        # rule tables are rebuilt per registration, no registration-time state kept elsewhere
