"""C05 - a gradient lives in the space of its argument."""
LEVEL = "other"


def check(rep, tier):
    from contracts import rules_exact, core_make, core_rules, containers, rules_numeric, rules_shape
    rep.run(core_make.run, rep, tier)
    rep.run(core_rules.run, rep, tier, parts=("defvjp",))
    rep.run(rules_shape.run, rep, tier)
    rep.run(rules_shape.run_struct, rep, tier)
    rep.run(rules_exact.run, rep, tier, rules_exact.CLAUSE_PROPS["C05"])
    rep.run(containers.run_ground, rep, tier)
    rep.run(containers.run_exact, rep, tier, clauses=('K-structure',))
    rep.run(rules_numeric.run, rep, tier, clauses=('N-shape', 'N-jvp-space'))
    rep.run(rules_numeric.run_astype, rep)
    rep.run(rules_numeric.run_lowprec, rep, tier)
    from contracts import rules_shape as _rs
    rep.run(_rs.run_linalg, rep, tier)      # E3 over autograd/numpy/linalg.py: symbolic matrix and batch sizes
    rep.run(_rs.run_adjoint_helpers, rep, tier)     # E3: second-order rules of dot / tensordot (the adjoint helpers' own VJPs), symbolic sizes
    rep.run(_rs.run_fft, rep, tier)         # E3 over autograd/numpy/fft.py: symbolic array sizes and transform lengths
    rep.run(_rs.run_scipy_special, rep, tier)   # E3 over autograd/scipy/special.py: broadcasting argument patterns, logsumexp axis forms
    rep.run(_rs.run_elementwise_modules, rep, tier)   # E3 over autograd/scipy/stats/*.py (element-wise distributions): broadcasting argument patterns
    _rs.report_diag(rep)
