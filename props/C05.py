"""C05 - a gradient lives in the space of its argument."""
LEVEL = "other"


def check(rep, tier):
    from contracts import rules_exact, core_make, core_rules, containers, rules_numeric, rules_shape
    core_make.run(rep, tier)
    core_rules.run(rep, tier, parts=("defvjp",))
    rules_shape.run(rep, tier)
    rules_exact.run(rep, tier, rules_exact.CLAUSE_PROPS["C05"])
    containers.run_ground(rep, tier)
    containers.run_exact(rep, tier, clauses=('K-structure',))
    rules_numeric.run(rep, tier, clauses=('N-shape',))
