"""C01 - reverse-mode derivatives exact for every call form."""
LEVEL = "other"


def check(rep, tier):
    from contracts import rules_scalar
    rules_scalar.run(rep, tier, kinds=("vjp",))
    rules_scalar.run_kinks(rep, tier)
    from contracts import rules_exact
    rules_exact.run(rep, tier, rules_exact.CLAUSE_PROPS["C01"])
    from contracts import rules_numeric
    rules_numeric.run(rep, tier, clauses=('N-vjp',), only_complex='real-only')
