"""C01 - reverse-mode derivatives exact for every call form."""
LEVEL = "other"


def check(rep, tier):
    from contracts import rules_scalar
    rep.run(rules_scalar.run, rep, tier, kinds=("vjp",))
    rep.run(rules_scalar.run_kinks, rep, tier)
    from contracts import rules_exact
    rep.run(rules_exact.run, rep, tier, rules_exact.CLAUSE_PROPS["C01"])
    from contracts import rules_numeric
    rep.run(rules_numeric.run, rep, tier, clauses=('N-vjp',), only_complex='real-only')
    rep.run(rules_numeric.run_scale, rep)
    rep.run(rules_numeric.run_lowprec, rep, tier)
    from contracts import guards
    rep.run(guards.run, rep, tier)            # an unsupported configuration that stops raising returns a wrong gradient
    from contracts import rules_numeric as _rn
    rep.run(_rn.run_near_tie, rep)
    from contracts import rules_shape as _rs
    rep.run(_rs.run_linalg, rep, tier)      # E3 over autograd/numpy/linalg.py: symbolic matrix and batch sizes
    rep.run(_rs.run_fft, rep, tier)         # E3 over autograd/numpy/fft.py: symbolic array sizes and transform lengths
    rep.run(_rs.run_scipy_special, rep, tier)   # E3 over autograd/scipy/special.py: broadcasting argument patterns, logsumexp axis forms
    rep.run(_rs.run_elementwise_modules, rep, tier)   # E3 over autograd/scipy/stats/*.py (element-wise distributions): broadcasting argument patterns
