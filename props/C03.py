"""C03 - chain rule over arbitrary graphs; each op differentiated once."""
LEVEL = "proof"


def check(rep, tier):
    from contracts import core_backward, core_outgrads, tracer_primitive, core_rules
    rep.run(core_backward.run_proof, rep, tier)
    rep.run(core_backward.run_bounded, rep, tier)
    rep.run(core_outgrads.run, rep, tier, only=("AO-value", "AO-dense", "AO-inductive"))
    rep.run(tracer_primitive.run, rep, tier, only=("W4", "W2", "W3"))
    rep.run(core_rules.run, rep, tier, parts=("nodes", "defjvp", "defvjp", "defvjp_argnum"))
    from contracts import tracer_trace
    rep.run(tracer_trace.run, rep, tier, only=("TR-result", "TR-start"))
    from contracts import rules_exact, rules_scalar
    rep.run(rules_exact.run, rep, tier, ("X-vjp", "X-jvp", "X-shape"), only=("same-value-twice", "shared-cotangent"))
    rep.run(rules_exact.run, rep, tier, ("X-vjp", "X-jvp"), which="index", only=("mix",))
    rep.run(rules_scalar.run_kinks, rep, tier)
    from contracts import containers, diffops
    rep.run(containers.run_ground, rep, tier)     # accumulation of container-valued cotangents (leaf-wise, first argument only)
    rep.run(diffops.run_ops, rep, tier)           # second-order operators: the outer derivative is taken wrt the SAME argument
    from contracts import rules_numeric as _rn3
    rep.run(_rn3.run, rep, tier, clauses=('N-reuse', 'N-frozen'))     # the recorded graph evaluated backwards a second time
    from contracts import rules_exact as _rx
    rep.run(_rx.run, rep, tier, ('X-reuse', 'X-frozen'))
