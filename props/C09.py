"""C09 - complex differentiation follows the documented convention everywhere."""
LEVEL = "other"


def check(rep, tier):
    from contracts import rules_complex
    rules_complex.run(rep, tier)
    from contracts import rules_numeric
    rules_numeric.run(rep, tier, only_complex=True)
