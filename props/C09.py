"""C09 - complex differentiation follows the documented convention everywhere."""
LEVEL = "other"


def check(rep, tier):
    from contracts import rules_complex
    rep.run(rules_complex.run, rep, tier)
    from contracts import rules_numeric
    rep.run(rules_numeric.run, rep, tier, only_complex=True)
    from contracts import rules_numeric as _rn9
    rep.run(_rn9.run_space_special, rep)
