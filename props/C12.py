"""C12 - nested containers differentiated leaf-wise; flatten commutes with grad."""
LEVEL = "other"


def check(rep, tier):
    from contracts import containers
    rep.run(containers.run_ground, rep, tier)
    rep.run(containers.run_exact, rep, tier)
    from contracts import containers_unbounded
    rep.run(containers_unbounded.run, rep, tier)
    rep.run(containers.run_flatten_layout, rep)
    rep.run(containers.run_float_leaves, rep)
    rep.run(containers.run_optimizer_wrapper, rep)
