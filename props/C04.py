"""C04 - forward and reverse modes are mutually adjoint and linear."""
LEVEL = "other"


def check(rep, tier):
    from contracts import rules_scalar
    rules_scalar.run(rep, tier, adjoint=True)
    from contracts import rules_exact
    rules_exact.run(rep, tier, rules_exact.CLAUSE_PROPS["C04"])
