"""C04 - forward and reverse modes are mutually adjoint and linear."""
LEVEL = "other"


def check(rep, tier):
    from contracts import rules_scalar
    rep.run(rules_scalar.run, rep, tier, adjoint=True)
    from contracts import rules_exact
    rep.run(rules_exact.run, rep, tier, rules_exact.CLAUSE_PROPS["C04"])
    rep.run(rules_exact.run, rep, tier, ("X-vjp", "X-jvp", "X-shape", "X-jvp-shape"), which="index")
    rep.run(rules_exact.run, rep, tier, ("X-shape", "X-jvp-shape"))
    from contracts import rules_numeric as _rn
    rep.run(_rn.run_near_tie, rep)
    rep.run(_rn.run, rep, tier, clauses=("N-adjoint",), only_complex="real-only")
