"""C04 - forward and reverse modes are mutually adjoint and linear."""
LEVEL = "other"


def check(rep, tier):
    from contracts import rules_scalar
    rep.run(rules_scalar.run, rep, tier, adjoint=True)
    from contracts import rules_exact
    rep.run(rules_exact.run, rep, tier, rules_exact.CLAUSE_PROPS["C04"])
    rep.run(rules_exact.run, rep, tier, ("X-vjp", "X-jvp", "X-shape", "X-jvp-shape"), which="index")
    rep.run(rules_exact.run, rep, tier, ("X-shape", "X-jvp-shape"))
