"""C06 - value transparency."""
LEVEL = "other"


def check(rep, tier):
    from contracts import rules_exact, tracer_primitive, tracer_trace, core_outgrads
    rep.run(tracer_primitive.run, rep, tier, only=("W1", "W2", "W3"))
    rep.run(tracer_trace.run, rep, tier, only=("TR-result",))
    rep.run(core_outgrads.run, rep, tier, only=("AO-dense",))
    rep.run(rules_exact.run, rep, tier, rules_exact.CLAUSE_PROPS["C06"])
    rep.run(rules_exact.run, rep, tier, ("X-value", "X-numpy", "X-notracer"), which="index")
    from contracts import containers
    rep.run(containers.run_exact, rep, tier, clauses=('K-value',))
    from contracts import value_transparency
    rep.run(value_transparency.run, rep, tier)
    rep.run(value_transparency.run_ops, rep, tier)
    rep.run(value_transparency.run_plain, rep, tier)
    from contracts import diffops
    rep.run(diffops.run_ops, rep, tier)      # the operators hand values / aux outputs back as the plain objects the function computed
    rep.run(value_transparency.run_outputs, rep, tier)
    from contracts import rules_numeric as _rn6
    rep.run(_rn6.run_args_unmodified, rep)      # user-supplied inputs are left unmodified
