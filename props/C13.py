"""C13 - vector-space operations obey the axioms for every differentiable value type."""
LEVEL = "other"


def check(rep, tier):
    from contracts import vspaces, containers
    rep.run(vspaces.run_scalar, rep, tier)
    rep.run(vspaces.run_exact, rep, tier)
    rep.run(containers.run_ground, rep, tier)
    from contracts import core_outgrads
    rep.run(core_outgrads.run, rep, tier)
