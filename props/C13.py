"""C13 - vector-space operations obey the axioms for every differentiable value type."""
LEVEL = "other"


def check(rep, tier):
    from contracts import vspaces, containers
    vspaces.run_scalar(rep, tier)
    vspaces.run_exact(rep, tier)
    containers.run_ground(rep, tier)
