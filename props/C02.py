"""C02 - forward-mode derivatives exact and correctly shaped."""
LEVEL = "other"


def check(rep, tier):
    from contracts import rules_scalar, rules_exact
    rep.run(rules_scalar.run, rep, tier, kinds=("jvp",))
    rep.run(rules_exact.run, rep, tier, rules_exact.CLAUSE_PROPS["C02"])
    from contracts import rules_numeric
    rep.run(rules_numeric.run, rep, tier, clauses=('N-jvp',), only_complex='real-only')
    from contracts import guards, core_rules
    rep.run(guards.run, rep, tier)
    rep.run(core_rules.run, rep, tier, parts=("defjvp",))
    rep.run(rules_scalar.run, rep, tier, adjoint=True)     # forward rules at ties / kinks: the factor equals the reverse rule's
    from contracts import rules_numeric as _rn
    rep.run(_rn.run_near_tie, rep)
    from contracts import rules_shape as _rs2
    rep.run(_rs2.run_linalg, rep, tier)       # tangent shapes of the linalg rules (forward rules the module registers)
    rep.run(_rs2.run_scipy_special, rep, tier)
