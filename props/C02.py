"""C02 - forward-mode derivatives exact and correctly shaped."""
LEVEL = "other"


def check(rep, tier):
    from contracts import rules_scalar, rules_exact
    rep.run(rules_scalar.run, rep, tier, kinds=("jvp",))
    rep.run(rules_exact.run, rep, tier, rules_exact.CLAUSE_PROPS["C02"])
    from contracts import rules_numeric
    rep.run(rules_numeric.run, rep, tier, clauses=('N-jvp',), only_complex='real-only')
