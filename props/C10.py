"""C10 - differentiation never writes to memory it does not own; VJP functions reusable."""
LEVEL = "proof"


def check(rep, tier):
    from contracts import core_outgrads, core_rules
    rep.run(core_outgrads.run, rep, tier)
    rep.run(core_rules.run, rep, tier, parts=("defvjp", "defvjp_argnum"))
    from contracts import rules_exact
    rep.run(rules_exact.run, rep, tier, rules_exact.CLAUSE_PROPS["C10"])
    from contracts import containers
    rep.run(containers.run_ground, rep, tier)
    from contracts import discipline
    rep.run(discipline.run_frame, rep, tier)
    from contracts import core_backward
    rep.run(core_backward.run_proof, rep, tier, which=('backward_pass',))
    from contracts import rules_numeric
    rep.run(rules_numeric.run, rep, tier, clauses=('N-frozen', 'N-reuse'))
    rep.run(rules_numeric.run_args_unmodified, rep)
