"""C10 - differentiation never writes to memory it does not own; VJP functions reusable."""
LEVEL = "proof"


def check(rep, tier):
    from contracts import core_outgrads, core_rules
    core_outgrads.run(rep, tier)
    core_rules.run(rep, tier, parts=("defvjp", "defvjp_argnum"))
    from contracts import rules_exact
    rules_exact.run(rep, tier, rules_exact.CLAUSE_PROPS["C10"])
    from contracts import containers
    containers.run_ground(rep, tier)
    from contracts import discipline
    discipline.run_frame(rep, tier)
    from contracts import core_backward
    core_backward.run_proof(rep, tier, which=('backward_pass',))
