"""C18 - the bundled gradient checker accepts correct rules and rejects wrong ones (partial: see contracts/checker.py)."""
LEVEL = "other"


def check(rep, tier):
    from contracts import checker
    rep.run(checker.run_close, rep, tier)
    rep.run(checker.run_structure, rep, tier)
    rep.run(checker.run_exact, rep, tier)
    rep.run(checker.run_float, rep, tier)
