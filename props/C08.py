"""C08 - nested differentiation is isolated (no perturbation confusion)."""
LEVEL = "proof"


def check(rep, tier):
    from contracts import tracer_ftba, tracer_primitive, tracer_trace
    rep.run(tracer_ftba.run, rep, tier, clauses=("FT1", "FT2", "FT3"))
    rep.run(tracer_primitive.run, rep, tier)
    rep.run(tracer_trace.run, rep, tier)
    from contracts import programs_exact
    rep.run(programs_exact.run_nest, rep)
    rep.run(tracer_ftba.run_unbounded, rep, tier)
    from contracts import diffops
    rep.run(diffops.run_ops, rep, tier)       # operators that differentiate inside an outer differentiation (grad_and_aux, checkpoint, jacobian, hvp) keep their traced arguments
    rep.run(programs_exact.run_ops, rep)
