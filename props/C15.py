"""C15 - unsupported requests fail loudly; no exported function silently drops dependence."""
LEVEL = "other"


def check(rep, tier):
    from contracts import guards, core_rules, tracer_trace, diffops
    guards.run(rep, tier)
    core_rules.run(rep, tier)
    tracer_trace.run(rep, tier, only=("NB-typeerror",))
    diffops.run_ops(rep, tier)
