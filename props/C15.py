"""C15 - unsupported requests fail loudly; no exported function silently drops dependence."""
LEVEL = "other"


def check(rep, tier):
    from contracts import guards, core_rules, tracer_trace, diffops
    rep.run(guards.run, rep, tier)
    rep.run(core_rules.run, rep, tier)
    rep.run(tracer_trace.run, rep, tier, only=("NB-typeerror",))
    rep.run(diffops.run_ops, rep, tier)
    from contracts import rules_numeric
    rep.run(rules_numeric.run, rep, tier, clauses=("N-vjp", "N-jvp"))   # option coverage: an option that is accepted must be differentiated correctly
