"""C20 - concurrent differentiations do not interfere."""
LEVEL = "proof"


def check(rep, tier):
    from contracts import tracer_trace
    rep.run(tracer_trace.run, rep, tier, interfere=True, only=("TR-fresh", "TR-id", "TR-start"))
    from contracts import discipline
    rep.run(discipline.run_frame, rep, tier)
    from contracts import diffops
    rep.run(diffops.run_nary, rep, tier, clauses=("UN-reentrant",))
