"""C14 - independent / piecewise-constant dependence yields an exact zero."""
LEVEL = "proof"


def check(rep, tier):
    from contracts import core_make, tracer_trace, tracer_primitive, core_rules
    core_make.run(rep, tier)
    tracer_trace.run(rep, tier, only=("TR-result", "TR-start", "TR-exception"))
    tracer_primitive.run(rep, tier, only=("W3", "W2"))
    core_rules.run(rep, tier, parts=("defvjp",))
    from contracts import programs_exact
    programs_exact.run_zero(rep)
