"""C14 - independent / piecewise-constant dependence yields an exact zero."""
LEVEL = "proof"


def check(rep, tier):
    from contracts import core_make, tracer_trace, tracer_primitive, core_rules
    rep.run(core_make.run, rep, tier)
    rep.run(tracer_trace.run, rep, tier, only=("TR-result", "TR-start", "TR-exception"))
    rep.run(tracer_primitive.run, rep, tier, only=("W3", "W2"))
    rep.run(core_rules.run, rep, tier, parts=("defvjp",))
    from contracts import programs_exact
    rep.run(programs_exact.run_zero, rep)
    from contracts import guards
    rep.run(guards.run_nograd_values, rep, tier)
    rep.run(core_rules.run, rep, tier, parts=("defjvp",))
    from contracts import value_transparency
    rep.run(value_transparency.run, rep, tier)
    from contracts import vspaces
    rep.run(vspaces.run_exact, rep, tier)     # VS-zero: the zero a rule-less / pruned path returns is the zero OF THE ARGUMENT'S SPACE (shape, dtype)
