"""C07 - derivatives of derivatives."""
LEVEL = "other"


def check(rep, tier):
    from contracts import rules_exact
    rules_exact.run(rep, tier, rules_exact.CLAUSE_PROPS["C07"])
    rules_exact.run(rep, tier, ("X-hess",), which="index")
    from contracts import rules_scalar
    rules_scalar.run(rep, tier, adjoint=True)
    from contracts import discipline
    discipline.run_trace(rep, tier)
