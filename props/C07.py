"""C07 - derivatives of derivatives."""
LEVEL = "other"


def check(rep, tier):
    from contracts import rules_exact
    rep.run(rules_exact.run, rep, tier, rules_exact.CLAUSE_PROPS["C07"])
    rep.run(rules_exact.run, rep, tier, ("X-hess",), which="index")
    from contracts import rules_scalar
    rep.run(rules_scalar.run, rep, tier, adjoint=True, second=True)
    from contracts import discipline
    rep.run(discipline.run_trace, rep, tier)
    from contracts import rules_numeric
    rep.run(rules_numeric.run, rep, tier, clauses=('N-hess',))
    rep.run(rules_numeric.run_scale, rep)
    rep.run(rules_numeric.run_zero_cotangent, rep)
    from contracts import diffops
    rep.run(diffops.run_ops, rep, tier)
    from contracts import programs_exact, tracer_trace
    rep.run(programs_exact.run_nest, rep)
    rep.run(tracer_trace.run, rep, tier, only=("TR-result",))
    from contracts import rules_shape as _rs
    rep.run(_rs.run_adjoint_helpers, rep, tier)     # E3: second-order rules of dot / tensordot (the adjoint helpers' own VJPs), symbolic sizes
    rep.run(programs_exact.run_ops, rep)      # second-order operators (hvp, hessian, ggnvp with f_argnum / coupled losses) against exact Jacobians
