"""C19 - results independent of call history, including failed calls."""
LEVEL = "proof"


def check(rep, tier):
    from contracts import tracer_ftba, tracer_trace
    tracer_trace.run(rep, tier, interfere=False)
    tracer_ftba.run(rep, tier, clauses=("FT4",))
    from contracts import discipline
    discipline.run_frame(rep, tier)
    from contracts import programs_exact
    programs_exact.run_history(rep)
    from contracts import core_backward
    core_backward.run_proof(rep, tier, which=('backward_pass',))
