"""C19 - results independent of call history, including failed calls."""
LEVEL = "proof"


def check(rep, tier):
    from contracts import tracer_ftba, tracer_trace
    rep.run(tracer_trace.run, rep, tier, interfere=False)
    rep.run(tracer_ftba.run, rep, tier, clauses=("FT4",))
    from contracts import discipline
    rep.run(discipline.run_frame, rep, tier)
    from contracts import programs_exact
    rep.run(programs_exact.run_history, rep)
    from contracts import core_backward
    rep.run(core_backward.run_proof, rep, tier, which=('backward_pass',))
    rep.run(tracer_ftba.run_unbounded, rep, tier)
    from contracts import diffops
    rep.run(diffops.run_nary, rep, tier, clauses=("UN-reentrant",))
    from contracts import core_rules
    rep.run(core_rules.run, rep, tier, parts=("nodes",))
    from contracts import rules_numeric as _rn19
    rep.run(_rn19.run, rep, tier, clauses=('N-reuse', 'N-frozen'))    # a second application of a returned vjp function does not depend on the first
    from contracts import rules_exact as _rx
    rep.run(_rx.run, rep, tier, ('X-reuse', 'X-frozen'))
