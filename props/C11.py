"""C11 - indexing gradients scatter exactly; sparse/dense mix."""
LEVEL = "other"


def check(rep, tier):
    from contracts import rules_exact, core_outgrads
    rep.run(core_outgrads.run, rep, tier)
    rep.run(rules_exact.run, rep, tier, rules_exact.CLAUSE_PROPS["C11"], which="index")
    from contracts import rules_numeric
    rep.run(rules_numeric.run_accum, rep)
    from contracts import vspaces, core_backward
    rep.run(vspaces.run_scalar, rep, tier)
    rep.run(core_backward.run_proof, rep, tier, which=('backward_pass',))
    from contracts import discipline as _d11
    rep.run(_d11.run_frame, rep, tier)        # no memo / history in the index conversion of untake
