"""C16 - all differential operators agree with one ground-truth Jacobian."""
LEVEL = "other"


def check(rep, tier):
    from contracts import diffops, core_make
    rep.run(diffops.run_nary, rep, tier)
    rep.run(diffops.run_ops, rep, tier)
    rep.run(core_make.run, rep, tier)
    from contracts import programs_exact
    rep.run(programs_exact.run_ops, rep)
    rep.run(diffops.run_index_algebra, rep, tier)
