"""C16 - all differential operators agree with one ground-truth Jacobian."""
LEVEL = "other"


def check(rep, tier):
    from contracts import diffops, core_make
    diffops.run_nary(rep, tier)
    diffops.run_ops(rep, tier)
    core_make.run(rep, tier)
    from contracts import programs_exact
    programs_exact.run_ops(rep)
