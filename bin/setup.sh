#!/bin/sh
# Builds /verif/.venv offline: the suite's interpreter (/venv, python 3.12, numpy 2.5.3,
# autograd from /repo) + solvers from the local wheelhouse.  Idempotent.
set -e
cd "$(dirname "$0")/.."
V=.venv
if [ ! -x $V/bin/python ] || ! $V/bin/python -c "import z3, sympy, mpmath, jsonschema, numpy, scipy, autograd" 2>/dev/null; then
  rm -rf $V
  /venv/bin/python -m venv $V
  PIP_NO_INDEX=1 $V/bin/pip install -q --no-index --find-links /opt/veriftools/wheels \
      z3-solver sympy mpmath jsonschema cvc5 scipy >/dev/null
  SP=$($V/bin/python -c "import sysconfig; print(sysconfig.get_paths()['purelib'])")
  echo "import site; site.addsitedir('/venv/lib/python3.12/site-packages')" > "$SP/zz_suite_overlay.pth"
fi
$V/bin/python -c "import z3, sympy, mpmath, jsonschema, numpy, scipy, autograd; print('verif venv ok: z3', z3.get_version_string(), 'numpy', numpy.__version__, 'autograd from', autograd.__file__)"
