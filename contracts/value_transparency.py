"""C06 ground contracts: type-query replacements, container metaclasses, getval, notrace_primitive (DESIGN §5 C06).

VT-isinstance  autograd.builtins.isinstance(v, cls) == builtins.isinstance(getval(v), cls) for plain values and for boxes nested to depth 3
VT-type        autograd.builtins.type(v) is type(getval(v))
VT-meta        isinstance(x, autograd.builtins.tuple/list/dict) answers as for the builtin type, for plain and traced containers
VT-getval      getval strips every level of boxing and is the identity on plain values
VT-notrace     notrace_primitive(f)(*args) == f(*map(getval, args)) and never returns a box
VT-ctor        autograd.builtins.tuple/list/dict constructors build values equal to the builtin ones (plain inputs)
"""
import builtins


def run(rep, tier):
    import numpy as onp

    import autograd.builtins as B
    import autograd.tracer as T
    from autograd.builtins import DictBox, SequenceBox
    from autograd.numpy.numpy_boxes import ArrayBox

    rep.function("autograd.builtins.isinstance/type", B.isinstance)
    rep.function("autograd.tracer.getval", T.getval)
    rep.function("autograd.tracer.notrace_primitive", T.notrace_primitive)

    def out(name, ok, detail=""):
        rep.obligation(f"autograd.builtins:{name}", ok, "symexec(ground)", 0, "E1b", sample=detail if len(rep.samples) < 3 else None)
        if not ok:
            rep.violation(f"autograd.builtins:{name.split(':')[-1]}", name, f"{name}: {detail}", replay=dict(module="contracts.value_transparency", name=name), witness=True)

    def box(v, depth):
        for lvl in range(depth):
            cls = T.box_type_mappings[builtins.type(v)] if builtins.type(v) in T.box_type_mappings else None
            if cls is None:
                return None
            v = cls(v, lvl, None)
        return v
    values = [1.5, onp.float64(2.0), onp.array([1.0, 2.0]), onp.zeros((2, 2)), 1 + 2j, (1.0, 2.0), [1.0], {"a": 1.0}, (), {}]
    classes = [float, onp.ndarray, tuple, list, dict, complex, int, (float, onp.ndarray), onp.floating]
    for vi, v in enumerate(values):
        for depth in range(0, 4):
            bv = box(v, depth)
            if bv is None:
                continue
            out(f"v{vi}.d{depth}:VT-getval", T.getval(bv) is v, "getval strips all levels")
            out(f"v{vi}.d{depth}:VT-type", B.type(bv) is builtins.type(v), f"type({builtins.type(v).__name__} boxed {depth}x) = {B.type(bv)}")
            for ci, c in enumerate(classes):
                out(f"v{vi}.d{depth}.c{ci}:VT-isinstance", B.isinstance(bv, c) == builtins.isinstance(v, c), f"isinstance(boxed {builtins.type(v).__name__}, {c})")
            for nm, meta, plain in (("tuple", B.tuple, tuple), ("list", B.list, list), ("dict", B.dict, dict)):
                out(f"v{vi}.d{depth}.{nm}:VT-meta", B.isinstance(bv, meta) == builtins.isinstance(v, plain) and (depth > 0 or builtins.isinstance(v, meta) == builtins.isinstance(v, plain)),
                    f"isinstance(x, autograd.builtins.{nm})")
    f_raw = lambda a, b, k=0: (builtins.type(a).__name__, builtins.type(b).__name__, k)
    nt = T.notrace_primitive(f_raw)
    out("notrace:VT-notrace", nt(box(1.5, 2), box(onp.ones(2), 1), k=3) == ("float", "ndarray", 3), "notrace primitive sees fully unboxed arguments and passes kwargs")
    out("ctor-tuple:VT-ctor", B.tuple([1.0, 2.0]) == (1.0, 2.0) and builtins.type(B.tuple([1.0])) is tuple, "autograd tuple(...) on plain input")
    out("ctor-list:VT-ctor", B.list((1.0, 2.0)) == [1.0, 2.0] and builtins.type(B.list((1.0,))) is list, "autograd list(...) on plain input")
    out("ctor-dict:VT-ctor", B.dict(a=1.0, b=2.0) == {"a": 1.0, "b": 2.0} and B.dict([("k", 1.0)]) == {"k": 1.0} and B.dict() == {}, "autograd dict(...) on plain input")


def replay(spec):
    return False, f"ground obligation {spec['name']} violated on this tree", "see contracts/value_transparency.py"
