"""C06 ground contracts: type-query replacements, container metaclasses, getval, notrace_primitive (DESIGN §5 C06).

VT-isinstance  autograd.builtins.isinstance(v, cls) == builtins.isinstance(getval(v), cls) for plain values and for boxes nested to depth 3
VT-type        autograd.builtins.type(v) is type(getval(v))
VT-meta        isinstance(x, autograd.builtins.tuple/list/dict) answers as for the builtin type, for plain and traced containers
VT-getval      getval strips every level of boxing and is the identity on plain values
VT-notrace     notrace_primitive(f)(*args) == f(*map(getval, args)) and never returns a box
VT-ctor        autograd.builtins.tuple/list/dict constructors build values equal to the builtin ones (plain inputs)
"""
import builtins


def run(rep, tier):
    import numpy as onp

    import autograd.builtins as B
    import autograd.tracer as T
    from autograd.builtins import DictBox, SequenceBox
    from autograd.numpy.numpy_boxes import ArrayBox

    rep.function("autograd.builtins.isinstance/type", B.isinstance)
    rep.function("autograd.tracer.getval", T.getval)
    rep.function("autograd.tracer.notrace_primitive", T.notrace_primitive)

    def out(name, ok, detail=""):
        rep.obligation(f"autograd.builtins:{name}", ok, "symexec(ground)", 0, "E1b", sample=detail if len(rep.samples) < 3 else None)
        if not ok:
            rep.violation(f"autograd.builtins:{name.split(':')[-1]}", name, f"{name}: {detail}", replay=dict(module="contracts.value_transparency", name=name), witness=True)

    def box(v, depth):
        for lvl in range(depth):
            cls = T.box_type_mappings[builtins.type(v)] if builtins.type(v) in T.box_type_mappings else None
            if cls is None:
                return None
            v = cls(v, lvl, None)
        return v
    values = [1.5, onp.float64(2.0), onp.array([1.0, 2.0]), onp.zeros((2, 2)), 1 + 2j, (1.0, 2.0), [1.0], {"a": 1.0}, (), {}]
    classes = [float, onp.ndarray, tuple, list, dict, complex, int, (float, onp.ndarray), onp.floating]
    for vi, v in enumerate(values):
        for depth in range(0, 4):
            bv = box(v, depth)
            if bv is None:
                continue
            out(f"v{vi}.d{depth}:VT-getval", T.getval(bv) is v, "getval strips all levels")
            out(f"v{vi}.d{depth}:VT-type", B.type(bv) is builtins.type(v), f"type({builtins.type(v).__name__} boxed {depth}x) = {B.type(bv)}")
            for ci, c in enumerate(classes):
                out(f"v{vi}.d{depth}.c{ci}:VT-isinstance", B.isinstance(bv, c) == builtins.isinstance(v, c), f"isinstance(boxed {builtins.type(v).__name__}, {c})")
            for nm, meta, plain in (("tuple", B.tuple, tuple), ("list", B.list, list), ("dict", B.dict, dict)):
                out(f"v{vi}.d{depth}.{nm}:VT-meta", B.isinstance(bv, meta) == builtins.isinstance(v, plain) and (depth > 0 or builtins.isinstance(v, meta) == builtins.isinstance(v, plain)),
                    f"isinstance(x, autograd.builtins.{nm})")
    f_raw = lambda a, b, k=0: (builtins.type(a).__name__, builtins.type(b).__name__, k)
    nt = T.notrace_primitive(f_raw)
    out("notrace:VT-notrace", nt(box(1.5, 2), box(onp.ones(2), 1), k=3) == ("float", "ndarray", 3), "notrace primitive sees fully unboxed arguments and passes kwargs")
    out("ctor-tuple:VT-ctor", B.tuple([1.0, 2.0]) == (1.0, 2.0) and builtins.type(B.tuple([1.0])) is tuple, "autograd tuple(...) on plain input")
    out("ctor-list:VT-ctor", B.list((1.0, 2.0)) == [1.0, 2.0] and builtins.type(B.list((1.0,))) is list, "autograd list(...) on plain input")
    out("ctor-dict:VT-ctor", B.dict(a=1.0, b=2.0) == {"a": 1.0, "b": 2.0} and B.dict([("k", 1.0)]) == {"k": 1.0} and B.dict() == {}, "autograd dict(...) on plain input")


def run_ops(rep, tier):
    """VT-ops: inside a traced function, every operator / attribute of a differentiated array answers exactly as for the plain array
    (comparisons and queries give PLAIN values; arithmetic gives values equal to NumPy's), at trace depth 1 and 2, reverse and forward."""
    import operator as op
    import warnings

    import numpy as onp

    import autograd.numpy as anp
    from autograd.core import make_jvp, make_vjp
    from autograd.tracer import isbox, getval
    x0 = onp.array([[0.5, -1.5, 2.0], [2.0, 0.25, -3.0]])
    c = onp.array([0.5, 1.0, -3.0])
    binops = [("add", op.add), ("sub", op.sub), ("mul", op.mul), ("truediv", op.truediv), ("pow", lambda a, b: a ** 2 if not isinstance(b, onp.ndarray) or isbox(a) or True else a), ("mod", op.mod),
              ("lt", op.lt), ("le", op.le), ("gt", op.gt), ("ge", op.ge), ("eq", op.eq), ("ne", op.ne)]
    unops = [("neg", op.neg), ("abs", abs), ("T", lambda a: a.T), ("shape", lambda a: a.shape), ("ndim", lambda a: a.ndim), ("size", lambda a: a.size), ("dtype", lambda a: a.dtype), ("len", len),
             ("getitem", lambda a: a[1, ::-1]), ("iter", lambda a: [r for r in a][1]), ("bool-of-element", lambda a: bool(a[0, 0] > 0)), ("float()", lambda a: float(a[0, 0]) if not isbox(a) else float(getval(a[0, 0]))),
             ("sum-method", lambda a: a.sum(axis=0)), ("mean-method", lambda a: a.mean()), ("reshape-method", lambda a: a.reshape(3, 2)), ("astype", lambda a: a.astype(onp.float32)),
             ("ravel", lambda a: a.ravel()), ("clip-method", lambda a: a.clip(-1, 1)), ("max-method", lambda a: a.max(axis=1)), ("argmax", lambda a: anp.argmax(a, axis=1)), ("round", lambda a: anp.round(a))]
    rec = []

    def probe(x):
        for nm, f in binops:
            for order in ("xc", "cx", "xx"):
                a, b = {"xc": (x, c), "cx": (c, x), "xx": (x, x)}[order]
                pa, pb = {"xc": (x0, c), "cx": (c, x0), "xx": (x0, x0)}[order]
                try:
                    r, e = f(a, b), f(pa, pb)
                except Exception as ex:
                    rec.append((f"{nm}.{order}", False, f"raised {type(ex).__name__}"))
                    continue
                plain_needed = nm in ("lt", "le", "gt", "ge", "eq", "ne")
                ok = onp.array_equal(getval(r), e) and onp.asarray(getval(r)).dtype == onp.asarray(e).dtype and (not plain_needed or not isbox(r))
                rec.append((f"{nm}.{order}", ok, f"{nm}({order}) -> {type(r).__name__} {getval(r) if not ok else ''}"))
        for nm, f in unops:
            try:
                r, e = f(x), f(x0)
            except NotImplementedError:
                continue    # no rule in this mode: the request fails loudly (C15), not a transparency issue
            except Exception as ex:
                rec.append((nm, False, f"raised {type(ex).__name__}: {ex}"))
                continue
            gv = getval(r)
            ok = (onp.array_equal(onp.asarray(gv), onp.asarray(e)) and type(gv) is type(e)) if not isinstance(e, (tuple, int, bool, float, onp.dtype)) else gv == e
            if nm in ("shape", "ndim", "size", "dtype", "len", "bool-of-element", "argmax"):
                ok = ok and not isbox(r)
            rec.append((nm, bool(ok), f"{nm} -> {gv!r} vs {e!r}"))
        return anp.sum(x * x)
    with warnings.catch_warnings():
        warnings.simplefilter("ignore")
        for mode, runner in (("rev", lambda: make_vjp(probe, x0)), ("fwd", lambda: make_jvp(probe, x0)(onp.ones_like(x0))),
                             ("rev-in-rev", lambda: make_vjp(lambda y: make_vjp(probe, y)[1] + anp.sum(y), x0))):
            del rec[:]
            try:
                runner()
            except Exception as ex:
                rec.append(("probe", False, f"raised {type(ex).__name__}: {ex}"))
            for nm, ok, d in rec:
                rep.bounded_case(("VT-ops", mode, nm), sample=dict(case=f"{mode}:{nm}", clause="VT-ops") if ok and len(rep.bounded_samples) < 3 else None)
                if not ok:
                    rep.violation("autograd.numpy.numpy_boxes:VT-ops", f"{mode}:{nm}", f"{mode}: {d}", replay=dict(module="contracts.value_transparency", name=f"VT-ops {mode}:{nm}"), witness=True)


def replay(spec):
    return False, f"ground obligation {spec['name']} violated on this tree", "see contracts/value_transparency.py"
