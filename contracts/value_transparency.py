"""C06 ground contracts: type-query replacements, container metaclasses, getval, notrace_primitive (DESIGN §5 C06).

VT-isinstance  autograd.builtins.isinstance(v, cls) == builtins.isinstance(getval(v), cls) for plain values and for boxes nested to depth 3
VT-type        autograd.builtins.type(v) is type(getval(v))
VT-meta        isinstance(x, autograd.builtins.tuple/list/dict) answers as for the builtin type, for plain and traced containers
VT-getval      getval strips every level of boxing and is the identity on plain values
VT-notrace     notrace_primitive(f)(*args) == f(*map(getval, args)) and never returns a box
VT-ctor        autograd.builtins.tuple/list/dict constructors build values equal to the builtin ones (plain inputs)
"""
import builtins


def run(rep, tier):
    import numpy as onp

    import autograd.builtins as B
    import autograd.tracer as T
    from autograd.builtins import DictBox, SequenceBox
    from autograd.numpy.numpy_boxes import ArrayBox

    rep.function("autograd.builtins.isinstance/type", B.isinstance)
    rep.function("autograd.tracer.getval", T.getval)
    rep.function("autograd.tracer.notrace_primitive", T.notrace_primitive)

    def out(name, ok, detail=""):
        rep.obligation(f"autograd.builtins:{name}", ok, "symexec(ground)", 0, "E1b", sample=detail if len(rep.samples) < 3 else None)
        if not ok:
            rep.violation(f"autograd.builtins:{name.split(':')[-1]}", name, f"{name}: {detail}", replay=dict(module="contracts.value_transparency", name=name), witness=True)

    def box(v, depth):
        for lvl in range(depth):
            cls = T.box_type_mappings[builtins.type(v)] if builtins.type(v) in T.box_type_mappings else None
            if cls is None:
                return None
            v = cls(v, lvl, None)
        return v
    values = [1.5, onp.float64(2.0), onp.array([1.0, 2.0]), onp.zeros((2, 2)), 1 + 2j, (1.0, 2.0), [1.0], {"a": 1.0}, (), {}]
    classes = [float, onp.ndarray, tuple, list, dict, complex, int, (float, onp.ndarray), onp.floating]
    for vi, v in enumerate(values):
        for depth in range(0, 4):
            bv = box(v, depth)
            if bv is None:
                continue
            out(f"v{vi}.d{depth}:VT-getval", T.getval(bv) is v, "getval strips all levels")
            out(f"v{vi}.d{depth}:VT-type", B.type(bv) is builtins.type(v), f"type({builtins.type(v).__name__} boxed {depth}x) = {B.type(bv)}")
            for ci, c in enumerate(classes):
                out(f"v{vi}.d{depth}.c{ci}:VT-isinstance", B.isinstance(bv, c) == builtins.isinstance(v, c), f"isinstance(boxed {builtins.type(v).__name__}, {c})")
            for nm, meta, plain in (("tuple", B.tuple, tuple), ("list", B.list, list), ("dict", B.dict, dict)):
                out(f"v{vi}.d{depth}.{nm}:VT-meta", B.isinstance(bv, meta) == builtins.isinstance(v, plain) and (depth > 0 or builtins.isinstance(v, meta) == builtins.isinstance(v, plain)),
                    f"isinstance(x, autograd.builtins.{nm})")
    f_raw = lambda a, b, k=0: (builtins.type(a).__name__, builtins.type(b).__name__, k)
    nt = T.notrace_primitive(f_raw)
    out("notrace:VT-notrace", nt(box(1.5, 2), box(onp.ones(2), 1), k=3) == ("float", "ndarray", 3), "notrace primitive sees fully unboxed arguments and passes kwargs")
    out("ctor-tuple:VT-ctor", B.tuple([1.0, 2.0]) == (1.0, 2.0) and builtins.type(B.tuple([1.0])) is tuple, "autograd tuple(...) on plain input")
    out("ctor-list:VT-ctor", B.list((1.0, 2.0)) == [1.0, 2.0] and builtins.type(B.list((1.0,))) is list, "autograd list(...) on plain input")
    out("ctor-dict:VT-ctor", B.dict(a=1.0, b=2.0) == {"a": 1.0, "b": 2.0} and B.dict([("k", 1.0)]) == {"k": 1.0} and B.dict() == {}, "autograd dict(...) on plain input")


def run_ops(rep, tier):
    """VT-ops: inside a traced function, every operator / attribute of a differentiated array answers exactly as for the plain array
    (comparisons and queries give PLAIN values; arithmetic gives values equal to NumPy's), at trace depth 1 and 2, reverse and forward."""
    import operator as op
    import warnings

    import numpy as onp

    import autograd.numpy as anp
    from autograd.core import make_jvp, make_vjp
    from autograd.tracer import isbox, getval
    x0 = onp.array([[0.5, -1.5, 2.0], [2.0, 0.25, -3.0]])
    c = onp.array([0.5, 1.0, -3.0])
    _P3, _Q3 = onp.arange(20.0).reshape(2, 5, 2) * 0.25 - 1.0, onp.arange(24.0).reshape(2, 3, 4) * 0.125
    _P2, _v2 = onp.arange(8.0).reshape(4, 2) - 2.5, onp.array([1.5, -0.5])
    binops = [("add", op.add), ("sub", op.sub), ("mul", op.mul), ("truediv", op.truediv), ("pow", lambda a, b: a ** 2 if not isinstance(b, onp.ndarray) or isbox(a) or True else a), ("mod", op.mod),
              ("lt", op.lt), ("le", op.le), ("gt", op.gt), ("ge", op.ge), ("eq", op.eq), ("ne", op.ne)]
    unops = [("neg", op.neg), ("abs", abs), ("T", lambda a: a.T), ("shape", lambda a: a.shape), ("ndim", lambda a: a.ndim), ("size", lambda a: a.size), ("dtype", lambda a: a.dtype), ("len", len),
             ("getitem", lambda a: a[1, ::-1]), ("iter", lambda a: [r for r in a][1]), ("bool-of-element", lambda a: bool(a[0, 0] > 0)), ("float()", lambda a: float(a[0, 0]) if not isbox(a) else float(getval(a[0, 0]))),
             ("sum-method", lambda a: a.sum(axis=0)), ("mean-method", lambda a: a.mean()), ("reshape-method", lambda a: a.reshape(3, 2)), ("astype", lambda a: a.astype(onp.float32)),
             ("ravel", lambda a: a.ravel()), ("clip-method", lambda a: a.clip(-1, 1)), ("max-method", lambda a: a.max(axis=1)), ("argmax", lambda a: anp.argmax(a, axis=1)), ("round", lambda a: anp.round(a)),
             # the same attributes / methods / reflected operators on a traced array of rank 3 (stacked operands): NumPy's rank-dependent semantics
             ("T of rank 3", lambda a: anp.stack([a, a * 2.0, a - 1.0]).T), ("transpose() of rank 3", lambda a: anp.stack([a, a * 2.0]).transpose()),
             ("transpose((1,2,0))", lambda a: anp.stack([a, a * 2.0]).transpose((1, 2, 0))), ("swapaxes(0,2)", lambda a: anp.stack([a, a * 2.0]).swapaxes(0, 2)),
             ("flatten('F') of rank 3", lambda a: anp.stack([a, a * 2.0]).flatten("F")), ("ravel of rank 3", lambda a: anp.stack([a, a * 2.0]).ravel()),
             ("squeeze of rank 3", lambda a: anp.stack([a])[:, :1].squeeze()), ("diagonal of rank 3", lambda a: anp.stack([a, a * 2.0]).diagonal(0, 1, 2)),
             ("cumsum axis=1 rank 3", lambda a: anp.stack([a, a * 2.0]).cumsum(axis=1)), ("repeat method", lambda a: a.repeat(2, axis=1)), ("take method", lambda a: a.take([2, 0], axis=1)),
             ("trace method", lambda a: anp.stack([a, a * 2.0]).trace()), ("mean axis tuple rank 3", lambda a: anp.stack([a, a * 2.0]).mean(axis=(0, 2))),
             ("plain @ traced, stacked", lambda a: _P3 @ anp.stack([a, a * 2.0])), ("traced @ plain, stacked", lambda a: anp.stack([a, a * 2.0]) @ _Q3),
             ("plain 2-D @ traced rank 3", lambda a: _P2 @ anp.stack([a, a * 2.0])), ("traced rank 3 @ plain 1-D", lambda a: anp.stack([a, a * 2.0]) @ c),
             ("plain 1-D @ traced rank 3", lambda a: _v2 @ anp.stack([a, a * 2.0])), ("traced @ traced, stacked", lambda a: anp.stack([a, a * 2.0]) @ anp.stack([a.T, a.T])),
             ("plain ** traced", lambda a: 2.0 ** a), ("plain / traced", lambda a: 3.0 / a), ("plain % traced", lambda a: 7.5 % anp.abs(a)), ("plain - traced rank 3", lambda a: _P3[:, :2, :1] * 0 + 1.0 - anp.stack([a, a])),
             ("abs() builtin rank 3", lambda a: abs(anp.stack([a, -a]))), ("neg rank 3", lambda a: -anp.stack([a, a])),
             # truthiness is the truthiness of the VALUE (0-d and one-element arrays), so `if w:` / `while not w:` take the branch the plain call takes
             ("bool(zero element)", lambda a: bool(a[0, 0] * 0.0)), ("bool(nonzero element)", lambda a: bool(a[0, 1])), ("bool(1-element zero array)", lambda a: bool(a[0:1, 0] * 0.0)),
             ("bool(1-element nonzero array)", lambda a: bool(a[0:1, 1])), ("not 1-element zero array", lambda a: not (a[0:1, 0] - 0.5)), ("if 1x1 zero array", lambda a: (1 if (a[0:1, 0:1] - 0.5) else 2))]
    rec = []

    def probe(x):
        for nm, f in binops:
            for order in ("xc", "cx", "xx"):
                a, b = {"xc": (x, c), "cx": (c, x), "xx": (x, x)}[order]
                pa, pb = {"xc": (x0, c), "cx": (c, x0), "xx": (x0, x0)}[order]
                try:
                    r, e = f(a, b), f(pa, pb)
                except Exception as ex:
                    rec.append((f"{nm}.{order}", False, f"raised {type(ex).__name__}"))
                    continue
                plain_needed = nm in ("lt", "le", "gt", "ge", "eq", "ne")
                ok = onp.array_equal(getval(r), e) and onp.asarray(getval(r)).dtype == onp.asarray(e).dtype and (not plain_needed or not isbox(r))
                rec.append((f"{nm}.{order}", ok, f"{nm}({order}) -> {type(r).__name__} {getval(r) if not ok else ''}"))
        for nm, f in unops:
            try:
                r, e = f(x), f(x0)
            except NotImplementedError:
                continue    # no rule in this mode: the request fails loudly (C15), not a transparency issue
            except Exception as ex:
                rec.append((nm, False, f"raised {type(ex).__name__}: {ex}"))
                continue
            gv = getval(r)
            ok = (onp.array_equal(onp.asarray(gv), onp.asarray(e)) and type(gv) is type(e)) if not isinstance(e, (tuple, int, bool, float, onp.dtype)) else gv == e
            if nm in ("shape", "ndim", "size", "dtype", "len", "bool-of-element", "argmax") or nm.startswith(("bool(", "not ", "if ")):
                ok = ok and not isbox(r)
            rec.append((nm, bool(ok), f"{nm} -> {gv!r} vs {e!r}"))
        return anp.sum(x * x)
    with warnings.catch_warnings():
        warnings.simplefilter("ignore")
        for mode, runner in (("rev", lambda: make_vjp(probe, x0)), ("fwd", lambda: make_jvp(probe, x0)(onp.ones_like(x0))),
                             ("rev-in-rev", lambda: make_vjp(lambda y: make_vjp(probe, y)[1] + anp.sum(y), x0))):
            del rec[:]
            try:
                runner()
            except Exception as ex:
                rec.append(("probe", False, f"raised {type(ex).__name__}: {ex}"))
            for nm, ok, d in rec:
                rep.bounded_case(("VT-ops", mode, nm), sample=dict(case=f"{mode}:{nm}", clause="VT-ops") if ok and len(rep.bounded_samples) < 3 else None)
                if not ok:
                    rep.violation("autograd.numpy.numpy_boxes:VT-ops", f"{mode}:{nm}", f"{mode}: {d}", replay=dict(module="contracts.value_transparency", name=f"VT-ops {mode}:{nm}"), witness=True)


def run_plain(rep, tier):
    """VT-plain: the re-implemented wrappers of autograd.numpy (concatenate/stack family, array, c_/r_, select, ...) called on PLAIN values -
    also as constants inside a differentiated function - return what NumPy returns: same type, dtype, shape, values, and a result that does not alias
    its input unless NumPy's does."""
    import warnings
    import numpy as onp
    import autograd.numpy as anp
    from autograd import make_vjp
    warnings.simplefilter("ignore")
    A = onp.arange(6.0).reshape(2, 3) + 0.5
    v = onp.array([1.0, 2.0, 3.0])
    calls = {
        "concatenate((A,), axis=None)": lambda np_: np_.concatenate((A,), axis=None),
        "concatenate((A,))": lambda np_: np_.concatenate((A,)),
        "concatenate((A,), axis=1)": lambda np_: np_.concatenate((A,), axis=1),
        "concatenate([[1., 2., 3.]])": lambda np_: np_.concatenate([[1.0, 2.0, 3.0]]),
        "concatenate([v, [4.0]])": lambda np_: np_.concatenate([v, [4.0]]),
        "concatenate((A, A), axis=None)": lambda np_: np_.concatenate((A, A), axis=None),
        "stack([v])": lambda np_: np_.stack([v]),
        "stack([v, v], axis=-1)": lambda np_: np_.stack([v, v], axis=-1),
        "hstack([v])": lambda np_: np_.hstack([v]),
        "hstack((A, A))": lambda np_: np_.hstack((A, A)),
        "vstack([v])": lambda np_: np_.vstack([v]),
        "dstack([A])": lambda np_: np_.dstack([A]),
        "column_stack([v])": lambda np_: np_.column_stack([v]),
        "column_stack([v, A.T])": lambda np_: np_.column_stack([v, A.T]),
        "row_stack-like vstack((A, v))": lambda np_: np_.vstack((A, v)),
        "array(A)": lambda np_: np_.array(A),
        "array([v, v])": lambda np_: np_.array([v, v]),
        "array(3.0)": lambda np_: np_.array(3.0),
        "array([1, 2], dtype=float)": lambda np_: np_.array([1, 2], dtype=float),
        "array(A, ndmin=3)": lambda np_: np_.array(A, ndmin=3),
        "array([[1.0, v[0]], [v[1], 2.0]])": lambda np_: np_.array([[1.0, v[0]], [v[1], 2.0]]),
        "array([1., 2., 3.], ndmin=2)": lambda np_: np_.array([1.0, 2.0, 3.0], ndmin=2),
        "array([v, v], ndmin=3)": lambda np_: np_.array([v, v], ndmin=3),
        "array([[1, 2], [3, 4]], dtype=float, ndmin=3)": lambda np_: np_.array([[1, 2], [3, 4]], dtype=float, ndmin=3),
        "array((v[0], 2.0), dtype=float32)": lambda np_: np_.array((v[0], 2.0), dtype=onp.float32),
        "array([A, A], copy=True)": lambda np_: np_.array([A, A], copy=True),
        "append(A, A, axis=0)": lambda np_: np_.append(A, A, axis=0),
        "append(A, A, axis=1)": lambda np_: np_.append(A, A, axis=1),
        "append(A, v)": lambda np_: np_.append(A, v),
        "append(v, 4.0)": lambda np_: np_.append(v, 4.0),
        "append(A, A, axis=0)": lambda np_: np_.append(A, A, axis=0),
        "c_[v, v]": lambda np_: np_.c_[v, v],
        "r_[v, 0.5, v]": lambda np_: np_.r_[v, 0.5, v],
        "select": lambda np_: np_.select([v > 2, v > 1], [v, v * 2], default=-1.0),
        "reshape(A, -1)": lambda np_: np_.reshape(A, -1),
        "ravel(A)": lambda np_: np_.ravel(A),
        "where(v > 1, v, 0.0)": lambda np_: np_.where(v > 1, v, 0.0),
        "tile(v, 2)": lambda np_: np_.tile(v, 2),
        "atleast_2d(v)": lambda np_: np_.atleast_2d(v),
        "expand_dims(v, 0)": lambda np_: np_.expand_dims(v, 0),
        "sum(A, axis=0)": lambda np_: np_.sum(A, axis=0),
        "max(A)": lambda np_: np_.max(A),
        "linalg.norm(v)": lambda np_: np_.linalg.norm(v),
        "fft.fft(v)": lambda np_: np_.fft.fft(v),
    }
    for lab, call in calls.items():
        rep.bounded_case(("VT-plain", lab))
        try:
            exp = call(onp)
        except Exception as e:
            rep.note(f"VT-plain {lab}: NumPy itself raised {type(e).__name__}")
            continue
        try:
            got = call(anp)
            ok = type(got) is type(exp) and onp.shape(got) == onp.shape(exp) and getattr(got, "dtype", None) == getattr(exp, "dtype", None) and onp.array_equal(got, exp)
            det = f"autograd.numpy gives {type(got).__name__} {getattr(got, 'dtype', '')} {onp.shape(got)} {onp.asarray(got).ravel()[:6].tolist() if ok is False else ''}; NumPy gives {type(exp).__name__} {getattr(exp, 'dtype', '')} {onp.shape(exp)}"
            if ok and isinstance(got, onp.ndarray) and isinstance(exp, onp.ndarray):
                alias_np = any(onp.shares_memory(exp, z) for z in (A, v))
                alias_ag = any(onp.shares_memory(got, z) for z in (A, v))
                if alias_ag and not alias_np:
                    ok, det = False, "the result shares memory with its input; NumPy returns a new array (writing into the result would change the caller's data)"
            # the same call as a CONSTANT inside a differentiated function
            if ok:
                _, y = make_vjp(lambda x: call(anp) * x if not isinstance(call(anp), list) else x)(2.0)
                ok = onp.array_equal(y, exp * 2.0)
                det = det if ok else f"as a constant inside a differentiated function the value differs: {onp.asarray(y).ravel()[:6].tolist()}"
        except Exception as e:
            ok, det = False, f"raised {type(e).__name__}: {str(e)[:100]}"
        if not ok:
            rep.violation("autograd.numpy.numpy_wrapper:VT-plain", lab, f"{lab}: {det}", replay=dict(module="contracts.value_transparency", name=f"VT-plain {lab}"), witness=True)


def run_outputs(rep, tier):
    """VT-outputs: what a differential operator hands back next to the derivative (the value, an aux output) is the plain object the function computed -
    never a box - also when it depends on the differentiated argument, and an OUTER derivative taken through it is right."""
    import warnings

    import numpy as onp

    import autograd.numpy as anp
    from autograd import grad, grad_and_aux, make_jvp, value_and_grad, jacobian, elementwise_grad, holomorphic_grad, deriv
    from autograd.core import make_vjp
    from autograd.tracer import isbox
    x0 = onp.array([0.5, -1.5, 2.0])
    f = lambda v: anp.sum(v ** 3)
    from autograd.builtins import dict as adict   # plain Python containers that merely hold traced values are documented as opaque: autograd's own dict is in the domain
    aux_f = lambda v: (anp.sum(v ** 3), adict({"twice": v * 2.0, "n": 3.0}))

    def plain(v):
        if isinstance(v, dict):
            return all(plain(u) for u in v.values())
        if isinstance(v, (tuple, list)):
            return all(plain(u) for u in v)
        return not isbox(v)
    tests = [
        ("value_and_grad value", lambda: (lambda r: plain(r) and r[0] == f(x0))(value_and_grad(f)(x0))),
        ("make_vjp value", lambda: (lambda r: plain(r[1]) and r[1] == f(x0) and plain(r[0](1.0)))(make_vjp(f, x0))),
        ("make_jvp value", lambda: (lambda r: plain(r) and r[0] == f(x0))(make_jvp(f)(x0)(onp.ones(3)))),
        ("grad_and_aux aux depends on x", lambda: (lambda r: plain(r) and onp.array_equal(r[1]["twice"], x0 * 2.0) and r[1]["n"] == 3.0 and onp.allclose(r[0], 3 * x0 ** 2))(grad_and_aux(aux_f)(x0))),
        ("grad_and_aux aux is the argument itself", lambda: (lambda r: plain(r) and r[1] is x0)(grad_and_aux(lambda v: (anp.sum(v), v))(x0))),
        ("outer grad through aux", lambda: onp.allclose(grad(lambda v: anp.sum(grad_and_aux(lambda p: (anp.sum(p * p), p ** 3))(v)[1]))(x0), 3 * x0 ** 2)),
        ("outer grad through value_and_grad value", lambda: onp.allclose(grad(lambda v: value_and_grad(lambda p: anp.sum(p ** 3))(v)[0])(x0), 3 * x0 ** 2)),
        ("outer jvp through aux", lambda: onp.allclose(make_jvp(lambda v: grad_and_aux(lambda p: (anp.sum(p * p), p ** 3))(v)[1])(x0)(onp.ones(3))[1], 3 * x0 ** 2)),
        ("jacobian / elementwise_grad / deriv outputs", lambda: plain(jacobian(lambda v: v ** 2)(x0)) and plain(elementwise_grad(lambda v: v ** 2)(x0)) and plain(deriv(lambda v: v ** 2)(1.5))),
        ("holomorphic_grad output", lambda: plain(holomorphic_grad(lambda z: z * z)(1.0 + 2.0j))),
        ("inner operator results inside an outer trace are usable", lambda: onp.allclose(grad(lambda v: anp.sum(grad(f)(v) * v))(x0), 9 * x0 ** 2)),
    ]
    with warnings.catch_warnings():
        warnings.simplefilter("ignore")
        for lab, fn in tests:
            try:
                ok, det = bool(fn()), "holds"
            except Exception as e:
                ok, det = False, f"raised {type(e).__name__}: {str(e)[:100]}"
            rep.bounded_case(("VT-outputs", lab), sample=dict(case=lab, clause="VT-outputs") if ok and len(rep.bounded_samples) < 3 else None)
            if not ok:
                rep.violation("autograd.differential_operators:VT-outputs", lab, f"{lab}: {det if det != 'holds' else 'a box leaked, or the value / derivative through it is wrong'}",
                              replay=dict(module="contracts.value_transparency", name=f"VT-outputs {lab}"), witness=True)


def replay(spec):
    if spec.get("name", "").startswith("VT-outputs "):
        from vlib.common import Report
        r = Report("replay", "quick", "other", "replay")
        r.known = {"findings": []}
        run_outputs(r, "quick")
        bad = [x for x in r.violations if x["case"] == spec["name"][len("VT-outputs "):]]
        return (not bad), (bad[0]["what"] if bad else "holds"), "plain NumPy evaluation of the same function"
    if spec.get("name", "").startswith("VT-plain "):
        from vlib.common import Report
        r = Report("replay", "quick", "other", "replay")
        r.known = {"findings": []}
        run_plain(r, "quick")
        bad = [x for x in r.violations if x["case"] == spec["name"][len("VT-plain "):]]
        return (not bad), (bad[0]["what"] if bad else "holds"), "NumPy's own result for the same call"
    return False, f"ground obligation {spec['name']} violated on this tree", "see contracts/value_transparency.py"
