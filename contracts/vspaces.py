"""Contracts of the vector-space layer (DESIGN §5 C13): autograd.core.VSpace, numpy_vspaces.ArrayVSpace /
ComplexArrayVSpace, builtins.ContainerVSpace.

Part A (z3, E2-style): the real method bodies VSpace._add/_scalar_mul/_covector/_mut_add are executed on symbolic real scalars
   and the axioms they must satisfy are discharged as identities over the reals (commutativity, associativity, distributivity,
   unit, involution).  Lifting to arrays uses the assumption that NumPy's +, *, conj act point-wise.
Part B (bounded, exact): on arrays of exact symbolic entries (real) and of dyadic-rational complex numbers (concrete, every
   supported dtype, C- and F-ordered operands, shapes incl. () and size 0) and on nested containers:
   VS-zero, VS-add-comm, VS-add-assoc, VS-mut-add (== add, into the first operand only, None -> fresh), VS-smul-distrib, VS-smul-unit,
   VS-ip-symmetric, VS-ip-bilinear, VS-ip-posdef (<x,x> = sum |x_i|^2), VS-covector-involution, VS-basis (orthonormal, complete, `size` members),
   VS-eq (vspaces equal  <=>  same structure, shapes and dtypes), VS-registry (type -> class table).
Floating-point rounding is NOT covered: all data are exact rationals / dyadic floats for which the arithmetic is exact.
"""
import itertools

import numpy as onp
import z3

FN = "autograd.vspace"


def run_scalar(rep, tier):
    from vlib import rulecalc as rc
    import autograd.core as C
    from autograd.numpy.numpy_vspaces import ArrayVSpace

    rep.function("autograd.core.VSpace._add/_mut_add/_scalar_mul/_covector", C.VSpace)
    vs = object.__new__(ArrayVSpace)
    x, y, w, a, b = (rc.var(n) for n in "xywab")
    obl = [
        ("VS-add-comm", vs._add(x, y), vs._add(y, x)),
        ("VS-add-assoc", vs._add(vs._add(x, y), w), vs._add(x, vs._add(y, w))),
        ("VS-zero", vs._add(x, rc.const(0)), x),
        ("VS-smul-distrib-vector", vs._scalar_mul(vs._add(x, y), a), vs._add(vs._scalar_mul(x, a), vs._scalar_mul(y, a))),
        ("VS-smul-distrib-scalar", vs._scalar_mul(x, a + b), vs._add(vs._scalar_mul(x, a), vs._scalar_mul(x, b))),
        ("VS-smul-assoc", vs._scalar_mul(vs._scalar_mul(x, a), b), vs._scalar_mul(x, a * b)),
        ("VS-smul-unit", vs._scalar_mul(x, rc.const(1)), x),
        ("VS-covector-involution", vs._covector(vs._covector(x)), x),
    ]
    for name, l, r in obl:
        verdict, m, backend, secs, _ = rc.identity_obligation(rc._ex(l), rc._ex(r), [])
        rep.obligation(f"{FN}:scalar:{name}", verdict == "proved", backend, secs, "E2", sample=f"{l!r} == {r!r}")
        if verdict != "proved":
            rep.violation(f"{FN}:{name}", "scalar", f"{l!r} != {r!r}", witness=False, solver_output=str(m)[:200])
    rep.assume("NumPy's +, *, conj act point-wise on arrays (lifting of the scalar axioms)")


def _exact_cases():
    shapes = [(), (1,), (3,), (2, 2), (0,), (2, 0), (1, 3, 1)]
    return shapes


def run_exact(rep, tier):
    import warnings
    warnings.simplefilter("ignore")
    from vlib import symrun as S
    import autograd.core as C
    import autograd.numpy  # registers vspaces  # noqa
    from autograd.numpy.numpy_vspaces import ArrayVSpace, ComplexArrayVSpace
    from autograd.builtins import DictVSpace, ListVSpace, TupleVSpace
    S.register()
    rep.function("autograd.numpy.numpy_vspaces.ArrayVSpace", ArrayVSpace)
    rep.function("autograd.numpy.numpy_vspaces.ComplexArrayVSpace", ComplexArrayVSpace)
    rep.function("autograd.core.vspace", C.vspace)
    rep.bound("vspace axioms: real arrays of exact symbolic entries with shapes (), (1,), (3,), (2,2), (0,), (2,0), (1,3,1); complex arrays of dyadic rationals in "
              "complex64/complex128/clongdouble, C- and F-ordered; Python/NumPy scalar types; nested containers of depth <= 3")
    viol = []

    def chk(case, clause, ok, detail=""):
        rep.bounded_case((case, clause), sample=dict(case=case, clause=clause) if (ok and len(rep.bounded_samples) < 6) else None)
        if not ok:
            viol.append((case, clause, detail))

    def eq(a, b):
        ea, eb = S.entries(a), S.entries(b)
        return S.shape_of(a) == S.shape_of(b) and len(ea) == len(eb) and all(p == q for p, q in zip(ea, eb))

    # ---- real, exact symbolic
    for shp in _exact_cases():
        n = int(onp.prod(shp)) if shp != () else 1
        x = S.symarray("x", shp, 0)[0]
        y = S.symarray("x", shp, n)[0]
        w = S.symarray("x", shp, 2 * n)[0]
        a, b = S.sym("c0"), S.sym("c1")
        vs = C.vspace(x)
        case = f"real{shp}"
        z = vs.zeros()
        chk(case, "VS-zero", eq(vs._add(x, z), x) and eq(vs._add(z, x), x) and S.shape_of(z) == shp)
        chk(case, "VS-add-comm", eq(vs._add(x, y), vs._add(y, x)))
        chk(case, "VS-add-assoc", eq(vs._add(vs._add(x, y), w), vs._add(x, vs._add(y, w))))
        if shp != ():
            xc = x.copy()
            ycopy = y.copy()
            r = vs._mut_add(xc, y)
            chk(case, "VS-mut-add", r is xc and eq(r, vs._add(x, y)) and eq(y, ycopy))
            fresh = vs.mut_add(None, x)
            chk(case, "VS-mut-add-none-fresh", eq(fresh, x) and fresh is not x and not onp.shares_memory(fresh, x))
        chk(case, "VS-smul-distrib", eq(vs._scalar_mul(vs._add(x, y), a), vs._add(vs._scalar_mul(x, a), vs._scalar_mul(y, a)))
            and eq(vs._scalar_mul(x, a + b), vs._add(vs._scalar_mul(x, a), vs._scalar_mul(x, b))))
        chk(case, "VS-smul-unit", eq(vs._scalar_mul(x, 1), x))
        ip = vs._inner_prod
        if n > 0:
            chk(case, "VS-ip-symmetric", ip(x, y) == ip(y, x))
            chk(case, "VS-ip-bilinear", ip(vs._add(vs._scalar_mul(x, a), w), y) == a * ip(x, y) + ip(w, y))
            chk(case, "VS-ip-posdef", ip(x, x) == sum((e * e for e in S.entries(x)), S.Sym(S.K(0))), "<x,x> must be the sum of squares")
        chk(case, "VS-covector-involution", eq(vs._covector(vs._covector(x)), x))
        chk(case, "VS-size", int(vs.size) == n, f"size {vs.size} vs {n}")
    # ---- concrete dtypes (dyadic data => exact float arithmetic), real and complex, C/F order
    rng_vals = [0.5, -1.25, 2.0, 0.75, -0.5, 1.5, 3.0, -2.25, 0.25, 1.0, -0.75, 2.5]

    def mkarr(shape, dtype, off=0, order="C"):
        n = int(onp.prod(shape)) if shape != () else 1
        vals = [rng_vals[(off + i) % 12] for i in range(n)]
        if onp.issubdtype(dtype, onp.complexfloating):
            vals = [v + 1j * rng_vals[(off + 5 + 2 * i) % 12] for i, v in enumerate(vals)]
        a = onp.array(vals, dtype=dtype).reshape(shape)
        if order == "F" and a.ndim >= 2:
            a = onp.asfortranarray(a)
        if order == "T" and a.ndim >= 2:
            a = onp.array(vals, dtype=dtype).reshape(shape[::-1]).T
        return a

    dtypes = [onp.float64, onp.float32, onp.float16, onp.longdouble, onp.complex128, onp.complex64, onp.clongdouble]
    for dt in dtypes:
        cplx = onp.issubdtype(dt, onp.complexfloating)
        for shp in [(), (3,), (2, 3), (0,), (2, 2)]:
            for ox, oy in [("C", "C"), ("F", "C"), ("C", "T")]:
                if len(shp) < 2 and (ox, oy) != ("C", "C"):
                    continue
                x, y, w = mkarr(shp, dt, 0, ox), mkarr(shp, dt, 3, oy), mkarr(shp, dt, 7, "C")
                n = x.size
                vs = C.vspace(x)
                case = f"{onp.dtype(dt).name}{shp}{ox}{oy}"
                chk(case, "VS-registry", type(vs) is (ComplexArrayVSpace if cplx else ArrayVSpace) and vs.shape == shp and vs.dtype == onp.dtype(dt),
                    f"vspace of {onp.dtype(dt).name} array is {type(vs).__name__} {vs.__dict__}")
                if type(vs) not in (ArrayVSpace, ComplexArrayVSpace):
                    continue
                z = vs.zeros()
                chk(case, "VS-zero", onp.array_equal(vs._add(x, z), x) and z.dtype == onp.dtype(dt) and z.shape == shp)
                chk(case, "VS-add-comm", onp.array_equal(vs._add(x, y), vs._add(y, x)))
                xc = x.copy()
                r = vs._mut_add(xc, y)
                chk(case, "VS-mut-add", (r is xc) and onp.array_equal(r, x + y))
                fr = vs.mut_add(None, x)
                chk(case, "VS-mut-add-none-fresh", onp.array_equal(fr, x) and not onp.shares_memory(fr, x))
                ip = vs._inner_prod
                if n > 0:
                    exp = sum((complex(p).conjugate() * complex(q)).real for p, q in zip(x.ravel().tolist(), y.ravel().tolist())) if cplx else \
                        sum(float(p) * float(q) for p, q in zip(x.ravel().tolist(), y.ravel().tolist()))
                    # the pairing is over LOGICAL positions, whatever the memory layout
                    xl = [x[idx] for idx in onp.ndindex(*shp)]
                    yl = [y[idx] for idx in onp.ndindex(*shp)]
                    exp = sum((complex(p).conjugate() * complex(q)).real for p, q in zip(xl, yl))
                    got = ip(x, y)
                    chk(case, "VS-ip-value", abs(complex(got) - exp) < 1e-3 * (1 + abs(exp)) and abs(complex(got).imag) == 0, f"<x,y> = {got}, expected Re sum conj(x_i) y_i = {exp}")
                    chk(case, "VS-ip-symmetric", abs(complex(ip(x, y)) - complex(ip(y, x))) < 1e-3)
                    pd = ip(x, x)
                    chk(case, "VS-ip-posdef", abs(complex(pd).imag) == 0 and complex(pd).real > 0 and abs(complex(pd).real - sum(abs(complex(p)) ** 2 for p in xl)) < 1e-2 * (1 + abs(complex(pd))), f"<x,x> = {pd}")
                cv = vs._covector(vs._covector(x))
                chk(case, "VS-covector-involution", onp.array_equal(cv, x))
                if cplx and n > 0:
                    chk(case, "VS-covector-conj", onp.array_equal(vs._covector(x), onp.conj(x)))
                basis = list(vs.standard_basis())
                sz = int(vs.size)
                chk(case, "VS-size", sz == n * (2 if cplx else 1), f"size {sz}")
                okb = len(basis) == sz
                if okb and 0 < sz <= 12:
                    for i, j in itertools.product(range(sz), repeat=2):
                        okb = okb and abs(complex(ip(basis[i], basis[j])) - (1 if i == j else 0)) < 1e-6
                    rec = sum((basis[i] * ip(basis[i], x) for i in range(sz)), vs.zeros())
                    okb = okb and onp.allclose(rec, x, rtol=1e-2, atol=1e-3)
                chk(case, "VS-basis", okb, f"{len(basis)} basis members for size {sz}")
                chk(case, "VS-basis-in-space", all(C.vspace(b) == vs for b in basis) and C.vspace(vs.zeros()) == vs and C.vspace(vs.ones()) == vs
                    and (n == 0 or C.vspace(vs.randn()) == vs), f"standard_basis / zeros / ones / randn of the space of a {x.dtype} array of shape {shp} must be elements of that space (same dtype)")
                on = vs.ones()
                chk(case, "VS-ones", on.shape == shp and (onp.array_equal(on, onp.ones(shp) * (1 + 1j)) if cplx else onp.array_equal(on, onp.ones(shp))))
    # ---- scalar types registry
    for val, cls in [(1.5, ArrayVSpace), (onp.float64(1.5), ArrayVSpace), (onp.float32(1.5), ArrayVSpace), (onp.float16(1.5), ArrayVSpace), (onp.longdouble(1.5), ArrayVSpace),
                     (1.5 + 2j, ComplexArrayVSpace), (onp.complex128(1 + 2j), ComplexArrayVSpace), (onp.complex64(1 + 2j), ComplexArrayVSpace), (onp.clongdouble(1 + 2j), ComplexArrayVSpace)]:
        try:
            vs = C.vspace(val)
            ok = type(vs) is cls and vs.shape == () and int(vs.size) == (2 if cls is ComplexArrayVSpace else 1) and len(list(vs.standard_basis())) == int(vs.size) \
                and all(onp.asarray(b).dtype == onp.asarray(val).dtype for b in vs.standard_basis()) and onp.asarray(vs.zeros()).dtype == onp.asarray(val).dtype
        except Exception as e:
            ok = False
        chk(f"scalar-{type(val).__name__}", "VS-registry", ok, f"vspace({type(val).__name__})")
    # ---- equality of vspaces  <=>  same structure, shapes, dtypes
    f64 = lambda *s: onp.zeros(s)
    protos = [f64(2), f64(3), f64(2, 1), onp.zeros(2, dtype=onp.float32), onp.zeros(2, dtype=complex), 1.0, [f64(2)], [f64(2), f64(3)], [], (f64(2),), (f64(2), f64(3)), (),
              {"a": f64(2)}, {"a": f64(2), "b": f64(3)}, {}, {"b": f64(3), "a": f64(2)}, [[f64(2)], f64(1)], [[f64(2), f64(2)], f64(1)], {"a": [f64(2)]}, {"a": [f64(2), f64(1)]}]

    def struct(p):
        if isinstance(p, dict):
            return ("dict", tuple(sorted((k, struct(v)) for k, v in p.items())))
        if isinstance(p, (list, tuple)):
            return (type(p).__name__, tuple(struct(v) for v in p))
        a = onp.asarray(p)
        return ("arr", a.shape, str(a.dtype))
    for i, j in itertools.product(range(len(protos)), repeat=2):
        e = C.vspace(protos[i]) == C.vspace(protos[j])
        exp = struct(protos[i]) == struct(protos[j])
        chk(f"eq[{i},{j}]", "VS-eq", bool(e) == exp, f"vspace({struct(protos[i])}) == vspace({struct(protos[j])}) is {e}, expected {exp}")
    # ---- containers (nested): axioms lifted leaf-wise, exact
    nest = [("tuple-of-scalars", lambda s: (s(), s())), ("nested-tuples", lambda s: ((s(), (s(), s())), s())), ("list-of-scalars", lambda s: [s(), s(), s()]), ("tuple2", lambda s: (s(2), s())), ("list-dict", lambda s: [s(2), {"k": s(), "j": (s(2),)}]), ("empty", lambda s: ((), [], {})), ("dict3", lambda s: {"b": s(2), "a": s(2), "c": s(2)})]
    for name, mkp in nest:
        ctr = itertools.count()

        def s(*shape):
            return S.symarray("x", tuple(shape), next(ctr) * 3)[0]
        x, y, w = mkp(s), mkp(s), mkp(s)
        vs = C.vspace(x)

        def leaves(c):
            if isinstance(c, dict):
                return [l for v in c.values() for l in leaves(v)]
            if isinstance(c, (list, tuple)):
                return [l for v in c for l in leaves(v)]
            return [c]

        def ceq(p, q):
            lp, lq = leaves(p), leaves(q)
            return len(lp) == len(lq) and all(eq(u, v) for u, v in zip(lp, lq)) and struct_of(p) == struct_of(q)

        def struct_of(p):
            if isinstance(p, dict):
                return ("dict", tuple((k, struct_of(v)) for k, v in p.items()))
            if isinstance(p, (list, tuple)):
                return (type(p).__name__, tuple(struct_of(v) for v in p))
            return S.shape_of(p)
        a = S.sym("c0")
        case = f"container-{name}"
        chk(case, "VS-zero", ceq(vs._add(x, vs.zeros()), x))
        chk(case, "VS-add-comm", ceq(vs._add(x, y), vs._add(y, x)))
        chk(case, "VS-add-assoc", ceq(vs._add(vs._add(x, y), w), vs._add(x, vs._add(y, w))))

        def reorder(c):
            if isinstance(c, dict):
                return {k_: reorder(c[k_]) for k_ in reversed(list(c))}
            if isinstance(c, (list, tuple)):
                return type(c)(reorder(v) for v in c)
            return c
        chk(case, "VS-key-order", ceq(vs._add(x, reorder(y)), vs._add(x, y)) and ceq(vs._scalar_mul(reorder(x), a), vs._scalar_mul(x, a))
            and (nl_ := sum(len(S.entries(l)) for l in leaves(x))) >= 0 and (nl_ == 0 or vs._inner_prod(x, reorder(y)) == vs._inner_prod(x, y)),
            "operations pair leaves by key, not by dict insertion order")
        chk(case, "VS-smul-distrib", ceq(vs._scalar_mul(vs._add(x, y), a), vs._add(vs._scalar_mul(x, a), vs._scalar_mul(y, a))))
        # mut_add == add as a VALUE, whatever the leaves are made of (exact scalars here are immutable objects, like Python floats and nested tuples:
        # an implementation that accumulates leaf-wise must return the container of the NEW leaves)
        def rebuild(c):   # fresh containers around the same (immutable / array) leaves
            if isinstance(c, dict):
                return {k_: rebuild(v) for k_, v in c.items()}
            if isinstance(c, (list, tuple)):
                return type(c)(rebuild(v) for v in c)
            return c.copy() if isinstance(c, onp.ndarray) else c
        xc = rebuild(x)
        chk(case, "VS-mut-add-value", ceq(vs._mut_add(xc, y), vs._add(x, y)), "mut_add(x, y) must equal add(x, y)")
        chk(case, "VS-mut-add-none", ceq(vs.mut_add(None, x), x), "mut_add(None, x) must equal x")
        nl = sum(len(S.entries(l)) for l in leaves(x))
        chk(case, "VS-size", int(vs.size) == nl, f"size {vs.size} vs {nl}")
        if nl:
            chk(case, "VS-ip-symmetric", vs._inner_prod(x, y) == vs._inner_prod(y, x))
            chk(case, "VS-ip-posdef", vs._inner_prod(x, x) == sum((e * e for l in leaves(x) for e in S.entries(l)), S.Sym(S.K(0))))
        chk(case, "VS-basis", len(list(vs.standard_basis())) == nl)
    first = {}
    for case, clause, detail in viol:
        first.setdefault(clause, []).append((case, detail))
    for clause, lst in first.items():
        for case, detail in lst[:6]:
            rep.violation(f"{FN}:{clause}", case, f"{case}: {clause} violated {detail}", replay=dict(module="contracts.vspaces", clause=clause, case=case), witness=True)


def replay(spec):
    from vlib.common import Report
    r = Report("C13", "quick", "other", "replay")
    r.known = {"findings": []}
    run_exact(r, "quick")
    bad = [v for v in r.violations if v["case"] == spec["case"] and v["obligation"].endswith(spec["clause"])]
    return (not bad), (bad[0]["what"] if bad else "axiom holds on this case"), spec["clause"]
