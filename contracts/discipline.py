"""E5: frame / traceability discipline discharged by abstract interpretation of the real AST (DESIGN §2.2 E5).

(a) GLOBAL-STATE FRAME (C19, C20, C10).  Every store into a module-level mutable object of the package (found by scanning the
    current source: `X[...] = ...`, `X.attr = ...`, augmented assignments, and mutating method calls .add/.append/.update/.pop/
    .extend/.clear/.setdefault/.remove/.insert/.discard, plus next() on an object reachable from a module global; and the same stores
    through a name captured from an ENCLOSING function - per-closure state shared by all calls of a returned function) is located
    either at module top level or inside one of the REGISTRATION functions (def*/register*), or is one of the audited exceptions
    listed in AUDITED.  No `global` / `nonlocal` statement exists outside the audited list.  Consequence: differentiation-time code
    (everything else) cannot change process-wide state, so a call's result cannot depend on earlier calls (C19) and threads share
    only read-only state plus the audited atomic counter (C20).
(c) TRACEABILITY (C07).  Inside every VJP/JVP rule body of the rule modules, a value that may be a Box at higher order (rule
    parameters - ans, primal arguments, (co)tangent - and anything computed from them through wrapped calls or operators) is never
    passed to a RAW NumPy function (onp.* / _np.* / npla.* / ffto.*).  Values known to be plain: results of shape/ndim/metadata/
    iscomplexobj/result_type/isscalar (notrace), .shape/.ndim/.dtype/.size, len(), comparisons, literals, raw-NumPy results.
A violation comes with the offending source location; there is no input to replay (the witness is the AST node).
"""
import ast
import os

from vlib.common import REPO

MUTATORS = {"add", "append", "update", "pop", "extend", "clear", "setdefault", "remove", "insert", "discard", "popitem", "sort", "reverse", "__setitem__"}
REGISTRATION = {"defvjp", "defvjp_argnum", "defvjp_argnums", "defjvp", "defjvp_argnum", "defjvp_argnums", "def_linear", "register_notrace", "register",
                "wrap_namespace", "wrap_intdtype"}
# audited exceptions: (file, enclosing function, what) -> reason
AUDITED = {
    ("autograd/tracer.py", "TraceStack.new_trace", "next"): "the one shared mutable datum of differentiation: an atomic, never-rewound id counter (contracts/tracer_trace.py proves what is needed of it)",
    ("autograd/tracer.py", "TraceStack.__init__", "attr"): "constructor of the module-level singleton",
    ("autograd/tracer.py", "Box.__init__", "attr"): "constructor writing its own fresh object",
    ("autograd/tracer.py", "primitive", "attr"): "sets attributes on the freshly created wrapper function",
    ("autograd/tracer.py", "notrace_primitive", "attr"): "sets attributes on the freshly created wrapper function",
    ("autograd/wrap_util.py", "wraps._wraps", "attr"): "sets __name__/__doc__ on a freshly created function",
    ("autograd/wrap_util.py", "wraps._wraps", "attr-param"): "decorator: sets __name__/__doc__ on the function object being created by its only callers",
    ("autograd/core.py", "VJPNode.__init__", "attr"): "constructor writing its own fresh node",
    ("autograd/core.py", "VJPNode.initialize_root", "attr"): "constructor writing its own fresh node",
    ("autograd/core.py", "JVPNode.__init__", "attr"): "constructor writing its own fresh node",
    ("autograd/core.py", "JVPNode.initialize_root", "attr"): "constructor writing its own fresh node",
    ("autograd/core.py", "SparseObject.__init__", "attr"): "constructor writing its own fresh object",
    ("autograd/core.py", "VSpace._mut_add", "aug"): "x += y on a buffer whose ownership is proved by contracts/core_outgrads.py",
    ("autograd/builtins.py", "ContainerVSpace.__init__", "attr"): "constructor writing its own fresh object",
    ("autograd/numpy/numpy_vspaces.py", "ArrayVSpace.__init__", "attr"): "constructor writing its own fresh object",
    ("autograd/core.py", "primitive_with_deprecation_warnings", "attr"): "deprecation shim: attributes on the freshly created wrapper",
    ("autograd/numpy/numpy_wrapper.py", "make_diagonal", "attr"): "makes the diagonal VIEW of an array allocated two lines above writeable",
}
FILES = ["autograd/core.py", "autograd/tracer.py", "autograd/util.py", "autograd/wrap_util.py", "autograd/builtins.py", "autograd/differential_operators.py",
         "autograd/extend.py", "autograd/numpy/numpy_vjps.py", "autograd/numpy/numpy_jvps.py", "autograd/numpy/numpy_wrapper.py", "autograd/numpy/numpy_boxes.py",
         "autograd/numpy/numpy_vspaces.py", "autograd/numpy/linalg.py", "autograd/numpy/fft.py", "autograd/numpy/random.py", "autograd/misc/flatten.py",
         "autograd/misc/fixed_points.py"]


class Scope(ast.NodeVisitor):
    def __init__(self, relpath, tree):
        self.relpath = relpath
        self.stack = []
        self.sites = []  # (kind, func qualname or '<module>', lineno, text)
        self.tree = tree
        self.module_globals = set()  # module-level names bound to mutable containers / singletons / classes (process-wide state)
        for n in tree.body:
            if isinstance(n, ast.Assign) and isinstance(n.value, (ast.Dict, ast.Set, ast.List, ast.ListComp, ast.DictComp, ast.Call, ast.Attribute)):
                if isinstance(n.value, ast.Call) and isinstance(n.value.func, ast.Name) and n.value.func.id in ("primitive", "notrace_primitive", "unary_to_nary", "namedtuple"):
                    continue
                for t in n.targets:
                    if isinstance(t, ast.Name):
                        self.module_globals.add(t.id)
            if isinstance(n, (ast.ClassDef,)):
                self.module_globals.add(n.name)
        self.locals_stack = []
        self.alias_stack = []
        self.param_stack = []
        self.fn_stack = []
        self.param_sites = {}
        # names bound by `<name> = vspace(...)`: VSpace objects, whose .add is the (pure) vector addition, not set.add
        self.vspace_names = {t.id for n in ast.walk(tree) if isinstance(n, ast.Assign) and isinstance(n.value, ast.Call) and isinstance(n.value.func, ast.Name)
                             and n.value.func.id == "vspace" for t in n.targets if isinstance(t, ast.Name)}

    def q(self):
        return ".".join(self.stack) if self.stack else "<module>"

    def visit_FunctionDef(self, node):
        self.stack.append(node.name)
        loc = {a.arg for a in node.args.args + node.args.kwonlyargs + node.args.posonlyargs}
        if node.args.vararg:
            loc.add(node.args.vararg.arg)
        if node.args.kwarg:
            loc.add(node.args.kwarg.arg)
        for n in ast.walk(node):
            if isinstance(n, ast.Name) and isinstance(n.ctx, ast.Store):
                loc.add(n.id)
            if isinstance(n, (ast.FunctionDef, ast.ClassDef)) and n is not node:
                loc.add(n.name)
        # a memoising decorator keeps results of earlier calls in process-wide state: later calls (and other threads) are answered from history
        for dec in node.decorator_list:
            d_ = dec.func if isinstance(dec, ast.Call) else dec
            nm_ = d_.attr if isinstance(d_, ast.Attribute) else (d_.id if isinstance(d_, ast.Name) else "")
            if nm_ in ("lru_cache", "cache", "cached_property", "memoize", "memoized", "memo"):
                self.sites.append(("memo-decorator", self.q(), node.lineno, ast.unparse(dec)[:100]))
        # locals that merely ALIAS a module-level mutable object (`buf = _scratch`): a store through them is a store into process-wide state
        al = set()
        for n in ast.walk(node):
            if isinstance(n, ast.Assign) and isinstance(n.value, ast.Name) and (n.value.id in self.module_globals or n.value.id in KNOWN_STATE) and n.value.id not in loc:
                for t in n.targets:
                    if isinstance(t, ast.Name):
                        al.add(t.id)
        self.alias_stack.append(al)
        self.locals_stack.append(loc)
        a = node.args
        self.fn_stack.append(node)
        self.param_stack.append({x.arg for x in a.posonlyargs + a.args + a.kwonlyargs} | ({a.vararg.arg} if a.vararg else set()) | ({a.kwarg.arg} if a.kwarg else set()))
        self.generic_visit(node)
        self.param_stack.pop()
        self.fn_stack.pop()
        self.locals_stack.pop()
        self.alias_stack.pop()
        self.stack.pop()

    visit_AsyncFunctionDef = visit_FunctionDef

    def is_global_alias(self, name):
        return any(name in a for a in self.alias_stack)

    def visit_Lambda(self, node):
        loc = {a.arg for a in node.args.args}
        self.locals_stack.append(loc)
        self.generic_visit(node)
        self.locals_stack.pop()

    def visit_ClassDef(self, node):
        self.stack.append(node.name)
        self.generic_visit(node)
        self.stack.pop()

    def is_local(self, name):
        return any(name in l for l in self.locals_stack)

    def is_captured(self, name):
        """name is bound in an ENCLOSING function scope but not in the innermost one: a closure cell shared by every call of the inner
        function (and by every thread that calls it)"""
        if len(self.locals_stack) < 2 or name in self.locals_stack[-1]:
            return False
        return any(name in l for l in self.locals_stack[:-1])

    def _closure_store(self, t, node):
        if isinstance(t, (ast.Subscript, ast.Attribute)):
            r = self.root(t)
            if r is not None and r not in ("self", "cls") and self.is_captured(r):
                self.site("closure-state", node)

    def root(self, e):
        while isinstance(e, (ast.Attribute, ast.Subscript)):
            e = e.value
        return e.id if isinstance(e, ast.Name) else None

    def site(self, kind, node):
        self.sites.append((kind, self.q(), node.lineno, ast.unparse(node)[:100]))

    def visit_Global(self, node):
        self.site("global-stmt", node)

    def visit_Nonlocal(self, node):
        self.site("nonlocal-stmt", node)

    def _store_target(self, t, node):
        if isinstance(t, (ast.Subscript, ast.Attribute)):
            r = self.root(t)
            if r is not None and (not self.is_local(r) or self.is_global_alias(r)) and self.stack and r not in ("self", "cls"):
                self.site("store-global", node)      # write through a module-level name (or a local alias of one) from inside a function
            elif isinstance(t, ast.Attribute) and isinstance(t.value, ast.Name) and t.value.id in ("self", "cls") and self.stack:
                self.site("attr", node)
            elif isinstance(t, ast.Attribute) and self.stack and r is not None and self.is_local(r):
                # an attribute store on an object RECEIVED from the caller (a parameter other than self) changes state that outlives the call
                isp = bool(self.param_stack and r in self.param_stack[-1])
                if isp:
                    self.param_sites[(self.q(), node.lineno)] = (self.fn_stack[-1].name, [a.arg for a in self.fn_stack[-1].args.posonlyargs + self.fn_stack[-1].args.args].index(r)
                                                                 if r in [a.arg for a in self.fn_stack[-1].args.posonlyargs + self.fn_stack[-1].args.args] else -1)
                self.site("attr-param" if isp else "attr", node)

    def visit_Assign(self, node):
        for t in node.targets:
            self._store_target(t, node)
            self._closure_store(t, node)
            if isinstance(t, (ast.Tuple, ast.List)):
                for e in t.elts:
                    self._closure_store(e, node)
        self.generic_visit(node)

    def visit_Delete(self, node):
        for t in node.targets:
            self._closure_store(t, node)
            self._store_target(t, node)      # `del G[:]` / `del G[k]` on process-wide state (or an alias of it)
        self.generic_visit(node)

    def visit_AugAssign(self, node):
        t = node.target
        if isinstance(t, (ast.Subscript, ast.Attribute)):
            r = self.root(t)
            if r is not None and not self.is_local(r) and self.stack:
                self.site("store-global", node)
            elif isinstance(t, ast.Attribute) and isinstance(t.value, ast.Name) and t.value.id in ("self", "cls"):
                self.site("attr", node)
        elif isinstance(t, ast.Name) and self.stack and self.q() in ("VSpace._mut_add",):
            self.site("aug", node)
        self._closure_store(t, node)
        self.generic_visit(node)

    def visit_Call(self, node):
        f = node.func
        if isinstance(f, ast.Attribute) and f.attr in MUTATORS and self.stack:
            r = self.root(f.value)
            if r is not None and ((not self.is_local(r) and (r in self.module_globals or r in KNOWN_STATE)) or self.is_global_alias(r)):
                self.site("mutator-global", node)
        if isinstance(f, ast.Attribute) and f.attr in MUTATORS and self.stack:
            r = self.root(f.value)
            if r is not None and r not in ("self", "cls") and self.is_captured(r) and not (f.attr == "add" and r in self.vspace_names):
                self.site("closure-state", node)      # e.g. cache.append(...) / memo.update(...) on a cell of the enclosing function
        if isinstance(f, ast.Attribute) and f.attr in FOREIGN_MUTATORS and self.stack:
            self.site("foreign-global-state", node)   # process-wide state of NumPy / warnings / random / sys changed from inside a function
        if isinstance(f, ast.Name) and f.id in ("getrefcount", "id") and self.stack and f.id == "getrefcount":
            self.site("foreign-global-state", node)   # behaviour made to depend on interpreter-internal reference counts
        if isinstance(f, ast.Name) and f.id == "next" and self.stack and node.args:
            r = self.root(node.args[0])
            if r in ("self", "cls") or (r is not None and not self.is_local(r)):
                self.site("next", node)
        if isinstance(f, ast.Name) and f.id in REGISTRATION and self.stack:
            self.site("registration-call", node)
        if isinstance(f, ast.Name) and f.id in ("setattr", "delattr") and self.stack:
            self.site("setattr", node)
        self.generic_visit(node)


FOREIGN_MUTATORS = {"getrefcount", "get_referrers", "get_referents", "collect", "seterr", "seterrcall", "setbufsize", "set_printoptions", "seed", "set_state", "simplefilter", "filterwarnings", "resetwarnings", "setrecursionlimit",
                    "setswitchinterval", "putenv", "set_string_function", "setdefaultencoding"}
KNOWN_STATE = {"primitive_vjps", "primitive_jvps", "notrace_primitives", "Box", "VSpace", "box_type_mappings", "box_types", "sparse_object_types", "nograd_functions",
               "trace_stack", "ArrayBox", "SequenceBox", "DictBox"}
ALLOWED_FUNCS = {"defvjp_argnums", "defjvp_argnums", "register_notrace", "Box.register", "VSpace.register", "wrap_namespace", "wrap_intdtype"}
ALLOWED_REG_CALLERS = {"defvjp", "defvjp_argnum", "defjvp", "defjvp_argnum", "def_linear", "checkpoint", "wrap_namespace", "primitive_with_deprecation_warnings",
                       "deprecated_defvjp", "deprecated_defvjp_is_zero", "deprecated_defgrad", "primitive_with_deprecation_warnings.__new__"}


def _callers(trees):
    """callee simple name -> set of (file, enclosing top-level function or '<module>') over the scanned files"""
    out = {}
    for rel, tree in trees.items():
        for top in tree.body:
            scope = top.name if isinstance(top, (ast.FunctionDef, ast.ClassDef)) else "<module>"
            for n in ast.walk(top):
                if isinstance(n, ast.Call):
                    nm = n.func.id if isinstance(n.func, ast.Name) else (n.func.attr if isinstance(n.func, ast.Attribute) else None)
                    if nm:
                        out.setdefault(nm, set()).add((rel, scope))
                # a function passed as a value (callback) may be called from anywhere
                if isinstance(n, ast.Name) and isinstance(n.ctx, ast.Load):
                    out.setdefault("&" + n.id, set()).add((rel, scope))
    return out


def _constructor_helper(trees, fname, pos):
    """True if every use of `fname` in the scanned files is a call made lexically inside a constructor (__init__ / initialize_root) that passes that
    constructor's own `self` at position `pos`: the helper then writes the fresh object under construction, wherever its body was moved from."""
    if pos < 0:
        return False
    ncalls = 0
    for tree in trees.values():
        calls_in_ctor = set()
        for fn in ast.walk(tree):
            if isinstance(fn, ast.FunctionDef) and fn.name in ("__init__", "initialize_root"):
                for n in ast.walk(fn):
                    if isinstance(n, ast.Call) and isinstance(n.func, ast.Name) and n.func.id == fname:
                        if len(n.args) > pos and isinstance(n.args[pos], ast.Name) and n.args[pos].id == "self" and not any(isinstance(a, ast.Starred) for a in n.args[:pos + 1]):
                            calls_in_ctor.add(id(n.func))
                            ncalls += 1
        for n in ast.walk(tree):
            if isinstance(n, ast.Name) and n.id == fname and isinstance(n.ctx, ast.Load) and id(n) not in calls_in_ctor:
                return False
            if isinstance(n, ast.Attribute) and n.attr == fname:
                return False
    return ncalls > 0


def _registration_only(fname, callers, allowed, depth=0):
    """True if the (private) function `fname` is called only from module level or from registration functions (transitively): it is then itself
    registration-time code, wherever its body was moved from (helper extraction must not change the verdict)."""
    sites = callers.get(fname, set())
    if depth > 3:
        return False
    if not sites:
        return depth > 0      # a caller that is itself never called is dead code; at depth 0 the caller of this function requires a call site
    for rel, scope in sites:
        if scope == "<module>" or scope == fname:
            continue
        if scope in allowed or scope.startswith("deprecated") or scope in ("defvjp", "defjvp", "defvjp_argnum", "defjvp_argnum", "def_linear", "register", "register_notrace"):
            continue
        if _registration_only(scope, callers, allowed, depth + 1):
            continue
        return False
    return True


def run_frame(rep, tier):
    nsite = 0
    trees = {}
    for rel in FILES:
        try:
            trees[rel] = ast.parse(open(os.path.join(REPO, rel)).read())
        except (OSError, SyntaxError):
            pass
    callers = _callers(trees)
    for rel in FILES:
        path = os.path.join(REPO, rel)
        if not os.path.exists(path):
            rep.obligation(f"E5a:{rel}:exists", False, "ast", 0, "E5")
            rep.violation("E5a:extract", rel, f"{rel} no longer exists", witness=False)
            continue
        src = open(path).read()
        rep.function(rel, path)
        sc = Scope(rel, ast.parse(src))
        sc.visit(sc.tree)
        for kind, q, line, text in sc.sites:
            nsite += 1
            ok = False
            why = ""
            if kind in ("store-global", "mutator-global", "setattr"):
                ok = q in ALLOWED_FUNCS or q.split(".")[-1] in ALLOWED_FUNCS or (q.split(".")[-1] == "register")
                why = "store into process-wide state outside a registration function"
            elif kind == "registration-call":
                ok = q.split(".")[0] in ALLOWED_REG_CALLERS or q in ALLOWED_REG_CALLERS or q.split(".")[0].startswith("deprecated")
                if not ok:   # a helper that is itself only ever called at registration time
                    top = q.split(".")[0]
                    uses = {sc for _, sc in callers.get("&" + top, set())} - {top}
                    called = {sc for _, sc in callers.get(top, set())}
                    ok = bool(called) and uses <= called and _registration_only(top, callers, ALLOWED_REG_CALLERS | ALLOWED_FUNCS)
                why = "a rule table is modified from inside a non-registration function"
            elif kind in ("attr", "aug", "next"):
                ok = (rel, q, kind) in AUDITED or q.split(".")[-1] in ("__init__", "initialize_root")
                why = "attribute store / counter draw outside the audited list"
            elif kind == "attr-param":
                ok = (rel, q, kind) in AUDITED or q.split(".")[0].startswith("deprecated")
                if not ok and (q, line) in sc.param_sites:
                    ok = _constructor_helper(trees, *sc.param_sites[(q, line)])
                why = ("attribute store on an object received as a parameter (not self): the object outlives the call, so later calls - with this or any other "
                       "caller - see state left by this one")
            elif kind == "foreign-global-state":
                ok = False
                why = "changes process-wide state of another library (error/warning/random state) without a restoring context manager: later calls see a different interpreter"
            elif kind == "closure-state":
                ok = (rel, q, "closure-state") in AUDITED or q.split(".")[0].startswith("deprecated")   # registration-time shims of the pre-1.2 API
                why = ("an inner function mutates an object held in a closure cell of its enclosing function: state shared by every call (and every thread) of the "
                       "returned function - results can depend on earlier or concurrent calls")
            elif kind == "memo-decorator":
                ok = (rel, q, kind) in AUDITED
                why = "a memoising decorator: results of earlier calls are kept in process-wide state and answer later calls"
            elif kind in ("global-stmt", "nonlocal-stmt"):
                ok = False
                why = "global/nonlocal statement (hidden mutable state)"
            name = f"E5a:{rel}:{q}:{kind}@{text[:40]}"
            rep.obligation(name, ok, "ast-abstract-interpretation", 0, "E5", sample=(f"{rel}:{line}: {text} in {q}: {kind}" if len(rep.samples) < 5 else None))
            if not ok:
                rep.violation("E5a:global-state-frame", f"{rel}:{q}:{kind}:{text[:50]}", f"{rel}:{line} in {q}: `{text}` - {why}", witness=False,
                              solver_output=f"{rel}:{line}: {text}")
    rep.extra["e5a_sites"] = nsite
    if nsite == 0:
        rep.error("E5a found no store site at all (vacuous scan)")


# ---------------------------------------------------------------------------------------------------------------------
RAW = {"onp", "_np", "npla", "ffto", "np_"}
PLAIN_FUNCS = {"isbox", "shape", "ndim", "metadata", "iscomplexobj", "result_type", "isscalar", "len", "range", "isinstance", "type", "vspace", "size", "argsort", "argmax", "argmin",
               "argpartition", "int", "float", "list", "tuple", "enumerate", "zip", "sorted", "set", "parse_einsum_input", "getattr", "hasattr", "str", "min", "max"}
PLAIN_ATTRS = {"shape", "ndim", "dtype", "size", "iscomplex"}
RULE_FILES = ["autograd/numpy/numpy_vjps.py", "autograd/numpy/numpy_jvps.py", "autograd/numpy/linalg.py", "autograd/numpy/fft.py"]
# raw-NumPy calls on possibly-boxed data that are audited as sound
AUDITED_RAW = {
    ("autograd/numpy/numpy_vjps.py", "grad_chooser.vjp", "onp.sum"): "argument is the result of a comparison (x == ...), which is a notrace primitive: a plain bool array at every order",
    ("autograd/numpy/numpy_vjps.py", "untake.mut_add", "onp.add.at"): "runs inside the body of the primitive `untake` (arguments already unboxed at that level); A is the accumulator handed in by add_outgrads",
}


class Taint(ast.NodeVisitor):
    """flow-insensitive MaybeBox analysis of one function/lambda nest"""

    def __init__(self):
        self.maybe = set()
        self.hits = []
        self.array_params = set()

    def test_depends(self, e):
        """does the truth value of this branch condition depend on the VALUE of a possibly traced quantity?  A comparison of a traced value yields a
        plain bool, so branching on it freezes one branch into the graph just like `if anp.any(g)` does."""
        if isinstance(e, ast.UnaryOp) and isinstance(e.op, ast.Not):
            return self.test_depends(e.operand)
        if isinstance(e, ast.BoolOp):
            if isinstance(e.op, ast.Or):
                guarded = set()
                for v in e.values:
                    if isinstance(v, ast.Call) and isinstance(v.func, ast.Name) and v.func.id == "isbox" and len(v.args) == 1 and isinstance(v.args[0], ast.Name):
                        guarded.add(v.args[0].id)
                        continue
                    names = {n.id for n in ast.walk(v) if isinstance(n, ast.Name) and n.id in self.maybe}
                    if names and names <= guarded:
                        continue
                    if self.test_depends(v):
                        return True
                return False
            return any(self.test_depends(v) for v in e.values)
        if isinstance(e, ast.Compare):
            if all(isinstance(o, (ast.Is, ast.IsNot)) for o in e.ops):
                return False          # identity tests (`x is None`) do not look at the value
            if all(isinstance(o, (ast.In, ast.NotIn)) for o in e.ops):
                return False          # membership of a key / name in a container is structure
            # only DIRECT uses of an array-valued rule parameter (primal argument, answer, cotangent, other operand) or wrapped calls on one; integers derived
            # from shapes / repeat counts are structure, not traced values (the flow-insensitive taint cannot tell them apart, the parameter lists can)
            direct = lambda x_: (isinstance(x_, ast.Name) and x_.id in self.array_params) or (isinstance(x_, ast.Call) and self.expr_maybe(x_) and any(
                isinstance(n_, ast.Name) and n_.id in self.array_params for n_ in ast.walk(x_)))
            return direct(e.left) or any(direct(c) for c in e.comparators)
        return self.expr_maybe(e)

    def expr_maybe(self, e):
        if isinstance(e, ast.Name):
            return e.id in self.maybe
        if isinstance(e, ast.Constant):
            return False
        if isinstance(e, ast.Attribute):
            if e.attr in PLAIN_ATTRS:
                return False
            return self.expr_maybe(e.value)
        if isinstance(e, ast.Compare):
            return False
        if isinstance(e, ast.Call):
            fn = e.func
            nm = fn.attr if isinstance(fn, ast.Attribute) else (fn.id if isinstance(fn, ast.Name) else "")
            root = fn
            while isinstance(root, ast.Attribute):
                root = root.value
            rootn = root.id if isinstance(root, ast.Name) else ""
            if nm in PLAIN_FUNCS or rootn in RAW:
                return False
            return any(self.expr_maybe(a) for a in e.args) or any(self.expr_maybe(k.value) for k in e.keywords) or (isinstance(fn, ast.Attribute) and self.expr_maybe(fn.value))
        if isinstance(e, ast.BoolOp):
            if isinstance(e.op, ast.Or):
                # `isbox(v) or <test on the value of v>`: the value test is only reached when v is NOT traced, so it cannot freeze a branch into a graph
                guarded = set()
                for v in e.values:
                    if isinstance(v, ast.Call) and isinstance(v.func, ast.Name) and v.func.id == "isbox" and len(v.args) == 1 and isinstance(v.args[0], ast.Name):
                        guarded.add(v.args[0].id)
                        continue
                    names = {n.id for n in ast.walk(v) if isinstance(n, ast.Name) and n.id in self.maybe}
                    if names and names <= guarded:
                        continue
                    if self.expr_maybe(v):
                        return True
                return False
            return any(self.expr_maybe(v) for v in e.values)
        if isinstance(e, (ast.BinOp,)):
            return self.expr_maybe(e.left) or self.expr_maybe(e.right)
        if isinstance(e, ast.UnaryOp):
            return self.expr_maybe(e.operand)
        if isinstance(e, ast.Subscript):
            return self.expr_maybe(e.value)
        if isinstance(e, (ast.Tuple, ast.List)):
            return any(self.expr_maybe(x) for x in e.elts)
        if isinstance(e, ast.IfExp):
            return self.expr_maybe(e.body) or self.expr_maybe(e.orelse)
        if isinstance(e, ast.Starred):
            return self.expr_maybe(e.value)
        if isinstance(e, (ast.ListComp, ast.GeneratorExp)):
            return self.expr_maybe(e.elt)
        return False


BRANCH_HITS = []


def analyse_rule_function(rel, qual, node, params, rep_hits):
    t = Taint()
    t.maybe |= set(params)
    STRUCT = {"argnum", "axis", "axes", "keepdims", "ddof", "n", "k", "offset", "axis1", "axis2", "ord", "norm", "shape", "dtype", "order", "num", "start", "mode", "width", "pad_width", "repeats", "reps",
              "kth", "kind", "idx", "idxs", "UPLO", "full_matrices", "compute_uv", "subscript", "broadcast_idx", "new_shape", "source", "destination", "shift", "decimals", "copy", "casting", "subok"}
    t.array_params |= {p_ for p_ in params if p_ not in STRUCT}
    changed = True
    assigns = [n for n in ast.walk(node) if isinstance(n, ast.Assign)]
    fors = [n for n in ast.walk(node) if isinstance(n, (ast.For, ast.comprehension))]
    inner_params = [n for n in ast.walk(node) if isinstance(n, (ast.Lambda, ast.FunctionDef)) and n is not node]
    for ip in inner_params:
        for a in ip.args.args:
            t.maybe.add(a.arg)  # g, G of the inner closures
            if a.arg not in STRUCT:
                t.array_params.add(a.arg)
    while changed:
        changed = False
        for a in assigns:
            if t.expr_maybe(a.value):
                for tg in a.targets:
                    for nm in ast.walk(tg):
                        if isinstance(nm, ast.Name) and nm.id not in t.maybe:
                            t.maybe.add(nm.id)
                            changed = True
        for f in fors:
            it = f.iter
            if t.expr_maybe(it):
                for nm in ast.walk(f.target):
                    if isinstance(nm, ast.Name) and nm.id not in t.maybe:
                        t.maybe.add(nm.id)
                        changed = True
    for c in ast.walk(node):
        # (d) control flow on the VALUE of a possibly-traced quantity (cotangent, primal argument, answer): the branch taken is frozen into the
        #     recorded graph, so every derivative of the rule is that of ONE branch (pruned terms vanish at all higher orders)
        if isinstance(c, (ast.If, ast.IfExp, ast.While, ast.Assert)) and t.test_depends(c.test):
            BRANCH_HITS.append((rel, qual, c.lineno, ast.unparse(c.test)[:90]))
    for c in ast.walk(node):
        if isinstance(c, ast.Call):
            root = c.func
            while isinstance(root, ast.Attribute):
                root = root.value
            if isinstance(root, ast.Name) and root.id in RAW:
                args = list(c.args) + [k.value for k in c.keywords]
                if any(t.expr_maybe(a) for a in args):
                    rep_hits.append((rel, qual, c.lineno, ast.unparse(c.func), ast.unparse(c)[:90]))


def run_trace(rep, tier):
    n_fun = 0
    del BRANCH_HITS[:]
    for rel in RULE_FILES:
        path = os.path.join(REPO, rel)
        tree = ast.parse(open(path).read())
        # raw-NumPy aliases of THIS module, from its own import statements (whatever they are called)
        for n_ in tree.body:
            if isinstance(n_, ast.Import):
                for a_ in n_.names:
                    if a_.name in ("numpy", "numpy.linalg", "numpy.fft", "numpy.random", "scipy", "scipy.linalg", "scipy.special"):
                        RAW.add(a_.asname or a_.name.split(".")[0])
            elif isinstance(n_, ast.ImportFrom) and (n_.module or "") in ("numpy", "scipy") and not n_.level:
                for a_ in n_.names:
                    if a_.name in ("linalg", "fft", "random", "special"):
                        RAW.add(a_.asname or a_.name)
        hits = []
        prim_helpers = []
        # rule functions: every top-level def and every lambda passed to defvjp/defjvp*, whose parameters may be boxes
        for n in tree.body:
            if isinstance(n, ast.FunctionDef) and any((isinstance(d, ast.Name) and d.id == "primitive") for d in n.decorator_list):
                prim_helpers.append(n.name)   # body runs on arguments unboxed at that level; needs its own rules (registry closure below)
                continue
            if isinstance(n, ast.FunctionDef):
                if n.name in ("unbroadcast", "unbroadcast_f", "unbroadcast_einsum", "match_complex", "balanced_eq", "replace_zero", "repeat_to_match_shape", "broadcast"):
                    params = [a.arg for a in n.args.args if a.arg in ("x", "g", "z", "y", "target")]
                elif n.name in ("get_fft_args", "get_fft2_args", "get_fftn_args", "check_no_repeated_axes", "check_even_shape", "make_rfft_factors", "wrapped_reshape", "untake", "truncate_pad",
                                "_matrix_diag", "_unpad"):
                    params = []
                else:
                    params = [a.arg for a in n.args.args if a.arg not in ("argnum", "axis", "axes", "keepdims", "ddof", "n", "k", "offset", "axis1", "axis2", "ord", "norm", "shape", "dtype",
                                                                            "get_args", "fft_fun", "irfft_fun", "rfft_fun", "kwargs", "UPLO", "full_matrices", "compute_uv", "start", "mode",
                                                                            "pad_width", "repeats", "reps", "kth", "kind", "order", "idxs", "new_shape", "An", "Bn", "A_ndim", "B_ndim",
                                                                            "A_meta", "B_meta", "axes_", "array_args", "array_kwargs", "operands_", "axis_args", "subscript", "target_meta",
                                                                            "broadcast_idx", "width", "vs", "idx")]
                analyse_rule_function(rel, n.name, n, params, hits)
                n_fun += 1
            elif isinstance(n, ast.Expr) and isinstance(n.value, ast.Call):
                call = n.value
                fn = call.func.id if isinstance(call.func, ast.Name) else ""
                if fn in ("defvjp", "defjvp", "defvjp_argnum", "defjvp_argnum"):
                    target = ast.unparse(call.args[0]) if call.args else "?"
                    for i, a in enumerate(call.args[1:]):
                        if isinstance(a, ast.Lambda):
                            params = [x.arg for x in a.args.args if x.arg not in ("axis", "axes", "keepdims", "shape", "order", "k", "offset", "axis1", "axis2", "num", "dtype", "argnum",
                                                                                  "casting", "subok", "copy", "shift", "idxs", "source", "destination", "new_shape", "idx", "_", "kwargs")]
                            if a.args.vararg:
                                pass
                            analyse_rule_function(rel, f"{fn}({target})[{i}]", a, params, hits)
                            n_fun += 1
        # (d) also for the operator / protocol methods of the box classes: `self` and the other operand may be traced at an enclosing level
        if rel == RULE_FILES[0]:
            for brel in ("autograd/numpy/numpy_boxes.py", "autograd/builtins.py"):
                bpath = os.path.join(REPO, brel)
                if not os.path.exists(bpath):
                    continue
                for cn in ast.parse(open(bpath).read()).body:
                    if isinstance(cn, ast.ClassDef) and cn.name.endswith("Box"):
                        for fn_ in cn.body:
                            if isinstance(fn_, ast.FunctionDef):
                                analyse_rule_function(brel, f"{cn.name}.{fn_.name}", fn_, [a.arg for a in fn_.args.args], [])
                                n_fun += 1
        # registry closure: every @primitive helper of a rule module has rules in BOTH tables (so rules calling it stay differentiable)
        src_txt = open(path).read()
        for h in prim_helpers:
            import re
            has_v = re.search(r"defvjp(_argnum)?\(\s*" + re.escape(h) + r"\b", src_txt) is not None
            jsrc = src_txt + open(os.path.join(REPO, "autograd/numpy/numpy_jvps.py")).read()
            has_j = re.search(r"(defjvp(_argnum)?|def_linear)\(\s*" + re.escape(h) + r"\b", jsrc) is not None
            vjp_only_ok = h in ("truncate_pad",)  # fft helpers: the fft family has no forward mode at all (raises, C15)
            ok = has_v and (has_j or vjp_only_ok)
            rep.obligation(f"E5c:{rel}:{h}:registry-closure", ok, "ast-abstract-interpretation", 0, "E5")
            if not ok:
                rep.violation("E5c:registry-closure", f"{rel}:{h}", f"@primitive helper {h} in {rel} lacks a {'VJP' if not has_v else 'JVP'} rule: rules that call it cannot be differentiated again", witness=False)
        for rel_, qual, line, fname, text in hits:
            tail = lambda f_: f_.split(".", 1)[1] if "." in f_ else f_     # audited sites are keyed by the NumPy function, not by the alias the module gives NumPy
            ok = any(r == rel_ and tail(f) == tail(fname) and (q == qual or qual.startswith(q.split(".")[0])) for (r, q, f) in AUDITED_RAW)
            name = f"E5c:{rel_}:{qual}:{fname}"
            rep.obligation(name, ok, "ast-abstract-interpretation", 0, "E5", sample=f"{rel_}:{line}: {text}")
            if not ok:
                rep.violation("E5c:traceability", f"{rel_}:{qual}:{fname}", f"{rel_}:{line} in {qual}: raw NumPy call `{text}` receives a value that is a Box at higher order - derivatives of this rule are wrong or crash",
                              witness=False, solver_output=f"{rel_}:{line}: {text}")
    for rel_, qual, line, text in BRANCH_HITS:
        ok = (rel_, qual, "branch") in AUDITED_RAW
        if not ok and rep.is_known("E5d:value-dependent-branch", f"{rel_}:{qual}:{text[:50]}"):
            # a recorded finding: reported as KNOWN-FINDING, counted neither as discharged nor as undischarged
            rep.violation("E5d:value-dependent-branch", f"{rel_}:{qual}:{text[:50]}", "known")
            continue
        rep.obligation(f"E5d:{rel_}:{qual}:branch@{text[:40]}", ok, "ast-abstract-interpretation", 0, "E5", sample=f"{rel_}:{line}: if {text}")
        if not ok:
            rep.violation("E5d:value-dependent-branch", f"{rel_}:{qual}:{text[:50]}", f"{rel_}:{line} in {qual}: the rule branches on the VALUE of a possibly traced quantity (`{text}`): "
                          "the branch taken at the evaluation point is frozen into the graph, so higher-order derivatives lose the terms of the other branch", witness=False, solver_output=f"{rel_}:{line}: {text}")
    rep.extra["e5d_value_dependent_branch_sites"] = len(BRANCH_HITS)
    rep.obligation("E5c:rule-functions-scanned", n_fun > 100, "ast-abstract-interpretation", 0, "E5", sample=f"{n_fun} rule functions/lambdas analysed")
    rep.extra["e5c_rule_functions"] = n_fun
