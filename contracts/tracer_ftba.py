"""Contract of autograd.tracer.find_top_boxed_args (DESIGN §4), discharged by E1b.

requires  every box trace id >= 0
ensures   FT1 top_trace = max({a._trace : isbox(a)} U {-1})
          FT2 top_boxes = exactly the (argnum, arg) with isbox(arg) and arg._trace = top_trace, increasing argnum,
              arg being the very object passed
          FT3 top_node_type = type(node of the first top box), None if there is none
          FT4 (relational, C19) for every strictly monotone relabelling phi of ids: same argnums, top' = phi(top)
Structure enumerated: arity 0..N, which positions are boxes.  Symbolic: all trace ids.
"""
import itertools

import z3

from vlib import concolic as cx
from vlib.common import CheckerError

FN = "autograd.tracer.find_top_boxed_args"


def _mk_args(n, boxes, ids):
    from autograd.numpy.numpy_boxes import ArrayBox

    args, nodes = [], []
    for i in range(n):
        if i in boxes:
            node = type(f"N{i}", (), {})()
            nodes.append(node)
            args.append(ArrayBox(1.0 + i, ids[i], node))
        else:
            nodes.append(None)
            args.append(2.5 + i)
    return tuple(args), nodes


def _observe(fn, args, nodes):
    top_boxes, top_trace, top_node_type = fn(args)
    if not isinstance(top_boxes, list):
        raise AssertionError("top_boxes is not a list")
    argnums = []
    for argnum, arg in top_boxes:
        if arg is not args[argnum]:
            raise AssertionError("top box is not the argument object at that position")
        argnums.append(argnum)
    nt = None
    for i, nd in enumerate(nodes):
        if nd is not None and top_node_type is type(nd):
            nt = i
    if top_node_type is not None and nt is None:
        nt = "foreign"
    return argnums, top_trace, nt


def spec_runtime(n, boxes, ids):
    """Run-time evaluation of the contract on concrete ids: expected (argnums, top_trace, node index)."""
    bs = sorted(boxes)
    top = max([ids[i] for i in bs] + [-1])
    sel = [i for i in bs if ids[i] == top]
    return sel, top, (sel[0] if sel else None)


def run(rep, tier, clauses=("FT1", "FT2", "FT3", "FT4")):
    import autograd.tracer as T

    fn = T.find_top_boxed_args
    rep.function(FN, fn)
    N = 4 if tier == "quick" else 5
    rep.bound(f"{FN}: arity 0..{N} and the set of boxed positions enumerated exhaustively; trace ids symbolic (all integers >= 0)")
    npaths = 0
    xcheck = 0
    for n in range(N + 1):
        for k in range(n + 1):
            for boxes in itertools.combinations(range(n), k):
                case = f"n{n}.b{''.join(map(str, boxes)) or '-'}"

                def harness(L, boxes=boxes, n=n):
                    ids = {i: L.int(f"t{i}") for i in boxes}
                    if L.model is None:
                        for i in boxes:
                            cx.assume(ids[i] >= 0)
                    args, nodes = _mk_args(n, boxes, ids)
                    obs = _observe(fn, args, nodes)
                    obs2 = None
                    if "FT4" in clauses and boxes:
                        ps = {i: L.int(f"p{i}") for i in boxes}
                        if L.model is None:
                            for i in boxes:
                                cx.assume(ps[i] >= 0)
                                for j in boxes:
                                    if i < j:
                                        cx.assume(cx.SBool(z3.And(
                                            z3.Implies(cx.term(ids[i]) < cx.term(ids[j]), cx.term(ps[i]) < cx.term(ps[j])),
                                            z3.Implies(cx.term(ids[i]) == cx.term(ids[j]), cx.term(ps[i]) == cx.term(ps[j])),
                                            z3.Implies(cx.term(ids[i]) > cx.term(ids[j]), cx.term(ps[i]) > cx.term(ps[j])))))
                        args2, nodes2 = _mk_args(n, boxes, ps)
                        obs2 = _observe(fn, args2, nodes2)
                    return ids, obs, (ps if obs2 else None), obs2

                results, _ = cx.explore(harness)
                for r in results:
                    npaths += 1
                    if r.exc is not None:
                        m = cx.path_model(r.pc)
                        idv = {i: int(m.eval(z3.Int(f"t{i}"), model_completion=True).as_long()) for i in boxes} if m else {}
                        rep.obligation(f"{FN}:{case}:no-exception", False, "z3", 0, "E1b")
                        rep.violation(f"{FN}:no-exception", case, f"raised {type(r.exc).__name__}: {r.exc} for ids {idv}",
                                      replay=dict(module="contracts.tracer_ftba", n=n, boxes=list(boxes), ids={str(a): b for a, b in idv.items()}))
                        continue
                    ids, (argnums, top, nt), ps, obs2 = r.value
                    goals = []
                    tt = cx.term(top)
                    if "FT1" in clauses:
                        g = z3.And([tt >= cx.term(ids[i]) for i in boxes] + [tt >= -1] +
                                   [z3.Or([tt == cx.term(ids[i]) for i in boxes] + [tt == -1])] +
                                   ([tt >= 0] if boxes else [tt == -1]))
                        goals.append(("FT1", g))
                    if "FT2" in clauses:
                        g = z3.And([z3.BoolVal(argnums == sorted(set(argnums))), z3.BoolVal(set(argnums) <= set(boxes))] +
                                   [(cx.term(ids[i]) == tt) if i in argnums else (cx.term(ids[i]) != tt) for i in boxes])
                        goals.append(("FT2", g))
                    if "FT3" in clauses:
                        goals.append(("FT3", z3.BoolVal(nt == (argnums[0] if argnums else None))))
                    if "FT4" in clauses and obs2 is not None:
                        a2, top2, nt2 = obs2
                        phi_top = z3.IntVal(-1)
                        for i in boxes:
                            phi_top = z3.If(cx.term(ids[i]) == tt, cx.term(ps[i]), phi_top)
                        goals.append(("FT4", z3.And(z3.BoolVal(a2 == argnums and nt2 == nt), cx.term(top2) == phi_top)))
                    for cl, g in goals:
                        verdict, m = cx.check_clause(rep, f"{FN}:{case}:{cl}", r.pc, g, tier,
                                                     sample=(f"pc={r.pc} |- {z3.simplify(g)}" if npaths % 97 == 1 else None))
                        if verdict != "proved":
                            if m is None:
                                m = cx.path_model(r.pc)
                            idv = {i: int(m.eval(z3.Int(f"t{i}"), model_completion=True).as_long()) for i in boxes} if m else {}
                            ok, obs, exp = replay(dict(n=n, boxes=list(boxes), ids={str(a): b for a, b in idv.items()}))
                            rep.violation(f"{FN}:{cl}", case,
                                          f"ids {idv}: real function returned {obs}, contract requires {exp}" + ("" if not ok else " (clause " + cl + ": relational/other)"),
                                          replay=dict(module="contracts.tracer_ftba", n=n, boxes=list(boxes), ids={str(a): b for a, b in idv.items()}),
                                          witness=not ok or cl == "FT4", solver_output=str(m))
                    # model concretisation cross-check (validates SInt / the forking driver)
                    if npaths % 7 == 0:
                        m = cx.path_model(r.pc)
                        if m is not None:
                            v, e = cx.run_concrete(harness, m)
                            xcheck += 1
                            if e is not None or (v[1][0], v[1][1], v[1][2]) != (argnums, cx.evalobs(top, m), nt):
                                raise CheckerError(f"concretisation mismatch in {case}: {v} vs {(argnums, top, nt)} {e}")
    rep.extra["ftba_paths"] = npaths
    rep.extra["ftba_model_concretisations"] = xcheck
    # must-fail canary: a deliberately wrong clause (top_trace is the MIN id) must be refuted
    def canary(L):
        ids = {0: L.int("t0"), 1: L.int("t1")}
        cx.assume(ids[0] >= 0); cx.assume(ids[1] >= 0)
        args, nodes = _mk_args(2, (0, 1), ids)
        return ids, _observe(fn, args, nodes)
    res, _ = cx.explore(canary)
    rejected = False
    for r in res:
        if r.exc is None:
            ids, (argnums, top, nt) = r.value
            from vlib.smt import prove
            v, _, _, _ = prove(r.pc, z3.And(cx.term(top) <= cx.term(ids[0]), cx.term(top) <= cx.term(ids[1])))
            rejected = rejected or v == "refuted"
    rep.canary(f"{FN}:canary-min-instead-of-max", rejected)


def replay(spec):
    """Runs the unmodified function natively on the concrete case; returns (ok, observed, expected)."""
    import autograd.tracer as T

    n, boxes = spec["n"], tuple(spec["boxes"])
    ids = {int(k): int(v) for k, v in spec["ids"].items()}
    for i in boxes:
        ids.setdefault(i, 0)
    args, nodes = _mk_args(n, boxes, ids)
    try:
        obs = _observe(T.find_top_boxed_args, args, nodes)
    except Exception as e:
        return False, f"raised {type(e).__name__}: {e}", spec_runtime(n, boxes, ids)
    exp = spec_runtime(n, boxes, ids)
    return (list(obs[0]), obs[1], obs[2]) == (exp[0], exp[1], exp[2]), obs, exp


def run_unbounded(rep, tier):
    """E1a: VCs from the real AST of find_top_boxed_args with the loop invariant of contracts/inv_ftba.py - FT1-FT3 for EVERY arity."""
    import z3

    import autograd.tracer as T
    from vlib import pyvc
    from vlib.smt import check_sat

    from . import inv_ftba as SP
    name = FN + "[any arity]"
    rep.assume("E1a encoding for find_top_boxed_args: args as a sequence (array, N); isbox / ._trace / type(._node) as uninterpreted functions of the element; the list of (argnum, arg) pairs "
               "represented by its argnums (each extension statement is checked to append the current (index, element) pair)")
    try:
        gen = pyvc.VCGen(T.find_top_boxed_args, SP)
        obl = gen.run()
        if gen.loop_n != SP.EXPECT["loops"]:
            raise pyvc.ExtractError(f"{gen.loop_n} loops")
    except (pyvc.ExtractError, KeyError, AttributeError, TypeError, z3.Z3Exception) as e:
        rep.obligation(f"{name}:extract", False, "-", 0, "E1a")
        rep.note(f"{name}: not extractable ({e}); the E1b contract (arity <= {4 if tier == 'quick' else 5}) decides the function on this tree")
        return
    failed = []
    for oname, hyps, goal in obl:
        st, m, backend, secs = check_sat(hyps + [z3.Not(goal)], 15000, want_model=False, both=(tier == "thorough"))
        ok = st == "unsat"
        rep.obligation(f"{name}:{oname}", ok, backend, secs, "E1a", trivial=z3.is_true(z3.simplify(goal)), sample=(f"{oname}" if len(rep.samples) < 2 else None))
        if not ok:
            failed.append(oname)
    if failed:
        # witness search = the E1b contract on the same tree (exhaustive structure up to the arity bound, symbolic ids)
        before = len(rep.violations)
        run(rep, tier, clauses=("FT1", "FT2", "FT3"))
        if len(rep.violations) == before:
            rep.violation(f"{name}:{failed[0].split(':')[0]}", failed[0], f"obligation {failed[0]} no longer discharges and the arity-bounded contract found no failing input", witness=False,
                          solver_output=str(failed[:4]))
