"""Contracts of the rule-registration layer of autograd.core (DESIGN §4): defvjp, defvjp_argnum, defvjp_argnums,
translate_vjp, defjvp, defjvp_argnum, def_linear, translate_jvp, VJPNode.__init__, JVPNode.__init__.

The REAL functions are executed; rule makers, answers, arguments, keyword arguments and (co)tangents are Opaque (the code
cannot inspect them, so one run decides the clause for all values - parametricity, enforced by Opaque raising on any
inspection).  The structure the property C17 quantifies over is enumerated exhaustively: number of registered rules 1..5,
None entries, argnums=, every non-empty increasing subset of differentiated positions, every registration API.

defvjp(fun, *makers, argnums=A):   V = primitive_vjps[fun];  for every request `argnums`:
   DV-covered   if every requested a has a rule:  tuple(V(argnums, ans, args, kwargs)(g)) == tuple(T(maker_a)(ans,*args,**kwargs)(g))
                in request order, on the L==1, L==2 and generic paths alike
   DV-eager     each T(maker_a)(ans,*args,**kwargs) is evaluated exactly once, when V is applied (forward pass), with the
                very ans/args objects and equal kwargs
   DV-reusable  the returned function may be applied again (another g): same rule closures, fresh result (C10, jacobian)
   DV-none      T(None) gives vspace(args[a]).zeros()   (zero of THAT argument's space)
   DV-missing   a requested a without a rule raises (NotImplementedError for L<=2, KeyError otherwise)
   DV-frame     no other entry of primitive_vjps changes; primitive_jvps untouched
   DV-bad       a maker that is neither None nor callable raises at registration
defjvp / defjvp_argnum / def_linear:  J(argnums, gs, ans, args, kwargs) == fold of add_outgrads over
   jvp_a(g_a, ans, *args, **kwargs) in request order; 'same' -> fun(*subval(args, a, g_a), **kwargs); None -> vspace(ans).zeros()
VJPNode/JVPNode.__init__:  NotImplementedError iff fun has no entry; else parents stored / parent tangents read in order and
   the table entry is applied to (parent_argnums, [parent_gs,] value, args, kwargs) exactly once
"""
import itertools

from vlib.common import CheckerError
from vlib.stubs import Opaque, ovs

FN = "autograd.core"


def subsets(n):
    for k in range(1, n + 1):
        for s in itertools.combinations(range(n), k):
            yield s


class Maker:
    """A user VJP/JVP rule stub that logs its invocations."""

    def __init__(self, a, log):
        self.a, self.log = a, log

    def __call__(self, *args, **kwargs):
        self.log.append(("maker", self.a, args, kwargs))
        a = self.a
        n = len([e for e in self.log if e[0] == "maker" and e[1] == a])

        def inner(g):
            self.log.append(("apply", a, g))
            return Opaque(("vjp", a, n, g.term))

        return inner


def _snap(d):
    return dict(d)


def check_defvjp(C, rep, tier, out):
    OVS = ovs()
    N = 5 if tier != "quick" else 4
    forms = []
    for m in range(1, N + 1):
        for nones in itertools.product((False, True), repeat=m):
            if tier == "quick" and m >= 4 and sum(nones) > 1:
                continue
            forms.append((m, nones, None))
    forms.append((2, (False, False), (2, 0)))   # argnums= keyword, non-contiguous, out of order
    forms.append((2, (False, True), (1, 3)))
    forms.append((3, (False, False, False), (4, 1, 0)))
    forms.append((2, (True, False), (1, 2)))     # None belongs to ARGUMENT 1, the rule to argument 2
    forms.append((1, (True,), (2,)))
    forms.append((1, (False,), (3,)))
    forms.append((3, (True, False, True), (3, 0, 2)))
    for m, nones, argnums_kw in forms:
        log = []
        fun = type("Prim", (), {"__name__": "prim", "__call__": lambda s, *a, **k: None})()
        positions = list(argnums_kw) if argnums_kw else list(range(m))
        makers = [None if nones[j] else Maker(positions[j], log) for j in range(m)]
        before_v, before_j = _snap(C.primitive_vjps), _snap(C.primitive_jvps)
        try:
            if argnums_kw:
                C.defvjp(fun, *makers, argnums=argnums_kw)
            else:
                C.defvjp(fun, *makers)
            V = C.primitive_vjps.get(fun)
            frame_ok = (V is not None and {k: v for k, v in C.primitive_vjps.items() if k is not fun} == before_v
                        and C.primitive_jvps == before_j)
            form = f"m{m}.{''.join('N' if x else 'R' for x in nones)}.{'kw' + ''.join(map(str, argnums_kw)) if argnums_kw else 'pos'}"
            out(f"{FN}.defvjp:{form}:DV-frame", frame_ok, f"registration form {form}")
            if V is None:
                continue
            have = dict(zip(positions, makers))
            nargs = max(positions) + 2  # one position beyond the registered ones: a missing rule
            for req in subsets(nargs):
                if tier == "quick" and len(req) > 3 and nargs > 4:
                    continue
                del log[:]
                ans = Opaque(("ans",))
                args = tuple(Opaque(("arg", i)) for i in range(nargs))
                kwargs = {"k1": Opaque(("k1",)), "k2": Opaque(("k2",))}
                case = f"{form}.req{''.join(map(str, req))}"
                covered = all(a in have for a in req)
                try:
                    vj = V(req, ans, args, dict(kwargs))
                    raised = None
                except (NotImplementedError, KeyError) as e:
                    raised = e
                if not covered:
                    out(f"{FN}.defvjp:{case}:DV-missing", raised is not None, case)
                    continue
                if raised is not None:
                    out(f"{FN}.defvjp:{case}:DV-covered", False, f"{case}: raised {type(raised).__name__}")
                    continue
                calls = [e for e in log if e[0] == "maker"]
                exp_calls = [a for a in req if have[a] is not None]
                eager = ([e[1] for e in calls] == exp_calls and not [e for e in log if e[0] == "apply"]
                         and all(e[2][0] is ans and len(e[2]) == 1 + nargs and all(x is y for x, y in zip(e[2][1:], args))
                                 and e[3] == kwargs for e in calls))
                out(f"{FN}.defvjp:{case}:DV-eager", eager, case)
                g1, g2 = Opaque(("g", 1)), Opaque(("g", 2))
                r1 = tuple(vj(g1))
                r2 = tuple(vj(g2))
                def expect(g):
                    return tuple(("vjp", a, 1, g.term) if have[a] is not None else ("zeros", ("arg", a)) for a in req)
                t1 = tuple(getattr(x, "term", None) for x in r1)
                t2 = tuple(getattr(x, "term", None) for x in r2)
                out(f"{FN}.defvjp:{case}:DV-covered", t1 == expect(g1), f"{case}: got {t1} expected {expect(g1)}")
                out(f"{FN}.defvjp:{case}:DV-reusable", t2 == expect(g2) and len([e for e in log if e[0] == "maker"]) == len(exp_calls),
                    f"{case}: second application got {t2} expected {expect(g2)}")
                if any(have[a] is None for a in req):
                    zs = [x for x, a in zip(r1, req) if have[a] is None] + [x for x, a in zip(r2, req) if have[a] is None]
                    out(f"{FN}.defvjp:{case}:DV-none", all(isinstance(z, Opaque) and z.owned is True for z in zs)
                        and len({id(z) for z in zs}) == len(zs), f"{case}: zero of the argument's own space, fresh per call")
        finally:
            C.primitive_vjps.pop(fun, None)
    # bad maker
    fun = type("Prim", (), {"__name__": "prim"})()
    try:
        C.defvjp(fun, 42)
        bad = False
    except Exception:
        bad = True
    finally:
        C.primitive_vjps.pop(fun, None)
    out(f"{FN}.defvjp:bad-maker:DV-bad", bad, "defvjp(fun, 42) must raise")


def check_defvjp_argnum(C, rep, tier, out):
    for nargs in range(1, 6):
        for req in subsets(nargs):
            fun = type("Prim", (), {"__name__": "prim"})()
            log = []

            def maker(argnum, ans, args, kwargs):
                log.append((argnum, ans, args, kwargs))
                return lambda g: Opaque(("vjp", argnum, g.term))

            try:
                C.defvjp_argnum(fun, maker)
                V = C.primitive_vjps[fun]
                ans, args, kwargs = Opaque(("ans",)), tuple(Opaque(("arg", i)) for i in range(nargs)), {"k": Opaque(("k",))}
                vj = V(req, ans, args, kwargs)
                eager = [l[0] for l in log] == list(req) and all(l[1] is ans and l[2] is args and l[3] is kwargs for l in log)
                g = Opaque(("g",))
                r1 = tuple(x.term for x in vj(g))
                r2 = tuple(x.term for x in vj(g))
                exp = tuple(("vjp", a, ("g",)) for a in req)
                case = f"n{nargs}.req{''.join(map(str, req))}"
                out(f"{FN}.defvjp_argnum:{case}:DVA-eager", eager, case)
                out(f"{FN}.defvjp_argnum:{case}:DVA-routing", r1 == exp and r2 == exp, f"{case}: {r1} vs {exp}")
            finally:
                C.primitive_vjps.pop(fun, None)
    # defvjp_argnums: the maker is stored as is
    fun = type("Prim", (), {"__name__": "prim"})()
    mk = object()
    try:
        C.defvjp_argnums(fun, mk)
        out(f"{FN}.defvjp_argnums:stored:DVS", C.primitive_vjps[fun] is mk, "stored object is the maker itself")
    finally:
        C.primitive_vjps.pop(fun, None)


def _fold_terms(ts):
    """Spec of sum_outgrads over dense opaque values: left fold of vspace addition in order."""
    acc = ts[0]
    for t in ts[1:]:
        acc = ("+", acc, t)
    return acc


def check_defjvp(C, rep, tier, out):
    ovs()
    N = 4 if tier == "quick" else 5
    for api in ("defjvp", "defjvp_argnum", "def_linear"):
        for m in range(1, N + 1):
            kinds_list = list(itertools.product("RSN", repeat=m)) if api == "defjvp" else [("R",) * m]
            for kinds in kinds_list:
                if tier == "quick" and m >= 4 and len(set(kinds)) > 2:
                    continue
                log = []

                class Prim:
                    __name__ = "prim"

                    def __call__(self, *a, **k):
                        log.append(("prim", a, k))
                        return Opaque(("prim", tuple(x.term for x in a), tuple(sorted((kk, v.term) for kk, v in k.items()))))

                fun = Prim()

                def rule(a):
                    def r(g, ans, *args, **kwargs):
                        log.append(("rule", a, g, ans, args, kwargs))
                        return Opaque(("jvp", a, g.term))
                    return r

                try:
                    if api == "defjvp":
                        C.defjvp(fun, *[{"R": rule(j), "S": "same", "N": None}[k] for j, k in enumerate(kinds)])
                    elif api == "defjvp_argnum":
                        C.defjvp_argnum(fun, lambda argnum, g, ans, args, kwargs: (log.append(("rule", argnum, g, ans, args, kwargs)), Opaque(("jvp", argnum, g.term)))[1])
                    else:
                        C.def_linear(fun)
                        kinds = ("S",) * m
                    J = C.primitive_jvps[fun]
                    for req in subsets(m):
                        del log[:]
                        ans = Opaque(("ans",))
                        args = tuple(Opaque(("arg", i)) for i in range(m))
                        kwargs = {"k": Opaque(("k",))}
                        gs = [Opaque(("g", a)) for a in req]
                        res = J(req, gs, ans, args, kwargs)
                        exp = []
                        for a in req:
                            k = kinds[a]
                            if k == "R":
                                exp.append(("jvp", a, ("g", a)))
                            elif k == "S":
                                exp.append(("prim", tuple(("g", a) if i == a else ("arg", i) for i in range(m)), (("k", ("k",)),)))
                            else:
                                exp.append(("zeros", ("ans",)))
                        case = f"{api}.m{m}.{''.join(kinds)}.req{''.join(map(str, req))}"
                        out(f"{FN}.{api}:{case}:DJ-fold", isinstance(res, Opaque) and res.term == _fold_terms(exp),
                            f"{case}: got {getattr(res, 'term', res)} expected {_fold_terms(exp)}")
                        rules = [e for e in log if e[0] == "rule"]
                        okr = all(e[3] is ans for e in rules) and [e[1] for e in rules] == [a for a in req if kinds[a] == "R"]
                        out(f"{FN}.{api}:{case}:DJ-rule-args", okr, case)
                    if api == "defjvp":
                        # DJ-missing: a requested position without a registered rule must raise, also next to positions that have one
                        for req in [(m,)] + [(a, m) for a in range(m)] + [(0, m, m + 1)]:
                            args = tuple(Opaque(("arg", i)) for i in range(m + 2))
                            try:
                                J(req, [Opaque(("g", a)) for a in req], Opaque(("ans",)), args, {"k": Opaque(("k",))})
                                raised = False
                            except Exception:
                                raised = True
                            out(f"{FN}.defjvp:{api}.m{m}.{''.join(kinds)}.req{''.join(map(str, req))}:DJ-missing", raised, f"request {req} with only {m} rules registered must raise")
                finally:
                    C.primitive_jvps.pop(fun, None)
    # defjvp(fun, *rules, argnums=A): rule j (callable / 'same' / None) belongs to ARGUMENT A[j], not to argument j
    for argnums_kw in ((1,), (2,), (1, 2), (2, 0), (0, 2), (3, 1)):
        mm = len(argnums_kw)
        nargs = max(argnums_kw) + 1
        for kinds in itertools.product("RSN", repeat=mm):
            log = []

            class Prim2:
                __name__ = "prim"

                def __call__(self, *a, **k):
                    log.append(("prim", a, k))
                    return Opaque(("prim", tuple(x.term for x in a), tuple(sorted((kk, v.term) for kk, v in k.items()))))
            fun = Prim2()

            def rule2(a):
                def r(g, ans, *args, **kwargs):
                    log.append(("rule", a, g, ans, args, kwargs))
                    return Opaque(("jvp", a, g.term))
                return r
            try:
                C.defjvp(fun, *[{"R": rule2(a), "S": "same", "N": None}[k] for a, k in zip(argnums_kw, kinds)], argnums=argnums_kw)
                J = C.primitive_jvps[fun]
                kind_of_arg = dict(zip(argnums_kw, kinds))
                reg = sorted(argnums_kw)
                for r_ in range(1, len(reg) + 1):
                    for req in itertools.combinations(reg, r_):
                        del log[:]
                        ans = Opaque(("ans",))
                        args = tuple(Opaque(("arg", i)) for i in range(nargs))
                        res = J(req, [Opaque(("g", a)) for a in req], ans, args, {"k": Opaque(("k",))})
                        exp = []
                        for a in req:
                            k = kind_of_arg[a]
                            exp.append(("jvp", a, ("g", a)) if k == "R" else ("zeros", ("ans",)) if k == "N" else
                                       ("prim", tuple(("g", a) if i == a else ("arg", i) for i in range(nargs)), (("k", ("k",)),)))
                        case = f"defjvp.kw{''.join(map(str, argnums_kw))}.{''.join(kinds)}.req{''.join(map(str, req))}"
                        out(f"{FN}.defjvp:{case}:DJ-fold", isinstance(res, Opaque) and res.term == _fold_terms(exp), f"{case}: got {getattr(res, 'term', res)} expected {_fold_terms(exp)}")
                unreg = [a for a in range(nargs + 1) if a not in argnums_kw][0]
                try:
                    J((unreg,), [Opaque(("g", unreg))], Opaque(("ans",)), tuple(Opaque(("arg", i)) for i in range(nargs + 1)), {})
                    raised = False
                except Exception:
                    raised = True
                out(f"{FN}.defjvp:defjvp.kw{''.join(map(str, argnums_kw))}.{''.join(kinds)}.req{unreg}:DJ-missing", raised, f"argument {unreg} has no rule (argnums={argnums_kw}): must raise")
            finally:
                C.primitive_jvps.pop(fun, None)
    fun = type("Prim", (), {"__name__": "prim"})()
    try:
        C.defjvp(fun, 42)
        bad = False
    except Exception:
        bad = True
    finally:
        C.primitive_jvps.pop(fun, None)
    out(f"{FN}.defjvp:bad-rule:DJ-bad", bad, "defjvp(fun, 42) must raise")


def check_nodes(C, rep, tier, out):
    for nparents in range(0, 4):
        fun = type("Prim", (), {"__name__": "prim"})()
        value, args, kwargs = Opaque(("v",)), (Opaque(("a", 0)),), {"k": 1}
        argnums = tuple(range(nparents))
        # --- VJPNode
        parents = tuple(object() for _ in range(nparents))
        try:
            C.VJPNode(value, fun, args, kwargs, argnums, parents)
            ok = False
        except NotImplementedError:
            ok = True
        except Exception:
            ok = False
        out(f"{FN}.VJPNode.__init__:p{nparents}:VN-missing-raises", ok, "no entry => NotImplementedError")
        log = []
        sentinel = object()
        C.primitive_vjps[fun] = lambda *a: (log.append(a), sentinel)[1]
        try:
            node = C.VJPNode(value, fun, args, kwargs, argnums, parents)
            ok = (node.parents is parents and node.vjp is sentinel and len(log) == 1 and log[0][0] is argnums
                  and log[0][1] is value and log[0][2] is args and log[0][3] is kwargs)
        finally:
            C.primitive_vjps.pop(fun, None)
        out(f"{FN}.VJPNode.__init__:p{nparents}:VN-fields", ok, "parents stored; table entry applied once to (argnums, value, args, kwargs)")
        # history independence of the lookup: the rule is the table's CURRENT entry, whatever earlier constructions saw (C19)
        s1, s2 = object(), object()
        try:
            C.primitive_vjps[fun] = lambda *a: s1
            n1 = C.VJPNode(value, fun, args, kwargs, argnums, parents)
            C.primitive_vjps[fun] = lambda *a: s2
            n2 = C.VJPNode(value, fun, args, kwargs, argnums, parents)
            C.primitive_vjps.pop(fun, None)
            try:
                C.VJPNode(value, fun, args, kwargs, argnums, parents)
                gone = False
            except NotImplementedError:
                gone = True
            ok = n1.vjp is s1 and n2.vjp is s2 and gone
        except Exception:
            ok = False
        finally:
            C.primitive_vjps.pop(fun, None)
        out(f"{FN}.VJPNode.__init__:p{nparents}:VN-fresh-lookup", ok, "each construction reads the table's current entry (re-registration / removal between two constructions is seen)")
        # --- JVPNode
        ps = tuple(C.JVPNode.new_root(Opaque(("pg", i))) for i in range(nparents))
        try:
            C.JVPNode(value, fun, args, kwargs, argnums, ps)
            ok = False
        except NotImplementedError:
            ok = True
        except Exception:
            ok = False
        out(f"{FN}.JVPNode.__init__:p{nparents}:JN-missing-raises", ok, "no entry => NotImplementedError")
        log = []
        C.primitive_jvps[fun] = lambda *a: (log.append(a), sentinel)[1]
        try:
            node = C.JVPNode(value, fun, args, kwargs, argnums, ps)
            ok = (node.g is sentinel and len(log) == 1 and log[0][0] is argnums
                  and [g.term for g in log[0][1]] == [("pg", i) for i in range(nparents)]
                  and log[0][2] is value and log[0][3] is args and log[0][4] is kwargs)
        finally:
            C.primitive_jvps.pop(fun, None)
        out(f"{FN}.JVPNode.__init__:p{nparents}:JN-fields", ok, "parent tangents read in order; table entry applied once")
        try:
            C.primitive_jvps[fun] = lambda *a: s1
            n1 = C.JVPNode(value, fun, args, kwargs, argnums, ps)
            C.primitive_jvps[fun] = lambda *a: s2
            n2 = C.JVPNode(value, fun, args, kwargs, argnums, ps)
            C.primitive_jvps.pop(fun, None)
            try:
                C.JVPNode(value, fun, args, kwargs, argnums, ps)
                gone = False
            except NotImplementedError:
                gone = True
            ok = n1.g is s1 and n2.g is s2 and gone
        except Exception:
            ok = False
        finally:
            C.primitive_jvps.pop(fun, None)
        out(f"{FN}.JVPNode.__init__:p{nparents}:JN-fresh-lookup", ok, "each construction reads the table's current entry")
    r = C.VJPNode.new_root()
    out(f"{FN}.VJPNode.initialize_root:VN-root", r.parents == [] and tuple(r.vjp(Opaque(("g",)))) == (), "root has no parents, empty vjp")
    g = Opaque(("g",))
    out(f"{FN}.JVPNode.initialize_root:JN-root", C.JVPNode.new_root(g).g is g, "root tangent is the seed")


def run(rep, tier, parts=("defvjp", "defvjp_argnum", "defjvp", "nodes")):
    import autograd.core as C

    for q in ("defvjp", "defvjp_argnum", "defvjp_argnums", "translate_vjp", "defjvp", "defjvp_argnum", "def_linear",
              "translate_jvp", "VJPNode", "JVPNode", "sum_outgrads", "add_outgrads"):
        rep.function(f"autograd.core.{q}", getattr(C, q, None))
    rep.bound("autograd.core rule registration: 1..5 rules (4 in quick), None/'same'/callable entries, argnums= forms, every non-empty "
              "subset of requested positions incl. one unregistered position - enumerated exhaustively; all values opaque")

    def out(name, ok, detail):
        rep.obligation(name, ok, "symexec(ground)", 0.0, "E1b", sample=(detail if len(rep.samples) < 4 else None))
        if not ok:
            parts_ = name.split(":")
            spec = dict(module="contracts.core_rules", obligation=name, tier=tier)
            rep.violation(":".join([parts_[0], parts_[-1]]), ":".join(parts_[1:-1]), str(detail), replay=spec, witness=True)

    try:
        if "defvjp" in parts:
            check_defvjp(C, rep, tier, out)
        if "defvjp_argnum" in parts:
            check_defvjp_argnum(C, rep, tier, out)
        if "defjvp" in parts:
            check_defjvp(C, rep, tier, out)
        if "nodes" in parts:
            check_nodes(C, rep, tier, out)
    except CheckerError as e:
        rep.obligation(f"{FN}:abstraction", False, "-", 0, "E1b")
        rep.violation(f"{FN}:abstraction", "opaque-values", f"execution left the opaque-value abstraction: {e}", witness=False, solver_output=str(e))


def replay(spec):
    """Re-runs the ground obligation natively (the cases are concrete structures; values are opaque tokens)."""
    import autograd.core as C

    res = {}

    class R:
        samples = []

    def out(name, ok, detail):
        if name == spec["obligation"]:
            res[name] = (ok, detail)

    for f in (check_defvjp, check_defvjp_argnum, check_defjvp, check_nodes):
        try:
            f(C, R, spec.get("tier", "quick"), out)
        except Exception as e:
            return False, f"raised {type(e).__name__}: {e}", spec["obligation"]
    ok, detail = res.get(spec["obligation"], (True, "obligation not generated any more"))
    return ok, detail, "clause " + spec["obligation"].split(":")[-1] + " of contracts/core_rules.py"
