"""Sidecar contract of autograd.tracer.find_top_boxed_args for ARBITRARY arity (E1a; the E1b contract covers arity <= 5 with concrete structure).

Model: args is a sequence (ARGS, N) of objects; isbox(o), tr(o) = o._trace, nty(o) = type(o._node) are uninterpreted functions (requires: tr >= 0 on boxes).
The list of (argnum, arg) pairs is represented by the sequence of its argnums TB (the arg component is ARGS[argnum] by construction of every
statement that extends it - checked when the statement is translated).
ensures   FT1 top_trace = max({tr(a) : a in args, isbox(a)} U {-1})
          FT2 top_boxes = exactly the positions k with isbox(args[k]) and tr(args[k]) = top_trace, in increasing order
          FT3 top_node_type = nty of the first of them (NONE if there is none)
Statement forms specific to this function are matched on the AST in custom_stmt (no name is used: roles are assigned by shape).
"""
import ast

import z3

I, B = z3.IntSort(), z3.BoolSort()
Obj = z3.DeclareSort("Obj")
NTy = z3.DeclareSort("NodeType")
isbox = z3.Function("isbox", Obj, B)
tr = z3.Function("tr", Obj, I)
nty = z3.Function("nty", Obj, NTy)
NONE = z3.Const("NoneType", NTy)
ARGS = z3.Array("ARGS", I, Obj)
N = z3.Int("N")
k, j, q = z3.Ints("k j q")
o = z3.Const("o", Obj)

FUNCTION = "autograd.tracer.find_top_boxed_args"
PARENTS_FUN = set()
ELEM_KIND = "obj"
DICT_SORTS = {"*": (Obj, I)}
DICT_VAL = {}
EXPECT = dict(loops=1)
AXIOMS = [N >= 0, z3.ForAll([o], z3.Implies(isbox(o), tr(o) >= 0))]
HOOKS = {}


def init(gen, st, tree):
    from vlib.pyvc import ExtractError
    args = [a.arg for a in tree.args.args]
    if len(args) != 1:
        raise ExtractError(f"signature changed: {args}")
    st.v[args[0]] = ("argseq", None)
    gen.roles["ARGS"] = args[0]
    g = st.g
    g["OUT"], g["OUTLEN"] = z3.Array("OUT0", I, Obj), z3.IntVal(0)
    g["i"] = z3.IntVal(0)
    g["pos"] = z3.Array("pos0", I, I)     # witness: position in TB of every selected argnum


def _int_assign(gen, st, s):
    """`x = -1` / `x = None` / `x = []` initialisers before the loop, by shape"""
    if not (isinstance(s, ast.Assign) and len(s.targets) == 1 and isinstance(s.targets[0], ast.Name)):
        return None
    name, v = s.targets[0].id, s.value
    if isinstance(v, ast.UnaryOp) and isinstance(v.op, ast.USub) and isinstance(v.operand, ast.Constant) and v.operand.value == 1:
        st.v[name] = ("int", z3.IntVal(-1))
        gen.roles.setdefault("TOP", name)
        return [st]
    if isinstance(v, ast.Constant) and v.value is None:
        st.v[name] = ("nty", NONE)
        gen.roles.setdefault("NTYPE", name)
        return [st]
    if isinstance(v, ast.List) and not v.elts:
        st.v[name] = ("list", z3.Array(name + "_tb0", I, I), z3.IntVal(0))
        gen.roles.setdefault("TB", name)
        return [st]
    return None


def custom_stmt(gen, st, s):
    from vlib.pyvc import ExtractError
    r = _int_assign(gen, st, s)
    if r is not None:
        return r
    it = gen.roles.get("IT1")
    if isinstance(s, ast.Assign) and len(s.targets) == 1 and isinstance(s.targets[0], ast.Name):
        name, v = s.targets[0].id, s.value
        if isinstance(v, ast.Attribute) and v.attr == "_trace" and isinstance(v.value, ast.Name) and st.v.get(v.value.id, ("",))[0] == "obj":
            st.v[name] = ("int", tr(st.v[v.value.id][1]))
            return [st]
        if isinstance(v, ast.Name) and st.v.get(v.id, ("",))[0] == "int":
            st.v[name] = st.v[v.id]
            return [st]
        # top_boxes = [(argnum, arg)]   - a NEW one-element list holding the current (index, element) pair
        if isinstance(v, ast.List) and len(v.elts) == 1 and _is_cur_pair(gen, st, v.elts[0]) and name == gen.roles.get("TB"):
            st.v[name] = ("list", z3.Store(gen.fresh("tb", z3.ArraySort(I, I)), 0, st.g["i"]), z3.IntVal(1))
            st.g["pos"] = z3.Store(st.g["pos"], st.g["i"], 0)
            st.trace.append("reset-list")
            return [st]
        # top_node_type = type(arg._node)
        if isinstance(v, ast.Call) and isinstance(v.func, ast.Name) and v.func.id == "type" and len(v.args) == 1 and isinstance(v.args[0], ast.Attribute) and v.args[0].attr == "_node" \
                and isinstance(v.args[0].value, ast.Name) and st.v.get(v.args[0].value.id, ("",))[0] == "obj":
            st.v[name] = ("nty", nty(st.v[v.args[0].value.id][1]))
            return [st]
    # top_boxes.append((argnum, arg))
    if isinstance(s, ast.Expr) and isinstance(s.value, ast.Call) and isinstance(s.value.func, ast.Attribute) and s.value.func.attr == "append" \
            and isinstance(s.value.func.value, ast.Name) and s.value.func.value.id == gen.roles.get("TB") and len(s.value.args) == 1:
        if not _is_cur_pair(gen, st, s.value.args[0]):
            raise ExtractError("appended element is not the current (argnum, arg) pair")
        _, arr, ln = st.v[gen.roles["TB"]]
        st.v[gen.roles["TB"]] = ("list", z3.Store(arr, ln, st.g["i"]), ln + 1)
        st.g["pos"] = z3.Store(st.g["pos"], st.g["i"], ln)
        st.trace.append("append")
        return [st]
    return None


def custom_cond(gen, st, e):
    """isbox(<object>) as an atom of any condition (`if isbox(a):`, `if not isbox(a): continue`, `isbox(a) and ...`)"""
    if isinstance(e, ast.Call) and isinstance(e.func, ast.Name) and e.func.id == "isbox" and len(e.args) == 1:
        ob = gen.expr(e.args[0], st)
        return isbox(ob[1])
    return None


def _is_cur_pair(gen, st, e):
    it = gen.roles.get("IT1")
    return isinstance(e, ast.Tuple) and len(e.elts) == 2 and it and [getattr(x, "id", None) for x in e.elts] == it


def for_init(gen, st, lid, s):
    from vlib.pyvc import ExtractError
    itx = s.iter
    if not (isinstance(itx, ast.Call) and isinstance(itx.func, ast.Name) and itx.func.id == "enumerate" and len(itx.args) == 1 and isinstance(itx.args[0], ast.Name)
            and itx.args[0].id == gen.roles.get("ARGS") and isinstance(s.target, ast.Tuple) and len(s.target.elts) == 2):
        raise ExtractError("loop is not `for <i>, <x> in enumerate(<args>)`")
    st.g["i"] = z3.IntVal(0)


def for_havoc(gen, st, lid, s):
    pass


def for_cond(gen, st, lid, s):
    return st.g["i"] < N


def for_bind(gen, st, lid, s):
    st.v[s.target.elts[0].id] = ("int", st.g["i"])
    st.v[s.target.elts[1].id] = ("obj", z3.Select(ARGS, st.g["i"]))


def for_step(gen, st, lid, s):
    st.g["i"] = st.g["i"] + 1


class X:
    def __init__(self, gen, st):
        self.top = gen.var(st, "TOP")[1]
        tb = gen.var(st, "TB")
        self.tb = lambda a: z3.Select(tb[1], a)
        self.tblen = tb[2]
        self.ntype = gen.var(st, "NTYPE")[1]
        self.i = st.g["i"]
        self.pos = lambda a: z3.Select(st.g["pos"], a)


def arg(a):
    return z3.Select(ARGS, a)


def sel(x, a):
    """position a is a box of the current top trace"""
    return z3.And(isbox(arg(a)), tr(arg(a)) == x.top)


def inv(gen, st):
    x = X(gen, st)
    return [
        ("index-range", z3.And(0 <= x.i, x.i <= N, x.tblen >= 0)),
        ("FT1-top-is-an-upper-bound", z3.And(x.top >= -1, z3.ForAll([k], z3.Implies(z3.And(0 <= k, k < x.i, isbox(arg(k))), tr(arg(k)) <= x.top)))),
        ("FT1-top-is-attained-or-minus-one", z3.If(x.tblen == 0, z3.And(x.top == -1, z3.ForAll([k], z3.Implies(z3.And(0 <= k, k < x.i), z3.Not(isbox(arg(k)))))), x.top >= 0)),
        ("FT2-listed-positions-are-selected-and-increasing", z3.ForAll([j], z3.Implies(z3.And(0 <= j, j < x.tblen), z3.And(
            0 <= x.tb(j), x.tb(j) < x.i, sel(x, x.tb(j)), x.pos(x.tb(j)) == j, z3.Implies(j + 1 < x.tblen, x.tb(j) < x.tb(j + 1)))))),
        ("FT2-every-selected-position-is-listed", z3.ForAll([k], z3.Implies(z3.And(0 <= k, k < x.i, sel(x, k)), z3.And(0 <= x.pos(k), x.pos(k) < x.tblen, x.tb(x.pos(k)) == k)))),
        ("FT3-node-type-of-the-first", x.ntype == z3.If(x.tblen == 0, NONE, nty(arg(x.tb(0))))),
    ]


LOOPS = {1: dict(invariant=inv, ghost_modified=["i", "pos"])}


def call(gen, st, name, v):
    return None


def ret(gen, st, e):
    from vlib.pyvc import ExtractError
    if not (isinstance(e, ast.Tuple) and len(e.elts) == 3 and all(isinstance(x, ast.Name) for x in e.elts)):
        raise ExtractError("return is not a 3-tuple of locals")
    want = [gen.roles.get("TB"), gen.roles.get("TOP"), gen.roles.get("NTYPE")]
    if [x.id for x in e.elts] != want:
        raise ExtractError(f"returned tuple is not (top_boxes, top_trace, top_node_type) by role: {[x.id for x in e.elts]} vs {want}")
    return ("triple", None)


def post(gen, st):
    x = X(gen, st)
    return [
        ("FT1-top-trace-is-the-maximum", z3.And(z3.ForAll([k], z3.Implies(z3.And(0 <= k, k < N, isbox(arg(k))), tr(arg(k)) <= x.top)),
                                               z3.Or(x.top == -1, z3.Exists([k], z3.And(0 <= k, k < N, isbox(arg(k)), tr(arg(k)) == x.top))),
                                               z3.Implies(z3.Exists([k], z3.And(0 <= k, k < N, isbox(arg(k)))), x.top >= 0))),
        ("FT2-top-boxes-are-exactly-the-boxes-of-the-top-trace", z3.And(
            z3.ForAll([j], z3.Implies(z3.And(0 <= j, j < x.tblen), z3.And(0 <= x.tb(j), x.tb(j) < N, sel(x, x.tb(j)), z3.Implies(j + 1 < x.tblen, x.tb(j) < x.tb(j + 1))))),
            z3.ForAll([k], z3.Implies(z3.And(0 <= k, k < N, sel(x, k)), z3.Exists([j], z3.And(0 <= j, j < x.tblen, x.tb(j) == k)))))),
        ("FT3-node-type", x.ntype == z3.If(x.tblen == 0, NONE, nty(arg(x.tb(0))))),
    ]
