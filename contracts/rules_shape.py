"""E3 obligations (restricted to the broadcasting / reduction families): for ALL dimension sizes, the real VJP rule returns an array of
the differentiated argument's shape and kind, and the real JVP rule one of the output's shape and kind (C05; C01/C02 item 2-3).

Enumerated: argument ranks 0..R (R = 2 quick, 3 thorough), which operand is a Python scalar, real/complex kind mixes, axis values incl.
negative and tuples, keepdims.  Symbolic: every dimension size (z3 Int >= 0) under NumPy's own acceptance condition for the primal call.
The rule bodies - and unbroadcast, unbroadcast_f, match_complex, repeat_to_match_shape, broadcast, balanced_eq, replace_zero - are the
real code of the shadow-loaded modules; NumPy's shape behaviour is the assumed contract table of vlib/shapex.py.
"""
import itertools

import z3

from vlib import concolic as cx
from vlib import shadow
from vlib import shapex as sx
from vlib.common import CheckerError

BINARY = ["add", "subtract", "multiply", "divide", "true_divide", "maximum", "minimum", "fmax", "fmin", "logaddexp", "logaddexp2", "mod", "remainder", "power", "arctan2", "hypot"]
REDUCE = ["sum", "mean", "prod", "var", "std", "max", "min", "amax", "amin"]
_state = {"oblig": []}


def _oblig(name, formula):
    _state["oblig"].append((name, list(cx.cur().pc), formula))


_cache = {}


def load():
    if "rec" in _cache:
        return _cache["rec"]
    from functools import partial
    anp, onp = sx.make_namespaces(_oblig)
    rv, rj = shadow.Recorder(), shadow.Recorder()

    class ArrayBoxStub:
        __getitem__ = shadow.Prim("ArrayBox.__getitem__")
    common = dict(onp=onp, anp=anp, ArrayBox=ArrayBoxStub, func=lambda f: f, partial=partial, SparseObject=object, VJPNode=type("VJPNode", (), {}),
                  JVPNode=type("JVPNode", (), {}), vspace=lambda x: None)
    ns_v, d1 = shadow.load("autograd/numpy/numpy_vjps.py", dict(common, defvjp=rv.defvjp, defvjp_argnum=rv.defvjp_argnum, primitive=rv.primitive, register_notrace=rv.register_notrace))
    names = ["balanced_eq", "dot_adjoint_0", "dot_adjoint_1", "match_complex", "nograd_functions", "replace_zero", "tensordot_adjoint_0", "tensordot_adjoint_1", "untake"]
    ns_j, d2 = shadow.load("autograd/numpy/numpy_jvps.py", dict(common, defjvp=rj.defjvp, defjvp_argnum=rj.defjvp_argnum, def_linear=rj.def_linear, register_notrace=rj.register_notrace,
                                                                 **{n: ns_v[n] for n in names if n in ns_v}))
    _cache["rec"] = (rv, rj, anp, d1 + d2)
    return _cache["rec"]


def sym_shape(L, tag, rank):
    dims = []
    for i in range(rank):
        d = L.int(f"{tag}{i}")
        if L.model is None:
            cx.assume(d >= 0)
        dims.append(d)
    return tuple(dims)


def _check_leaf(rep, tier, name, r, res, target_shape, target_kind, case, replay_spec):
    """obligations at one explored leaf"""
    out = []
    if r.exc is not None:
        if isinstance(r.exc, (ValueError,)):  # NumPy would reject the primal call for these sizes / the rule raises: 'or raises'
            return
        rep.obligation(f"{name}:no-exception", False, "-", 0, "E3")
        rep.violation(f"E3:{name.split(':')[0]}", case, f"rule body raised {type(r.exc).__name__}: {r.exc} on abstract arrays", witness=False, solver_output=str(r.exc), replay=replay_spec)
        return
    res_shape, res_kind = res
    goals = [("shape", sx.same_dims(res_shape, target_shape)), ("kind", z3.BoolVal(res_kind == target_kind))]
    for nm, pc, f in r.value[1]:
        goals.append((nm, f))
        r_pc = pc
    for cl, g in goals:
        pc = r.pc
        verdict, m = cx.check_clause(rep, f"{name}:{cl}", pc, g, tier, engine="E3", sample=(f"pc={pc} |- {z3.simplify(g)}"[:400] if len(rep.samples) < 5 else None))
        if verdict != "proved":
            m = m or cx.path_model(pc)
            sizes = {str(d): int(m[d].as_long()) for d in m.decls() if z3.is_int_value(m[d])} if m is not None else {}
            spec = dict(replay_spec, sizes=sizes, clause=cl)
            ok, obs, exp = replay(spec)
            rep.violation(f"E3:{name.split(':')[0]}:{cl}", case, f"{case} with sizes {sizes}: {obs}", replay=spec, witness=not ok, solver_output=str(m)[:200])


def run(rep, tier):
    rv, rj, anp, dropped = load()
    R = 2 if tier == "quick" else 3
    rep.bound(f"E3: binary ufunc rules ({len(BINARY)}) x 2 args x rank pairs 0..{R} x (array|Python scalar) x real/complex mixes; reduction rules ({len(REDUCE)}) x ranks 0..{R} x every "
              "int axis incl. negative, tuples, None x keepdims - enumerated; all dimension sizes symbolic")
    rep.assume("NumPy shape contracts of vlib/shapex.py (broadcasting, reductions with axis/keepdims, reshape size preservation, where, expand_dims, zeros): assumed, audited on small cases")
    npaths = 0
    # ---- binary ufuncs ------------------------------------------------------------------------------------------------------
    for name in BINARY:
        for rx, ry in itertools.product(range(R + 1), repeat=2):
            for kx, ky in (("real", "real"), ("real", "complex"), ("complex", "real")):
                if name in ("maximum", "minimum", "fmax", "fmin", "mod", "remainder", "arctan2", "hypot", "logaddexp", "logaddexp2") and "complex" in (kx, ky):
                    continue
                for scalar in (None, 0, 1):
                    if scalar is not None and ((rx, ry)[scalar] != 0 or (kx, ky) != ("real", "real")):
                        continue
                    for a in (0, 1):
                        if scalar == a:
                            continue  # differentiating w.r.t. a Python float argument: covered by the rank-0 array case
                        for mode in ("vjp", "jvp"):
                            case = f"{name}|r{rx}{ry}|{kx[0]}{ky[0]}|{'s%d' % scalar if scalar is not None else 'aa'}|arg{a}|{mode}"

                            def harness(L, name=name, rx=rx, ry=ry, kx=kx, ky=ky, scalar=scalar, a=a, mode=mode):
                                _state["oblig"] = []
                                x = 1.5 if scalar == 0 else sx.SArr(sym_shape(L, "x", rx), kx)
                                y = 2.5 if scalar == 1 else sx.SArr(sym_shape(L, "y", ry), ky)
                                ans = sx.SArr(sx.bshape(sx.shape_of(x), sx.shape_of(y)), sx.promote("real", sx.kind_of(x), sx.kind_of(y)))
                                tgt = (x, y)[a]
                                if mode == "vjp":
                                    mk = rv.vjps.get((name, a))
                                    if mk is None:
                                        return None
                                    g = sx.SArr(ans.shape, ans.kind)
                                    res = mk(ans, x, y)(g)
                                    want = (sx.shape_of(tgt), sx.kind_of(tgt) if sx.kind_of(tgt) == "complex" else "real")
                                else:
                                    rule = "same" if name in rj.linear else rj.jvps.get((name, a), "absent")
                                    if isinstance(rule, str) and rule == "absent":
                                        return None
                                    g = sx.SArr(sx.shape_of(tgt), sx.kind_of(tgt) if isinstance(tgt, sx.SArr) else "real")
                                    if rule is None:
                                        return None
                                    if isinstance(rule, str):
                                        res = getattr(anp, name)(*[g if i == a else v for i, v in enumerate((x, y))])
                                    else:
                                        res = rule(g, ans, x, y)
                                    want = (ans.shape, ans.kind)
                                return (sx.shape_of(res), sx.kind_of(res)), list(_state["oblig"]), want

                            try:
                                results, _ = cx.explore(harness)
                            except (shadow.NotModelled,) as e:
                                rep.uncover(f"E3: {case}: {e}")
                                continue
                            for r in results:
                                if r.exc is None and r.value is None:
                                    continue
                                npaths += 1
                                if r.exc is None:
                                    res, obl, want = r.value
                                    r.value = (res, obl)
                                else:
                                    res, want = None, (None, None)
                                    if isinstance(r.exc, shadow.NotModelled):
                                        rep.uncover(f"E3: {case}: unmodelled {r.exc}")
                                        continue
                                _check_leaf(rep, tier, f"{mode}:{name}:{case}", r, res, want[0], want[1], case,
                                            dict(module="contracts.rules_shape", family="binary", name=name, rx=rx, ry=ry, kx=kx, ky=ky, scalar=scalar, argnum=a, mode=mode))
    # ---- reductions ---------------------------------------------------------------------------------------------------------
    for name in REDUCE:
        for rx in range(R + 1):
            axes = [None] + list(range(-rx, rx)) + ([(0, 1), (1, 0), (-1, 0)] if rx >= 2 else []) + ([(0, 2), (2, 0, 1)] if rx >= 3 else [])
            for axis in axes:
                if name == "prod" and isinstance(axis, tuple):
                    continue
                for kd in (False, True):
                    for kx in ("real", "complex"):
                        if kx == "complex" and name in ("max", "min", "amax", "amin"):
                            continue
                        for mode in ("vjp", "jvp"):
                            case = f"{name}|r{rx}|axis={axis}|keepdims={kd}|{kx[0]}|{mode}"

                            def harness(L, name=name, rx=rx, axis=axis, kd=kd, kx=kx, mode=mode):
                                _state["oblig"] = []
                                x = sx.SArr(sym_shape(L, "x", rx), kx)
                                if L.model is None and name in ("max", "min", "amax", "amin", "mean", "var", "std"):
                                    for d in x.shape:
                                        cx.assume(d >= 1)   # NumPy rejects max/min of an empty axis; mean/var of empty is nan with a warning
                                ans = getattr(anp, name)(x, axis=axis, keepdims=kd)
                                if name in ("var", "std", "max", "min", "amax", "amin") and kx == "complex":
                                    ans = sx.SArr(ans.shape, "real")
                                if mode == "vjp":
                                    mk = rv.vjps.get((name, 0))
                                    if mk is None:
                                        return None
                                    g = sx.SArr(ans.shape, ans.kind)
                                    res = mk(ans, x, axis=axis, keepdims=kd)(g)
                                    want = (x.shape, x.kind)
                                else:
                                    rule = "same" if name in rj.linear else rj.jvps.get((name, 0), "absent")
                                    if isinstance(rule, str) and rule == "absent" or rule is None:
                                        return None
                                    g = sx.SArr(x.shape, x.kind)
                                    res = getattr(anp, name)(g, axis=axis, keepdims=kd) if isinstance(rule, str) else rule(g, ans, x, axis=axis, keepdims=kd)
                                    want = (ans.shape, ans.kind)
                                return (sx.shape_of(res), sx.kind_of(res)), list(_state["oblig"]), want

                            try:
                                results, _ = cx.explore(harness)
                            except shadow.NotModelled as e:
                                rep.uncover(f"E3: {case}: {e}")
                                continue
                            for r in results:
                                if r.exc is None and r.value is None:
                                    continue
                                npaths += 1
                                if r.exc is None:
                                    res, obl, want = r.value
                                    r.value = (res, obl)
                                else:
                                    res, want = None, (None, None)
                                    if isinstance(r.exc, (shadow.NotModelled, NameError)):
                                        rep.note(f"E3: {case}: {type(r.exc).__name__}: {r.exc}") if len(rep.notes) < 30 else None
                                        continue
                                _check_leaf(rep, tier, f"{mode}:{name}:{case}", r, res, want[0], want[1], case,
                                            dict(module="contracts.rules_shape", family="reduce", name=name, rx=rx, axis=list(axis) if isinstance(axis, tuple) else axis,
                                                 keepdims=kd, kx=kx, mode=mode))
    rep.extra["e3_paths"] = npaths
    if npaths == 0:
        rep.error("E3 explored no path")


def replay(spec):
    """Natively: the real autograd on float arrays of the concrete sizes of the counter-model; vspace(result) vs vspace(argument/output)."""
    import numpy as onp

    import autograd.numpy as anp
    from autograd.core import make_jvp, make_vjp
    sizes = spec.get("sizes", {})

    def arr(tag, rank, kind):
        shp = tuple(max(0, int(sizes.get(f"{tag}{i}", 2))) for i in range(rank))
        a = onp.arange(1, 1 + int(onp.prod(shp)) if shp else 2, dtype=float)[: int(onp.prod(shp)) if shp else 1].reshape(shp) * 0.37 + 0.4
        return a + 1j * (a * 0.5) if kind == "complex" else a
    try:
        if spec["family"] == "binary":
            x = 1.5 if spec["scalar"] == 0 else arr("x", spec["rx"], spec["kx"])
            y = 2.5 if spec["scalar"] == 1 else arr("y", spec["ry"], spec["ky"])
            a = spec["argnum"]
            f = lambda z: getattr(anp, spec["name"])(*[z if i == a else v for i, v in enumerate((x, y))])
            tgt = (x, y)[a]
        else:
            x = arr("x", spec["rx"], spec["kx"])
            axis = tuple(spec["axis"]) if isinstance(spec["axis"], list) else spec["axis"]
            f = lambda z: getattr(anp, spec["name"])(z, axis=axis, keepdims=spec["keepdims"])
            tgt = x
        if spec["mode"] == "vjp":
            vjp, val = make_vjp(f, tgt)
            r = onp.asarray(vjp(onp.ones(onp.shape(val), dtype=onp.asarray(val).dtype)))
            ok = r.shape == onp.shape(tgt) and onp.iscomplexobj(r) == onp.iscomplexobj(tgt)
            return ok, f"gradient shape {r.shape} dtype {r.dtype} for argument shape {onp.shape(tgt)} dtype {onp.asarray(tgt).dtype}", "same shape and kind as the argument"
        val, t = make_jvp(f, tgt)(onp.ones(onp.shape(tgt), dtype=onp.asarray(tgt).dtype))
        t = onp.asarray(t)
        ok = t.shape == onp.shape(val) and onp.iscomplexobj(t) == onp.iscomplexobj(val)
        return ok, f"tangent shape {t.shape} dtype {t.dtype} for output shape {onp.shape(val)} dtype {onp.asarray(val).dtype}", "same shape and kind as the output"
    except Exception as e:
        return True, f"raises {type(e).__name__}: {str(e)[:80]} (allowed)", "-"
