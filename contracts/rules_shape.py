"""E3 obligations (restricted to the broadcasting / reduction families): for ALL dimension sizes, the real VJP rule returns an array of
the differentiated argument's shape and kind, and the real JVP rule one of the output's shape and kind (C05; C01/C02 item 2-3).

Enumerated: argument ranks 0..R (R = 2 quick, 3 thorough), which operand is a Python scalar, real/complex kind mixes, axis values incl.
negative and tuples, keepdims.  Symbolic: every dimension size (z3 Int >= 0) under NumPy's own acceptance condition for the primal call.
The rule bodies - and unbroadcast, unbroadcast_f, match_complex, repeat_to_match_shape, broadcast, balanced_eq, replace_zero - are the
real code of the shadow-loaded modules; NumPy's shape behaviour is the assumed contract table of vlib/shapex.py.
"""
import itertools

import z3

from vlib import concolic as cx
from vlib import shadow
from vlib import shapex as sx
from vlib.common import CheckerError

BINARY = ["add", "subtract", "multiply", "divide", "true_divide", "maximum", "minimum", "fmax", "fmin", "logaddexp", "logaddexp2", "mod", "remainder", "power", "arctan2", "hypot"]
REDUCE = ["sum", "mean", "prod", "var", "std", "max", "min", "amax", "amin"]
_state = {"oblig": []}


def _oblig(name, formula):
    _state["oblig"].append((name, list(cx.cur().pc), formula))


def report_diag(rep):
    """lists the recorded diagnostics under `uncovered` and states the count in the evidence"""
    n = 0
    for case, conds in sorted(DIAG.items()):
        for c in sorted(conds):
            n += 1
            rep.uncover(f"E3 diagnostic: {case}: the rule broadcasts two sizes under a condition NumPy did not demand of the primal call ({c}): it raises for other sizes, and may combine "
                        "misaligned axes where the sizes happen to coincide")
    rep.extra["e3_rule_internal_broadcasts_not_implied_by_the_primal_call"] = n


def _enter_primal():
    _state["oblig"] = []
    sx.IN_RULE[0] = None


def _enter_rule():
    """From here on the RULE runs.  A broadcast between two symbolic sizes inside the rule that is not implied by what NumPy demanded of the primal call means:
    for some accepted sizes the rule raises (allowed by the properties), and for sizes that happen to coincide it may combine misaligned axes silently.  The
    condition is still assumed (the rule 'raises' otherwise) but recorded as a diagnostic goal `diag:rule-internal-broadcast`: unproved ones are listed under
    uncovered, never reported as violations."""
    _state["oblig"] = []
    sx.IN_RULE[0] = lambda cond: _state["oblig"].append(("diag:rule-internal-broadcast", list(cx.cur().pc), cond))


_cache = {}
DIAG = {}      # case -> rule-internal broadcast conditions that the primal's acceptance does not imply (diagnostic)


def load():
    if "rec" in _cache:
        return _cache["rec"]
    from functools import partial
    anp, onp = sx.make_namespaces(_oblig)
    rv, rj = shadow.Recorder(), shadow.Recorder()

    class ArrayBoxStub:
        __getitem__ = shadow.Prim("ArrayBox.__getitem__")
    common = dict(onp=onp, anp=anp, ArrayBox=ArrayBoxStub, func=lambda f: f, partial=partial, SparseObject=object, VJPNode=type("VJPNode", (), {}),
                  JVPNode=type("JVPNode", (), {}), vspace=lambda x: None)
    ns_v, d1 = shadow.load("autograd/numpy/numpy_vjps.py", dict(common, defvjp=rv.defvjp, defvjp_argnum=rv.defvjp_argnum, primitive=rv.primitive, register_notrace=rv.register_notrace))
    names = ["balanced_eq", "dot_adjoint_0", "dot_adjoint_1", "match_complex", "nograd_functions", "replace_zero", "tensordot_adjoint_0", "tensordot_adjoint_1", "untake"]
    ns_j, d2 = shadow.load("autograd/numpy/numpy_jvps.py", dict(common, defjvp=rj.defjvp, defjvp_argnum=rj.defjvp_argnum, def_linear=rj.def_linear, register_notrace=rj.register_notrace,
                                                                 **{n: ns_v[n] for n in names if n in ns_v}))
    _cache["rec"] = (rv, rj, anp, d1 + d2)
    _cache["ns_v"] = ns_v
    return _cache["rec"]


def run_adjoint_helpers(rep, tier):
    """E3 for the SECOND-ORDER rules of dot / tensordot: the adjoint helpers dot_adjoint_0/1 and tensordot_adjoint_0/1 are primitives of their own; their
    reverse rules (used when a gradient is differentiated again) must return arrays shaped like the helper's differentiated argument - for all sizes."""
    rv, rj, anp, dropped = load()
    for hn_ in ("dot_adjoint_0", "dot_adjoint_1", "tensordot_adjoint_0", "tensordot_adjoint_1"):
        if hn_ in rv.helpers:
            rep.function(f"autograd.numpy.numpy_vjps.{hn_}", rv.helpers[hn_].fun)
    cases = [c for c in _struct_cases(tier) if c[1] in ("dot", "tensordot")]
    rep.bound(f"E3 adjoint helpers: {len(cases)} dot / tensordot call forms x 2 helpers x 2 differentiated arguments; all dimension sizes symbolic")
    npaths = 0
    for label, name, spec, kwargs, argnums in cases:
        for side in (0, 1):
            hname = f"{name}_adjoint_{side}"
            if hname not in rv.helpers:
                rep.uncover(f"E3 adjoint helpers: {hname} is not a primitive of numpy_vjps any more")
                continue
            for a in (0, 1):
                case = f"{hname}[{label}]|arg{a}|vjp"

                def harness(L, name=name, spec=spec, kwargs=kwargs, side=side, a=a, hname=hname):
                    _enter_primal()
                    A_, B_ = _sym_args(L, spec, {})
                    ans = getattr(anp, name)(A_, B_, **kwargs)
                    G = sx.SArr(sx.shape_of(ans), sx.kind_of(ans))
                    other = B_ if side == 0 else A_
                    if name == "dot":
                        hargs = (other, G, anp.metadata(A_), anp.metadata(B_))
                    else:
                        hargs = (other, G, kwargs.get("axes", 2), len(sx.shape_of(A_)), len(sx.shape_of(B_)))
                    adj = rv.helpers[hname](*hargs)
                    _enter_rule()      # acceptance conditions of the PRIMAL call are preconditions; inside the rule, broadcasts are additionally recorded (diagnostic)
                    mk = rv.vjps.get((hname, a))
                    if mk is None:
                        return None
                    res = mk(adj, *hargs)(sx.SArr(sx.shape_of(adj), sx.kind_of(adj)))
                    tgt = hargs[a]
                    if not isinstance(res, sx.SArr):
                        return None
                    return (sx.shape_of(res), sx.kind_of(res)), list(_state["oblig"]), (sx.shape_of(tgt), sx.kind_of(tgt))
                try:
                    results, _ = cx.explore(harness)
                except (shadow.NotModelled, CheckerError) as e:
                    rep.uncover(f"E3: {case}: {e}"[:160])
                    continue
                for r in results:
                    if r.exc is None and r.value is None:
                        continue
                    npaths += 1
                    if r.exc is None:
                        res, obl, want = r.value
                        r.value = (res, obl)
                    else:
                        res, want = None, (None, None)
                        if isinstance(r.exc, (shadow.NotModelled, NotImplementedError)):
                            rep.uncover(f"E3: {case}: {type(r.exc).__name__}: {str(r.exc)[:60]}")
                            continue
                    _check_leaf(rep, tier, f"vjp:{hname}:{case}", r, res, want[0], want[1], case,
                                dict(module="contracts.rules_shape", family="adjoint", label=label, helper=hname, argnum=a, mode="vjp"))
    rep.extra["e3_adjoint_paths"] = npaths


def _native_adjoint(spec):
    """second-order replay: the gradient of <vjp of dot/tensordot applied to a fixed cotangent> with respect to the other operand / the cotangent"""
    import numpy as onp

    import autograd.numpy as anp
    from autograd.core import make_vjp
    case = next((c for c in _struct_cases("thorough") if c[0] == spec["label"]), None)
    if case is None:
        return True, "case removed", ""
    label, name, aspec, kwargs, argnums = case
    A_, B_ = _native_args(aspec, spec.get("sizes", {}))
    side = int(spec["helper"][-1])
    f = lambda a_, b_: getattr(anp, name)(a_, b_, **kwargs)
    G = onp.ones(onp.shape(f(A_, B_)))
    try:
        if spec["argnum"] == 0:      # differentiate (other operand) -> vjp_side(G)
            other = B_ if side == 0 else A_
            inner = (lambda o: make_vjp(lambda z: f(z, o), A_)[0](G)) if side == 0 else (lambda o: make_vjp(lambda z: f(o, z), B_)[0](G))
            tgt = other
        else:                        # differentiate cotangent -> vjp_side(cotangent)
            inner = (lambda g_: make_vjp(lambda z: f(z, B_), A_)[0](g_)) if side == 0 else (lambda g_: make_vjp(lambda z: f(A_, z), B_)[0](g_))
            tgt = G
        vjp, val = make_vjp(inner, tgt)
        r = onp.asarray(vjp(onp.ones(onp.shape(val))))
        return r.shape == onp.shape(tgt), f"second-order gradient shape {r.shape} for a differentiated value of shape {onp.shape(tgt)}", "the value's shape"
    except Exception as e:
        return True, f"raises {type(e).__name__}: {str(e)[:80]} (allowed)", "-"


def load_scipy_special():
    """autograd/scipy/special.py shadow-loaded: `scipy.special.<f>` is an abstract element-wise function of all its arguments (NumPy broadcasting; SciPy's
    special functions are ufuncs), `logsumexp` a reduction with axis / keepdims / b."""
    if "sps" in _cache:
        return _cache["sps"]
    import types
    rv0, rj0, anp, _ = load()
    rv, rj = shadow.Recorder(), shadow.Recorder()

    def elementwise(*args, **kw):
        return sx.SArr(sx.bshape(*[sx.shape_of(a) for a in args]), "real")

    def a_logsumexp(x, axis=None, b=None, keepdims=False, return_sign=False):
        sh = sx.shape_of(x)
        if b is not None:
            sh = sx.bshape(sh, sx.shape_of(b))
        return sx.SArr(sx.reduce_shape(sh, axis, keepdims), "real")

    class Special:
        def __getattr__(self, nm):
            if nm.startswith("__"):
                raise AttributeError(nm)
            p_ = shadow.Prim(nm, a_logsumexp if nm == "logsumexp" else elementwise)
            setattr(self, nm, p_)
            return p_
    sp_mod = types.SimpleNamespace(special=Special())
    ns_v = _cache["ns_v"]
    ns, dropped = shadow.load("autograd/scipy/special.py", dict(sps=sp_mod, sp=sp_mod, scipy=sp_mod, anp=anp, defvjp=rv.defvjp, defjvp=rj.defjvp, primitive=rv.primitive,
                                                               repeat_to_match_shape=ns_v["repeat_to_match_shape"], unbroadcast_f=ns_v["unbroadcast_f"]))
    _cache["sps"] = (rv, rj, anp, ns, dropped)
    return _cache["sps"]


def run_scipy_special(rep, tier):
    """E3 for autograd/scipy/special.py: every registered reverse rule returns an array of the differentiated argument's shape for ALL sizes when the arguments
    broadcast against each other (array order with scalar point, column against row, ...); logsumexp over axis / tuple axis / keepdims / weights b, both modes."""
    import inspect
    try:
        rv, rj, anp, ns, dropped = load_scipy_special()
    except CheckerError as e:
        rep.obligation("E3:scipy.special:load", False, "-", 0, "E3")
        rep.violation("E3:scipy.special:load", "autograd/scipy/special.py", f"the module no longer loads on the abstract namespace: {e}", witness=False, solver_output=str(e))
        return
    rep.function("autograd/scipy/special.py (module-level defvjp / defjvp rules)", __import__("os").path.join(__import__("vlib.common", fromlist=["REPO"]).REPO, "autograd/scipy/special.py"))
    rep.assume("scipy.special functions are element-wise in ALL their arguments with NumPy broadcasting (they are ufuncs); logsumexp reduces like sum; values are not modelled")
    A = lambda *d: ("A", d, "real")
    bc = [((), ()), (("n",), ("n",)), (("n",), ()), ((), ("n",)), (("n", "m"), ("m",)), (("m",), ("n", "m")), (("n", 1), (1, "m")), (("n", "m"), ("n", "m"))]
    cases = []
    for (name, a), mk in sorted(rv.vjps.items(), key=lambda kv: (kv[0][0], kv[0][1])):
        if mk is None or name == "logsumexp":
            continue
        try:
            params = [p_ for p_ in inspect.signature(mk).parameters.values() if p_.kind in (p_.POSITIONAL_ONLY, p_.POSITIONAL_OR_KEYWORD)]
        except (TypeError, ValueError):
            continue
        nargs = len(params) - 1        # (ans, *args)
        if nargs == 1:
            for shp in ((), ("n",), ("n", "m")):
                cases.append((f"{name}{shp}", name, [A(*shp)], {}, a))
        else:
            for s0, s1 in bc:
                shapes = [s1 if i == a else s0 for i in range(nargs)]      # the differentiated argument against all the others
                cases.append((f"{name}{tuple(shapes)}", name, [A(*sh) for sh in shapes], {}, a))
    for shp, axes in ((("a",), (None, 0, -1)), (("a", "b"), (None, 0, 1, -1, (0, 1), (-1, -2))), (("a", "b", "c"), (1, -2, (0, 2), (-1, 0), (-2, -1), (-3, -1)))):
        for ax in axes:
            for kd in (False, True):
                cases.append((f"logsumexp{shp} axis={ax} keepdims={kd}", "logsumexp", [A(*shp)], dict(axis=ax, keepdims=kd), 0))
    cases.append(("logsumexp('a','b') b=('b',) axis=1", "logsumexp", [A("a", "b")], dict(axis=1, b=("B", ("b",))), 0))
    cases.append(("logsumexp('a','b') b=('a','b') axis=(0,1)", "logsumexp", [A("a", "b")], dict(axis=(0, 1), b=("B", ("a", "b"))), 0))
    rep.bound(f"E3 scipy.special: {len(cases)} call forms (every registered reverse rule x broadcasting patterns of its arguments; logsumexp axis / keepdims / b forms, both modes) enumerated; sizes symbolic")
    npaths = 0
    for label, name, spec, kwargs, a in cases:
        for mode in ("vjp", "jvp"):
            if mode == "jvp" and not callable(rj.jvps.get((name, a))):
                continue
            case = f"{label}|arg{a}|{mode}"

            def harness(L, name=name, spec=spec, kwargs=kwargs, a=a, mode=mode):
                _enter_primal()
                syms = {}
                args = _sym_args(L, spec, syms)
                kw = {k: (_sym_args(L, [("A", v[1], "real")], syms)[0] if isinstance(v, tuple) and v and v[0] == "B" else v) for k, v in kwargs.items()}
                prim = rv.helpers.get(name)
                if prim is None:
                    return None
                ans = prim(*args, **kw)
                _enter_rule()      # acceptance conditions of the PRIMAL call are preconditions; inside the rule, broadcasts are additionally recorded (diagnostic)
                tgt = args[a]
                if mode == "vjp":
                    res = rv.vjps[(name, a)](ans, *args, **kw)(sx.SArr(sx.shape_of(ans), "real"))
                    want = (sx.shape_of(tgt), sx.kind_of(tgt))
                else:
                    res = rj.jvps[(name, a)](sx.SArr(sx.shape_of(tgt), "real"), ans, *args, **kw)
                    want = (sx.shape_of(ans), sx.kind_of(ans))
                if not isinstance(res, sx.SArr):
                    return None
                return (sx.shape_of(res), sx.kind_of(res)), list(_state["oblig"]), want
            try:
                results, _ = cx.explore(harness)
            except (shadow.NotModelled, CheckerError) as e:
                rep.uncover(f"E3 scipy.special: {case}: {e}"[:160])
                continue
            for r in results:
                if r.exc is None and r.value is None:
                    continue
                npaths += 1
                if r.exc is None:
                    res, obl, want = r.value
                    r.value = (res, obl)
                else:
                    res, want = None, (None, None)
                    if isinstance(r.exc, (shadow.NotModelled, NotImplementedError)):
                        rep.uncover(f"E3 scipy.special: {case}: {type(r.exc).__name__}: {str(r.exc)[:60]}")
                        continue
                _check_leaf(rep, tier, f"{mode}:scipy.special.{name}:{case}", r, res, want[0], want[1], case,
                            dict(module="contracts.rules_shape", family="scipy_special", label=label, name=name, spec=[list(map(lambda d: d, it[1])) for it in spec], kwargs={k: (list(v) if isinstance(v, tuple) else v) for k, v in kwargs.items()}, argnum=a, mode=mode))
    rep.extra["e3_scipy_special_paths"] = npaths


def _native_scipy_special(spec):
    import numpy as onp

    import autograd.numpy as anp
    import autograd.scipy.special as asp
    from autograd.core import make_jvp, make_vjp
    sizes = spec.get("sizes", {})
    dim = lambda d: d if isinstance(d, int) else max(1, int(sizes.get(d, 2)))
    args = []
    for j, shp in enumerate(spec["spec"]):
        shp = tuple(dim(d) for d in shp)
        n = int(onp.prod(shp)) if shp else 1
        arr = (onp.arange(n, dtype=float) * 0.13 + 0.6 + 0.2 * j).reshape(shp)
        args.append(arr if shp else float(arr))
    kw = {}
    for k, v in spec.get("kwargs", {}).items():
        if isinstance(v, list) and v and v[0] == "B":
            shp = tuple(dim(d) for d in v[1])
            kw[k] = onp.arange(1.0, 1 + int(onp.prod(shp))).reshape(shp) * 0.5
        else:
            kw[k] = tuple(v) if isinstance(v, list) else v
    a = spec["argnum"]
    name = spec["name"]
    if name in ("polygamma", "jn", "yn") and len(args) == 2:
        args[0] = onp.round(onp.asarray(args[0])).astype(int) if onp.ndim(args[0]) else int(round(args[0]))
    f = lambda z: getattr(asp, name)(*[z if i == a else v for i, v in enumerate(args)], **kw)
    try:
        if spec["mode"] == "vjp":
            vjp, val = make_vjp(f, args[a])
            r = onp.asarray(vjp(onp.ones(onp.shape(val))))
            return r.shape == onp.shape(args[a]), f"gradient shape {r.shape} for an argument of shape {onp.shape(args[a])}", "the argument's shape"
        val, t = make_jvp(f, args[a])(onp.ones(onp.shape(args[a])) if onp.ndim(args[a]) else 1.0)
        return onp.shape(t) == onp.shape(val), f"tangent shape {onp.shape(t)} for output shape {onp.shape(val)}", "the output's shape"
    except Exception as e:
        return True, f"raises {type(e).__name__}: {str(e)[:80]} (allowed)", "-"


ELEMENTWISE_MODULES = ["autograd/scipy/stats/norm.py", "autograd/scipy/stats/t.py", "autograd/scipy/stats/gamma.py", "autograd/scipy/stats/beta.py", "autograd/scipy/stats/chi2.py",
                       "autograd/scipy/stats/poisson.py"]


class _Deep:
    """`scipy.stats.norm.pdf`-style attribute chains: every leaf is an abstract function that is element-wise in all its arguments (NumPy broadcasting)."""

    def __init__(self, name):
        self.__name__ = name
        self.name = name

    def __getattr__(self, nm):
        if nm.startswith("__"):
            raise AttributeError(nm)
        d = _Deep(nm)
        object.__setattr__(self, nm, d)
        return d

    def __call__(self, *args, **kw):
        return sx.SArr(sx.bshape(*[sx.shape_of(a) for a in list(args) + list(kw.values())]), "real")


def run_elementwise_modules(rep, tier):
    """E3 for the element-wise SciPy rule modules (scipy.stats distributions): every registered reverse rule, the differentiated argument against the others in 8
    broadcasting patterns, all sizes symbolic: the gradient has the differentiated argument's shape."""
    import inspect
    import os
    from vlib.common import REPO
    rv0, rj0, anp, _ = load()
    ns_v = _cache["ns_v"]
    A = lambda *d: ("A", d, "real")
    bc = [((), ()), (("n",), ("n",)), (("n",), ()), ((), ("n",)), (("n", "m"), ("m",)), (("m",), ("n", "m")), (("n", 1), (1, "m")), (("n", "m"), ("n", "m"))]
    npaths = ncases = 0
    rep.assume("scipy.stats / scipy.special functions are element-wise in all their arguments with NumPy broadcasting; values are not modelled")
    for rel in ELEMENTWISE_MODULES:
        if not os.path.exists(os.path.join(REPO, rel)):
            rep.uncover(f"E3 element-wise modules: {rel} does not exist")
            continue
        rv = shadow.Recorder()
        deep = _Deep("scipy")
        try:
            ns, dropped = shadow.load(rel, dict(sp=deep, sps=deep, scipy=deep, anp=anp, defvjp=rv.defvjp, defjvp=lambda *a, **k: None, primitive=rv.primitive, unbroadcast_f=ns_v["unbroadcast_f"],
                                                **{nm: _Deep(nm) for nm in ("gamma", "psi", "beta", "digamma", "gammaln", "polygamma", "betaln", "erf", "erfc", "logsumexp")}))
        except CheckerError as e:
            rep.obligation(f"E3:{rel}:load", False, "-", 0, "E3")
            rep.violation("E3:elementwise:load", rel, f"the module no longer loads on the abstract namespace: {e}", witness=False, solver_output=str(e))
            continue
        rep.function(f"{rel} (module-level defvjp rules)", os.path.join(REPO, rel))
        mod = rel[:-3].replace("/", ".")
        for (name, a), mk in sorted(rv.vjps.items(), key=lambda kv: (kv[0][0], kv[0][1])):
            if mk is None:
                continue
            try:
                params = [p_ for p_ in inspect.signature(mk).parameters.values() if p_.kind in (p_.POSITIONAL_ONLY, p_.POSITIONAL_OR_KEYWORD)]
            except (TypeError, ValueError):
                continue
            nargs = len(params) - 1
            if a >= nargs:
                continue
            for s0, s1 in (bc if nargs > 1 else [((), ()), ((), ("n",)), ((), ("n", "m"))]):
                shapes = [s1 if i == a else s0 for i in range(nargs)]
                label = f"{mod}.{name}{tuple(shapes)}"
                case = f"{label}|arg{a}|vjp"
                ncases += 1

                def harness(L, name=name, shapes=shapes, a=a, mk=mk):
                    _enter_primal()
                    args = _sym_args(L, [A(*sh) for sh in shapes], {})
                    ans = rv.helpers[name](*args)
                    _enter_rule()      # acceptance conditions of the PRIMAL call are preconditions; inside the rule, broadcasts are additionally recorded (diagnostic)
                    res = mk(ans, *args)(sx.SArr(sx.shape_of(ans), "real"))
                    if not isinstance(res, sx.SArr):
                        return None
                    return (sx.shape_of(res), sx.kind_of(res)), list(_state["oblig"]), (sx.shape_of(args[a]), "real")
                try:
                    results, _ = cx.explore(harness)
                except (shadow.NotModelled, CheckerError) as e:
                    rep.uncover(f"E3 element-wise modules: {case}: {e}"[:160])
                    continue
                for r in results:
                    if r.exc is None and r.value is None:
                        continue
                    npaths += 1
                    if r.exc is None:
                        res, obl, want = r.value
                        r.value = (res, obl)
                    else:
                        res, want = None, (None, None)
                        if isinstance(r.exc, (shadow.NotModelled, NotImplementedError)):
                            rep.uncover(f"E3 element-wise modules: {case}: {type(r.exc).__name__}: {str(r.exc)[:60]}")
                            continue
                    _check_leaf(rep, tier, f"vjp:{mod}.{name}:{case}", r, res, want[0], want[1], case,
                                dict(module="contracts.rules_shape", family="elementwise_module", label=label, pymodule=mod, name=name, spec=[list(sh) for sh in shapes], argnum=a, mode="vjp"))
    rep.bound(f"E3 element-wise SciPy modules: {ncases} (rule, broadcasting pattern) pairs over {len(ELEMENTWISE_MODULES)} modules enumerated; sizes symbolic")
    rep.extra["e3_elementwise_module_paths"] = npaths


def _native_elementwise_module(spec):
    import importlib

    import numpy as onp
    from autograd.core import make_vjp
    sizes = spec.get("sizes", {})
    dim = lambda d: d if isinstance(d, int) else max(1, int(sizes.get(d, 2)))
    args = []
    for j, shp in enumerate(spec["spec"]):
        shp = tuple(dim(d) for d in shp)
        n = int(onp.prod(shp)) if shp else 1
        arr = (onp.arange(n, dtype=float) * 0.11 + 0.7 + 0.45 * j).reshape(shp)
        args.append(arr if shp else float(arr))
    a = spec["argnum"]
    try:
        fn = getattr(importlib.import_module(spec["pymodule"]), spec["name"])
        vjp, val = make_vjp(lambda z: fn(*[z if i == a else v for i, v in enumerate(args)]), args[a])
        r = onp.asarray(vjp(onp.ones(onp.shape(val))))
        return r.shape == onp.shape(args[a]), f"gradient shape {r.shape} for an argument of shape {onp.shape(args[a])}", "the argument's shape"
    except Exception as e:
        return True, f"raises {type(e).__name__}: {str(e)[:80]} (allowed)", "-"


FFT_NAMES = ("fft", "ifft", "fft2", "ifft2", "fftn", "ifftn", "rfft", "irfft", "rfft2", "irfft2", "rfftn", "irfftn", "fftshift", "ifftshift", "fftfreq", "rfftfreq", "hfft", "ihfft")


def load_fft():
    if "fft" in _cache:
        return _cache["fft"]
    import types
    rv0, rj0, anp, _ = load()
    rv, rj = shadow.Recorder(), shadow.Recorder()
    ff = shadow.Namespace("fft", sx.fft_impls())

    def wrap_namespace(old, new):
        for nm in FFT_NAMES:
            new[nm] = getattr(ff, nm)
    ns, dropped = shadow.load("autograd/numpy/fft.py", dict(anp=anp, ffto=types.SimpleNamespace(), defvjp=rv.defvjp, defjvp=rj.defjvp, primitive=rv.primitive, wrap_namespace=wrap_namespace,
                                                           vspace=lambda x: types.SimpleNamespace(shape=sx.shape_of(x)), match_complex=_cache["ns_v"]["match_complex"]))
    _cache["fft"] = (rv, rj, ff, anp, dropped)
    _cache["fft_ns"] = ns
    return _cache["fft"]


def _fft_cases(tier):
    A = lambda *d, kind="real": ("A", d, kind)
    N = lambda nm: ("N", nm)          # a symbolic transform length (n= / entries of s=)
    C = []
    for kind in ("real", "complex"):
        k = "" if kind == "real" else " complex"
        for nm in ("fft", "ifft"):
            for shp, axis in ((("a",), -1), (("a", "b"), -1), (("a", "b"), 0), (("a", "b", "c"), 1)):
                C.append((f"{nm}{shp} axis={axis}{k}", nm, [A(*shp, kind=kind)], {"axis": axis}, (0,)))
                C.append((f"{nm}{shp} n=N axis={axis}{k}", nm, [A(*shp, kind=kind), N("N")], {"axis": axis}, (0,)))
        for nm in ("fft2", "ifft2", "fftn", "ifftn"):
            for shp in (("a", "b"), ("a", "b", "c")):
                C.append((f"{nm}{shp}{k}", nm, [A(*shp, kind=kind)], {}, (0,)))
                C.append((f"{nm}{shp} s=(N,M) axes=(0,1){k}", nm, [A(*shp, kind=kind), ("NS", ("N", "M"))], {"axes": (0, 1)}, (0,)))
                C.append((f"{nm}{shp} axes=(-1,0){k}", nm, [A(*shp, kind=kind)], {"axes": (-1, 0)}, (0,)))
        for nm in ("fftshift", "ifftshift"):
            C.append((f"{nm}('a','b'){k}", nm, [A("a", "b", kind=kind)], {}, (0,)))
            C.append((f"{nm}('a','b') axes=1{k}", nm, [A("a", "b", kind=kind)], {"axes": 1}, (0,)))
    for nm in ("rfft",):
        for shp, axis in ((("a",), -1), (("a", "b"), -1), (("a", "b"), 0)):
            C.append((f"{nm}{shp} axis={axis}", nm, [A(*shp)], {"axis": axis}, (0,)))
            C.append((f"{nm}{shp} n=N axis={axis}", nm, [A(*shp), N("N")], {"axis": axis}, (0,)))
    for nm in ("irfft",):
        for shp, axis in ((("a",), -1), (("a", "b"), -1), (("a", "b"), 0)):
            C.append((f"{nm}{shp} axis={axis}", nm, [A(*shp, kind="complex")], {"axis": axis}, (0,)))
            C.append((f"{nm}{shp} n=N axis={axis}", nm, [A(*shp, kind="complex"), N("N")], {"axis": axis}, (0,)))
    for nm, kd in (("rfft2", "real"), ("rfftn", "real"), ("irfft2", "complex"), ("irfftn", "complex")):
        for shp in (("a", "b"), ("a", "b", "c")):
            C.append((f"{nm}{shp}", nm, [A(*shp, kind=kd)], {}, (0,)))
            C.append((f"{nm}{shp} s=(N,M) axes=(0,1)", nm, [A(*shp, kind=kd), ("NS", ("N", "M"))], {"axes": (0, 1)}, (0,)))
    return C


def run_fft(rep, tier):
    """E3 for autograd/numpy/fft.py: the reverse rules (through the real truncate_pad, make_rfft_factors, get_*_args) return an array of the argument's shape and
    kind for ALL array sizes and ALL transform lengths n= / s= (truncation and zero-padding both); odd lengths of the real transforms and repeated axes raise."""
    try:
        rv, rj, ff, anp, dropped = load_fft()
    except CheckerError as e:
        rep.obligation("E3:fft:load", False, "-", 0, "E3")
        rep.violation("E3:fft:load", "autograd/numpy/fft.py", f"the module no longer loads on the abstract namespace: {e}", witness=False, solver_output=str(e))
        return
    import types as _types
    for nm_, ob_ in sorted(_cache["fft_ns"].items()):
        if isinstance(ob_, _types.FunctionType) and getattr(ob_, "__module__", "") == "shadow:autograd/numpy/fft.py" and ob_.__name__ != "<lambda>":
            rep.function(f"autograd.numpy.fft.{nm_}", ob_)
    if "truncate_pad" in rv.helpers:
        rep.function("autograd.numpy.fft.truncate_pad", rv.helpers["truncate_pad"].fun)
    cases = _fft_cases(tier)
    rep.bound(f"E3 fft: {len(cases)} call forms (fft/ifft/fft2/ifft2/fftn/ifftn/rfft*/irfft*/fftshift with axis / axes / symbolic n= and s=) enumerated; array sizes and transform lengths symbolic")
    rep.assume("NumPy shape contracts of numpy.fft in vlib/shapex.fft_impls: assumed, audited against NumPy on concrete sizes in every run")
    npaths = 0
    for label, name, spec, kwargs, argnums in cases:
        case = f"{label}|arg0|vjp"

        def harness(L, name=name, spec=spec, kwargs=kwargs):
            _enter_primal()
            syms = {}
            args = []
            for it in spec:
                if it[0] == "N":
                    v = L.int(it[1])
                    if L.model is None:
                        cx.assume(v >= 1)
                    args.append(v)
                elif it[0] == "NS":
                    vs_ = []
                    for q in it[1]:
                        v = L.int(q)
                        if L.model is None:
                            cx.assume(v >= 1)
                        vs_.append(v)
                    args.append(tuple(vs_))
                else:
                    args.extend(_sym_args(L, [it], syms))
            x = args[0]
            if L.model is None:
                for d in sx.shape_of(x):
                    cx.assume(d >= 1)       # NumPy's fft rejects empty axes
            ans = getattr(ff, name)(*args, **kwargs)
            _enter_rule()      # acceptance conditions of the PRIMAL call are preconditions; inside the rule, broadcasts are additionally recorded (diagnostic)
            mk = rv.vjps.get((name, 0))
            if mk is None:
                return None
            res = mk(ans, *args, **kwargs)(sx.SArr(sx.shape_of(ans), sx.kind_of(ans)))
            if not isinstance(res, sx.SArr):
                return None
            return (sx.shape_of(res), sx.kind_of(res)), list(_state["oblig"]), (sx.shape_of(x), sx.kind_of(x))
        try:
            results, _ = cx.explore(harness)
        except (shadow.NotModelled, CheckerError) as e:
            rep.uncover(f"E3 fft: {case}: {e}"[:160])
            continue
        for r in results:
            if r.exc is None and r.value is None:
                continue
            npaths += 1
            if r.exc is None:
                res, obl, want = r.value
                r.value = (res, obl)
            else:
                res, want = None, (None, None)
                if isinstance(r.exc, (shadow.NotModelled, NotImplementedError)):
                    if isinstance(r.exc, shadow.NotModelled):
                        rep.uncover(f"E3 fft: {case}: {type(r.exc).__name__}: {str(r.exc)[:60]}")
                    continue
            _check_leaf(rep, tier, f"vjp:fft.{name}:{case}", r, res, want[0], want[1], case, dict(module="contracts.rules_shape", family="fft", label=label, argnum=0, mode="vjp"))
    rep.extra["e3_fft_paths"] = npaths
    audit_fft(rep)


LINALG_NAMES = ("inv", "det", "slogdet", "cholesky", "pinv", "solve", "eigh", "norm", "svd", "eig", "eigvals", "eigvalsh", "matrix_rank", "lstsq", "qr", "matrix_power", "multi_dot", "tensorsolve", "tensorinv", "cond")


def load_linalg():
    """autograd/numpy/linalg.py shadow-loaded on the same abstract anp; its `wrap_namespace(npla.__dict__, globals())` is replaced by a binding of the
    wrapped names to the assumed NumPy-2 shape contracts of vlib/shapex.linalg_impls (names without a contract are unmodelled => their rules are reported uncovered)."""
    if "la" in _cache:
        return _cache["la"]
    import types
    from functools import partial
    rv0, rj0, anp, _ = load()
    rv, rj = shadow.Recorder(), shadow.Recorder()
    la = shadow.Namespace("la", sx.linalg_impls())

    def wrap_namespace(old, new):
        for nm in LINALG_NAMES:
            new[nm] = getattr(la, nm)
    ns, dropped = shadow.load("autograd/numpy/linalg.py", dict(anp=anp, npla=types.SimpleNamespace(), partial=partial, defvjp=rv.defvjp, defjvp=rj.defjvp, defvjp_argnum=rv.defvjp_argnum,
                                                              defjvp_argnum=rj.defjvp_argnum, def_linear=rj.def_linear, isbox=lambda x: True, wrap_namespace=wrap_namespace,
                                                              unbroadcast_f=_cache["ns_v"]["unbroadcast_f"], unbroadcast=_cache["ns_v"]["unbroadcast"], primitive=rv.primitive))
    _cache["la"] = (rv, rj, la, anp, dropped)
    _cache["la_ns"] = ns
    return _cache["la"]


def _linalg_cases(tier):
    A = lambda *d, kind="real": ("A", d, kind)
    C = []
    batches = [(), ("p",), ("p", "q")] if tier == "quick" else [(), ("p",), ("p", "q"), ("p", "q", "r")]
    for b in batches:
        for kind in ("real", "complex"):
            k = "" if kind == "real" else " complex"
            C.append((f"inv{b}{k}", "inv", [A(*b, "n", "n", kind=kind)], {}, (0,)))
            C.append((f"det{b}{k}", "det", [A(*b, "n", "n", kind=kind)], {}, (0,)))
            C.append((f"slogdet{b}{k}", "slogdet", [A(*b, "n", "n", kind=kind)], {}, (0,)))
            C.append((f"cholesky{b}{k}", "cholesky", [A(*b, "n", "n", kind=kind)], {}, (0,)))
            C.append((f"pinv{b}{k}", "pinv", [A(*b, "m", "n", kind=kind)], {}, (0,)))
            C.append((f"eigh{b}{k}", "eigh", [A(*b, "n", "n", kind=kind)], {}, (0,)))
            C.append((f"eigh UPLO=U{b}{k}", "eigh", [A(*b, "n", "n", kind=kind)], {"UPLO": "U"}, (0,)))
            C.append((f"eig{b}{k}", "eig", [A(*b, "n", "n", kind=kind)], {}, (0,)))
            C.append((f"svd thin{b}{k}", "svd", [A(*b, "m", "n", kind=kind)], {"full_matrices": False}, (0,)))
            C.append((f"svd values only{b}{k}", "svd", [A(*b, "m", "n", kind=kind)], {"compute_uv": False}, (0,)))
        # solve: every NumPy-2 shape class - matrix rhs with the same / no / broadcasting batch, 1-D vector rhs
        C.append((f"solve{b} A x B same batch", "solve", [A(*b, "n", "n"), A(*b, "n", "k")], {}, (0, 1)))
        C.append((f"solve{b} A x vector", "solve", [A(*b, "n", "n"), A("n")], {}, (0, 1)))
        C.append((f"solve one A x B{b}", "solve", [A("n", "n"), A(*b, "n", "k")], {}, (0, 1)))
        if b:
            C.append((f"solve A{b} x one B", "solve", [A(*b, "n", "n"), A("n", "k")], {}, (0, 1)))
            C.append((f"solve bcast batch {b}", "solve", [A(*((1,) + b[1:]), "n", "n"), A(*(b[:1] + (1,) * (len(b) - 1)), "n", "k")], {}, (0, 1)))
    for shp, axes in ((("a",), (None, 0, -1)), (("a", "b"), (None, 0, 1, -1, (0, 1), (1, 0), (-2, -1))), (("a", "b", "c"), (0, -1, (0, 2), (2, 0), (1, -1)))):
        for ax in axes:
            for kind in ("real", "complex"):
                for ord_ in ((None,) if tier == "quick" else (None, 2, 3)):
                    if isinstance(ax, tuple) and ord_ not in (None,):
                        continue
                    kw = {} if ax is None else {"axis": ax}
                    C.append((f"norm{shp} axis={ax} ord={ord_} {kind}", "norm", [A(*shp, kind=kind)] + ([("lit", ord_)] if ord_ is not None else []), kw, (0,)))
    for shp, axes in ((("a", "b"), (None, (0, 1), (1, 0), (-2, -1))), (("a", "b", "c"), ((0, 2), (2, 0), (1, -1), (-1, 0)))):
        for ax in axes:
            for kind in ("real", "complex"):
                for ord_ in ("nuc", "fro"):
                    kw = {} if ax is None else {"axis": ax}
                    C.append((f"norm{shp} axis={ax} ord={ord_} {kind}", "norm", [A(*shp, kind=kind), ("lit", ord_)], kw, (0,)))
    return C


def run_linalg(rep, tier):
    """E3 for autograd/numpy/linalg.py: for ALL sizes of the matrix and batch dimensions, the reverse rule returns an array of the argument's shape and kind
    (forward rules where the module registers them)."""
    try:
        rv, rj, la, anp, dropped = load_linalg()
    except CheckerError as e:
        rep.obligation("E3:linalg:load", False, "-", 0, "E3")
        rep.violation("E3:linalg:load", "autograd/numpy/linalg.py", f"the module no longer loads on the abstract namespace: {e}", witness=False, solver_output=str(e))
        return
    import types as _types
    for nm_, ob_ in sorted(_cache["la_ns"].items()):
        if isinstance(ob_, _types.FunctionType) and getattr(ob_, "__module__", "") == "shadow:autograd/numpy/linalg.py" and ob_.__name__ != "<lambda>":
            rep.function(f"autograd.numpy.linalg.{nm_}", ob_)
    rep.function("autograd/numpy/linalg.py (module-level defvjp/defjvp lambdas)", __import__("os").path.join(__import__("vlib.common", fromlist=["REPO"]).REPO, "autograd/numpy/linalg.py"))
    cases = _linalg_cases(tier)
    rep.bound(f"E3 linalg: {len(cases)} call forms (inv/det/slogdet/cholesky/pinv/eigh/eig/svd with 0..{2 if tier == 'quick' else 3} batch dimensions, real and complex; solve in every NumPy-2 shape class "
              "incl. broadcasting batches; norm over axis / axis pairs) enumerated; all dimension sizes symbolic")
    rep.assume("NumPy-2 shape contracts of numpy.linalg in vlib/shapex.linalg_impls (inv, det, slogdet, cholesky, pinv, solve, eigh, eig, svd, norm): assumed, audited against NumPy on concrete sizes in every run; nuclear norm and svd(full_matrices=True) raise / are not modelled")
    npaths = 0
    for label, name, spec, kwargs, argnums in cases:
        for a in argnums:
            for mode in ("vjp", "jvp"):
                case = f"{label}|arg{a}|{mode}"

                def harness(L, name=name, spec=spec, kwargs=kwargs, a=a, mode=mode):
                    _enter_primal()
                    args = _sym_args(L, spec, {})
                    ans = getattr(la, name)(*args, **kwargs)
                    _enter_rule()      # acceptance conditions of the PRIMAL call are preconditions; inside the rule, broadcasts are additionally recorded (diagnostic)
                    tgt = args[a]
                    mkcot = lambda v: tuple(mkcot(u) for u in v) if isinstance(v, tuple) else sx.SArr(sx.shape_of(v), sx.kind_of(v))
                    if mode == "vjp":
                        mk = rv.vjps.get((name, a))
                        if mk is None:
                            return None
                        res = mk(ans, *args, **kwargs)(mkcot(ans))
                        want = (sx.shape_of(tgt), sx.kind_of(tgt))
                    else:
                        r_ = rj.jvps.get((name, a))
                        if not callable(r_):
                            return None
                        res = r_(mkcot(tgt), ans, *args, **kwargs)
                        if isinstance(ans, tuple):
                            return None
                        want = (sx.shape_of(ans), sx.kind_of(ans))
                    if not isinstance(res, sx.SArr):
                        return None
                    return (sx.shape_of(res), sx.kind_of(res)), list(_state["oblig"]), want

                try:
                    results, _ = cx.explore(harness)
                except (shadow.NotModelled, CheckerError) as e:
                    rep.uncover(f"E3 linalg: {case}: {e}"[:160])
                    continue
                for r in results:
                    if r.exc is None and r.value is None:
                        continue
                    npaths += 1
                    if r.exc is None:
                        res, obl, want = r.value
                        r.value = (res, obl)
                    else:
                        res, want = None, (None, None)
                        if isinstance(r.exc, (shadow.NotModelled, NotImplementedError)):
                            rep.uncover(f"E3 linalg: {case}: {type(r.exc).__name__}: {str(r.exc)[:60]}")
                            continue
                    _check_leaf(rep, tier, f"{mode}:linalg.{name}:{case}", r, res, want[0], want[1], case,
                                dict(module="contracts.rules_shape", family="linalg", label=label, argnum=a, mode=mode))
    rep.extra["e3_linalg_paths"] = npaths
    audit_linalg(rep)


def sym_shape(L, tag, rank):
    dims = []
    for i in range(rank):
        d = L.int(f"{tag}{i}")
        if L.model is None:
            cx.assume(d >= 0)
        dims.append(d)
    return tuple(dims)


def _check_leaf(rep, tier, name, r, res, target_shape, target_kind, case, replay_spec):
    """obligations at one explored leaf"""
    out = []
    if r.exc is not None:
        if isinstance(r.exc, (ValueError,)):  # NumPy would reject the primal call for these sizes / the rule raises: 'or raises'
            return
        rep.obligation(f"{name}:no-exception", False, "-", 0, "E3")
        rep.violation(f"E3:{name.split(':')[0]}", case, f"rule body raised {type(r.exc).__name__}: {r.exc} on abstract arrays", witness=False, solver_output=str(r.exc), replay=replay_spec)
        return
    res_shape, res_kind = res
    goals = [("shape", sx.same_dims(res_shape, target_shape)), ("kind", z3.BoolVal(res_kind == target_kind))]
    for nm, pc, f in r.value[1]:
        if nm.startswith("diag:"):
            from vlib.smt import prove as _prove
            if _prove(pc, f)[0] != "proved":
                DIAG.setdefault("|".join(case.split("|")[:4]), set()).add(str(z3.simplify(f))[:80])
            continue
        goals.append((nm, f))
        r_pc = pc
    for cl, g in goals:
        pc = r.pc
        if cl.startswith("diag:"):
            continue
        if rep.is_known(f"E3:{name.split(':')[0]}:{cl}", case):
            # a recorded finding: decided without registering an obligation (reported as KNOWN-FINDING if it still fails, silently gone if it was repaired)
            from vlib.smt import prove
            if prove(pc, g)[0] != "proved":
                rep.violation(f"E3:{name.split(':')[0]}:{cl}", case, "known")
            continue
        verdict, m = cx.check_clause(rep, f"{name}:{cl}", pc, g, tier, engine="E3", sample=(f"pc={pc} |- {z3.simplify(g)}"[:400] if len(rep.samples) < 5 else None))
        if verdict == "unknown":
            rep.note(f"E3 {name}:{cl}: undecided by the solvers within the budget (the obligation stays undischarged: exit 2, not a violation)")
            continue
        if verdict != "proved":
            m = m or cx.path_model(pc)
            sizes = {str(d): int(m[d].as_long()) for d in m.decls() if z3.is_int_value(m[d])} if m is not None else {}
            spec = dict(replay_spec, sizes=sizes, clause=cl)
            ok, obs, exp = replay(spec)
            rep.violation(f"E3:{name.split(':')[0]}:{cl}", case, f"{case} with sizes {sizes}: {obs}", replay=spec, witness=not ok, solver_output=str(m)[:200])


def run(rep, tier):
    rv, rj, anp, dropped = load()
    R = 2 if tier == "quick" else 3
    rep.bound(f"E3: binary ufunc rules ({len(BINARY)}) x 2 args x rank pairs 0..{R} x (array|Python scalar) x real/complex mixes; reduction rules ({len(REDUCE)}) x ranks 0..{R} x every "
              "int axis incl. negative, tuples, None x keepdims - enumerated; all dimension sizes symbolic")
    rep.assume("NumPy shape contracts of vlib/shapex.py (broadcasting, reductions with axis/keepdims, reshape size preservation, where, expand_dims, zeros): assumed, audited on small cases")
    npaths = 0
    # ---- binary ufuncs ------------------------------------------------------------------------------------------------------
    for name in BINARY:
        for rx, ry in itertools.product(range(R + 1), repeat=2):
            for kx, ky in (("real", "real"), ("real", "complex"), ("complex", "real")):
                if name in ("maximum", "minimum", "fmax", "fmin", "mod", "remainder", "arctan2", "hypot", "logaddexp", "logaddexp2") and "complex" in (kx, ky):
                    continue
                for scalar in (None, 0, 1):
                    if scalar is not None and ((rx, ry)[scalar] != 0 or (kx, ky) != ("real", "real")):
                        continue
                    for a in (0, 1):
                        if scalar == a:
                            continue  # differentiating w.r.t. a Python float argument: covered by the rank-0 array case
                        for mode in ("vjp", "jvp"):
                            case = f"{name}|r{rx}{ry}|{kx[0]}{ky[0]}|{'s%d' % scalar if scalar is not None else 'aa'}|arg{a}|{mode}"

                            def harness(L, name=name, rx=rx, ry=ry, kx=kx, ky=ky, scalar=scalar, a=a, mode=mode):
                                _enter_primal()
                                x = 1.5 if scalar == 0 else sx.SArr(sym_shape(L, "x", rx), kx)
                                y = 2.5 if scalar == 1 else sx.SArr(sym_shape(L, "y", ry), ky)
                                ans = sx.SArr(sx.bshape(sx.shape_of(x), sx.shape_of(y)), sx.promote("real", sx.kind_of(x), sx.kind_of(y)))
                                _o = _state["oblig"]
                                _enter_rule()
                                _state["oblig"].extend(_o)
                                tgt = (x, y)[a]
                                if mode == "vjp":
                                    mk = rv.vjps.get((name, a))
                                    if mk is None:
                                        return None
                                    g = sx.SArr(ans.shape, ans.kind)
                                    res = mk(ans, x, y)(g)
                                    want = (sx.shape_of(tgt), sx.kind_of(tgt) if sx.kind_of(tgt) == "complex" else "real")
                                else:
                                    rule = "same" if name in rj.linear else rj.jvps.get((name, a), "absent")
                                    if isinstance(rule, str) and rule == "absent":
                                        return None
                                    g = sx.SArr(sx.shape_of(tgt), sx.kind_of(tgt) if isinstance(tgt, sx.SArr) else "real")
                                    if rule is None:
                                        return None
                                    if isinstance(rule, str):
                                        res = getattr(anp, name)(*[g if i == a else v for i, v in enumerate((x, y))])
                                    else:
                                        res = rule(g, ans, x, y)
                                    want = (ans.shape, ans.kind)
                                return (sx.shape_of(res), sx.kind_of(res)), list(_state["oblig"]), want

                            try:
                                results, _ = cx.explore(harness)
                            except (shadow.NotModelled,) as e:
                                rep.uncover(f"E3: {case}: {e}")
                                continue
                            for r in results:
                                if r.exc is None and r.value is None:
                                    continue
                                npaths += 1
                                if r.exc is None:
                                    res, obl, want = r.value
                                    r.value = (res, obl)
                                else:
                                    res, want = None, (None, None)
                                    if isinstance(r.exc, shadow.NotModelled):
                                        rep.uncover(f"E3: {case}: unmodelled {r.exc}")
                                        continue
                                _check_leaf(rep, tier, f"{mode}:{name}:{case}", r, res, want[0], want[1], case,
                                            dict(module="contracts.rules_shape", family="binary", name=name, rx=rx, ry=ry, kx=kx, ky=ky, scalar=scalar, argnum=a, mode=mode))
    # ---- reductions ---------------------------------------------------------------------------------------------------------
    for name in REDUCE:
        for rx in range(R + 1):
            axes = [None] + list(range(-rx, rx)) + ([(0, 1), (1, 0), (-1, 0)] if rx >= 2 else []) + ([(-2, -1)] if rx >= 2 else []) + ([(0, 2), (2, 0, 1), (-2, -1), (-1, -3), (1, -1)] if rx >= 3 else [])
            for axis in axes:
                if name == "prod" and isinstance(axis, tuple):
                    continue
                for kd in (False, True):
                    for kx in ("real", "complex"):
                        if kx == "complex" and name in ("max", "min", "amax", "amin"):
                            continue
                        for mode in ("vjp", "jvp"):
                            case = f"{name}|r{rx}|axis={axis}|keepdims={kd}|{kx[0]}|{mode}"

                            def harness(L, name=name, rx=rx, axis=axis, kd=kd, kx=kx, mode=mode):
                                _enter_primal()
                                x = sx.SArr(sym_shape(L, "x", rx), kx)
                                if L.model is None and name in ("max", "min", "amax", "amin", "mean", "var", "std"):
                                    for d in x.shape:
                                        cx.assume(d >= 1)   # NumPy rejects max/min of an empty axis; mean/var of empty is nan with a warning
                                ans = getattr(anp, name)(x, axis=axis, keepdims=kd)
                                if name in ("var", "std", "max", "min", "amax", "amin") and kx == "complex":
                                    ans = sx.SArr(ans.shape, "real")
                                _o = _state["oblig"]
                                _enter_rule()
                                _state["oblig"].extend(_o)
                                if mode == "vjp":
                                    mk = rv.vjps.get((name, 0))
                                    if mk is None:
                                        return None
                                    g = sx.SArr(ans.shape, ans.kind)
                                    res = mk(ans, x, axis=axis, keepdims=kd)(g)
                                    want = (x.shape, x.kind)
                                else:
                                    rule = "same" if name in rj.linear else rj.jvps.get((name, 0), "absent")
                                    if isinstance(rule, str) and rule == "absent" or rule is None:
                                        return None
                                    g = sx.SArr(x.shape, x.kind)
                                    res = getattr(anp, name)(g, axis=axis, keepdims=kd) if isinstance(rule, str) else rule(g, ans, x, axis=axis, keepdims=kd)
                                    want = (ans.shape, ans.kind)
                                return (sx.shape_of(res), sx.kind_of(res)), list(_state["oblig"]), want

                            try:
                                results, _ = cx.explore(harness)
                            except shadow.NotModelled as e:
                                rep.uncover(f"E3: {case}: {e}")
                                continue
                            for r in results:
                                if r.exc is None and r.value is None:
                                    continue
                                npaths += 1
                                if r.exc is None:
                                    res, obl, want = r.value
                                    r.value = (res, obl)
                                else:
                                    res, want = None, (None, None)
                                    if isinstance(r.exc, (shadow.NotModelled, NameError)):
                                        rep.note(f"E3: {case}: {type(r.exc).__name__}: {r.exc}") if len(rep.notes) < 30 else None
                                        continue
                                _check_leaf(rep, tier, f"{mode}:{name}:{case}", r, res, want[0], want[1], case,
                                            dict(module="contracts.rules_shape", family="reduce", name=name, rx=rx, axis=list(axis) if isinstance(axis, tuple) else axis,
                                                 keepdims=kd, kx=kx, mode=mode))
    rep.extra["e3_paths"] = npaths
    if npaths == 0:
        rep.error("E3 explored no path")


# ---------------------------------------------------------------------------------------------------------------------
# structural families: (label, primitive, args spec, kwargs, differentiated argnums)
#   args spec item: ("A", (dim names...)[, kind]) = array whose dims are the named symbols (an int literal in the tuple = that fixed size),
#                   ("lit", value) = a literal argument
UNARY_REAL_AND_COMPLEX = ("exp", "log", "sin", "cos", "tan", "sinh", "cosh", "tanh", "sqrt", "square", "reciprocal", "negative", "abs", "absolute", "real", "imag", "conj", "conjugate", "angle",
                          "real_if_close")
UNARY_REAL = ("arcsin", "arccos", "arctan", "arcsinh", "arccosh", "arctanh", "log2", "log10", "log1p", "expm1", "exp2", "sinc", "deg2rad", "rad2deg", "degrees", "radians", "fabs", "nan_to_num", "sign")


def _struct_cases(tier):
    C = []
    A = lambda *dims, kind="real": ("A", dims, kind)
    # element-wise unary rules: the gradient has the argument's shape and kind, the tangent the output's (abs/angle/real/imag of a complex argument are REAL)
    for nm in UNARY_REAL_AND_COMPLEX + UNARY_REAL:
        for dims in ((), ("n",), ("n", "m")) + ((("b", "n", "m"),) if tier == "thorough" else ()):
            for kind in (("real", "complex") if nm in UNARY_REAL_AND_COMPLEX else ("real",)):
                C.append((f"{nm}{dims}|{kind}", nm, [A(*dims, kind=kind)], {}, (0,)))
    for sa, sb in ((("k",), ("k",)), (("k",), ("k", "m")), (("n", "k"), ("k",)), (("n", "k"), ("k", "m")), (("b", "n", "k"), ("k", "m")), (("n", "k"), ("b", "k", "m")),
                   (("b", "n", "k"), ("b", "k", "m")), (("b", "n", "k"), ("k",)), (("k",), ("b", "k", "m")), ((1, "n", "k"), ("b", "k", "m")), (("c", 1, "n", "k"), ("b", "k", "m"))):
        C.append((f"matmul{sa}x{sb}", "matmul", [A(*sa), A(*sb)], {}, (0, 1)))
    for sa, sb in (((), ("k",)), (("k",), ()), (("k",), ("k",)), (("n", "k"), ("k",)), (("k",), ("k", "m")), (("n", "k"), ("k", "m")), (("b", "n", "k"), ("k", "m")), (("n", "k"), ("b", "k", "m")),
                   (("b", "n", "k"), ("c", "k", "m")), (("b", "n", "k"), ("k",)), ((), ("n", "k")), (("n", "k"), ())):
        C.append((f"dot{sa}x{sb}", "dot", [A(*sa), A(*sb)], {}, (0, 1)))
    for sa, sb in ((("k",), ("k",)), (("n", "k"), ("k",)), (("n", "k"), ("m", "k")), ((), ("n", "k")), (("n", "k"), ()), (("b", "n", "k"), ("m", "k")), (("n", "k"), ("b", "m", "k")), (("a", "n", "k"), ("b", "m", "k")), (("k",), ("b", "m", "k")), (("n", "k"), ("n", "n", "k"))):
        C.append((f"inner{sa}x{sb}", "inner", [A(*sa), A(*sb)], {}, (0, 1)))
    C.append(("outer(n)x(m)", "outer", [A("n"), A("m")], {}, (0, 1)))
    for axes, sa, sb in ((0, ("n",), ("m",)), (1, ("n", "k"), ("k", "m")), (2, ("n", "k", "l"), ("k", "l", "m")), (([1], [0]), ("n", "k"), ("k", "m")), (([0], [1]), ("k", "n"), ("m", "k")),
                         (([0, 1], [1, 0]), ("k", "l"), ("l", "k", "m")), (([1, 2], [2, 0]), ("n", "k", "l"), ("l", "m", "k")), (([0, 1], [2, 1]), ("k", "l", "n"), ("m", "l", "k")),
                         (([-1], [0]), ("n", "k"), ("k", "m")), (([1, 0], [0, 1]), ("l", "k"), ("k", "l", "m")), (([2, 0], [0, 1]), ("l", "n", "k"), ("k", "l", "m")), ((1, 0), ("n", "k"), ("k", "m")),
                         (0, (), ("m",)), (0, ("n",), ())):
        C.append((f"tensordot(axes={axes}){sa}x{sb}", "tensordot", [A(*sa), A(*sb)], {"axes": axes}, (0, 1)))
    for sub, shapes in (("ij,jk->ik", [("i", "j"), ("j", "k")]), ("ij,ij->", [("i", "j"), ("i", "j")]), ("ii->i", [("i", "i")]), ("ij->ji", [("i", "j")]), ("i,i", [("i",), ("i",)]),
                        ("ij,j", [("i", "j"), ("j",)]), ("...ij,...jk->...ik", [("b", "i", "j"), ("j", "k")]), ("...ij,...jk->...ik", [("i", "j"), ("b", "c", "j", "k")]),
                        ("i...,i...->...", [("i", "a"), ("i", "a")]), ("...i,...i->...", [("a", "i"), ("i",)]), ("i...j,j->i...", [("i", "a", "j"), ("j",)]),
                        ("ij,jk,kl->il", [("i", "j"), ("j", "k"), ("k", "l")]), ("ijk->kji", [("i", "j", "k")]), ("ij->", [("i", "j")]), ("ij->j", [("i", "j")]), ("i,j->ij", [("i",), ("j",)]),
                        ("...->...", [("a", "b")]), ("a...b,b...->a...", [("a", "c", "b"), ("b", "c")]), ("...a,...a->...", [("a",), ("c", "a")]), ("ij...,jk...->ik...", [("i", "j"), ("j", "k", "c", "d")])):
        C.append((f"einsum('{sub}'){shapes}", "einsum", [("lit", sub)] + [A(*sh) for sh in shapes], {}, tuple(range(1, len(shapes) + 1))))
    for sub, shapes in (("ij,ij->ij", [("i", "j"), ("i2", "j")]), ("ij,ij->ij", [("i", "j"), ("i", "j2")]), ("...ij,...jk->...ik", [("b", "i", "j"), ("b2", "j", "k")]),
                        ("i,i->i", [("i",), ("i2",)]), ("ij,jk->ik", [("i", "j"), ("j2", "k")])):
        C.append((f"einsum('{sub}' bcast){shapes}", "einsum", [("lit", sub)] + [A(*sh) for sh in shapes], {}, tuple(range(1, len(shapes) + 1))))
    # diag / trace / full / linspace / kron / diff / cross
    for k in (0, 1, -1, 2):
        C.append((f"diag(1-D,k={k})", "diag", [A("n")], {"k": k}, (0,)))
        C.append((f"diag(2-D,k={k})", "diag", [A("n", "m")], {"k": k}, (0,)))
        C.append((f"diag(square,k={k})", "diag", [A("n", "n")], {"k": k}, (0,)))
    for off in (0, 1, -1):
        C.append((f"trace(offset={off})", "trace", [A("n", "m")], {"offset": off}, (0,)))
        C.append((f"trace(3-D,offset={off})", "trace", [A("n", "m", "c")], {"offset": off}, (0,)))
    for fdims in ((), ("m",), (1, "m"), ("n", 1)):
        C.append((f"full((n,m), fill{fdims})", "full", [("shape", ("n", "m")), A(*fdims)], {}, (1,)))
    C.append(("linspace(scalars)", "linspace", [A(), A(), ("lit", 5)], {}, (0, 1)))
    C.append(("linspace(arrays)", "linspace", [A("n"), A("n"), ("lit", 4)], {}, (0, 1)))
    # end points that broadcast against each other (scalar against array, column against row, N-D)
    for ss, st in (((), ("n",)), (("n",), ()), (("n", 1), ("m",)), (("n", "m"), ("m",)), (("n", "m"), ("n", "m")), ((1,), ("n",))):
        C.append((f"linspace start{ss} stop{st}", "linspace", [A(*ss), A(*st), ("lit", 4)], {}, (0, 1)))
    for sa, sb in ((("n",), ("m",)), (("n", "k"), ("m", "l")), (("n",), ("m", "l")), (("n", "k"), ("m",)), ((), ("m",)), (("n", "k"), ())):
        C.append((f"kron{sa}x{sb}", "kron", [A(*sa), A(*sb)], {}, (0, 1)))
    for n_, ax, dims in ((1, -1, ("n",)), (2, -1, ("n",)), (1, 0, ("n", "m")), (1, 1, ("n", "m")), (2, 0, ("n", "m")), (3, -1, ("n", "m"))):
        C.append((f"diff(n={n_},axis={ax}){dims}", "diff", [A(*dims)], {"n": n_, "axis": ax}, (0,)))
    for sa, sb in (((3,), (3,)), (("n", 3), ("n", 3)), (("n", 3), (3,)), ((3,), ("n", 3)), ((1, 3), ("n", 3)), (("b", "n", 3), ("n", 3))):
        C.append((f"cross{sa}x{sb}", "cross", [A(*sa), A(*sb)], {}, (0, 1)))
    for lab, spec_ in (("list-form", [A("i", "j"), ("lit", [0, 1]), A("j", "k"), ("lit", [1, 2]), ("lit", [0, 2])]),
                       ("list-form ellipsis-mid", [A("i", "c", "j"), ("lit", [0, Ellipsis, 1]), A("j", "k"), ("lit", [1, 2]), ("lit", [0, Ellipsis, 2])]),
                       ("list-form ellipsis-mid bcast", [A("i", "j"), ("lit", [0, Ellipsis, 1]), A("i", "c", "j"), ("lit", [0, Ellipsis, 1]), ("lit", [0, Ellipsis])]),
                       ("list-form ellipsis-tail bcast2", [A("i", "j"), ("lit", [0, 1, Ellipsis]), A("j", "k", "c", "d"), ("lit", [1, 2, Ellipsis]), ("lit", [0, 2, Ellipsis])]),
                       ("list-form ellipsis-tail rank-diff", [A("i", "j"), ("lit", [0, Ellipsis]), A("i", "c", "j"), ("lit", [0, Ellipsis]), ("lit", [0, Ellipsis])]),
                       ("list-form labelled bcast", [A("i", "j"), ("lit", [0, 1]), A("i2", "j"), ("lit", [0, 1]), ("lit", [0, 1])]),
                       ("list-form contracted bcast", [A("i", "j"), ("lit", [0, 1]), A("j2", "k"), ("lit", [1, 2]), ("lit", [0, 2])]),
                       ("list-form ellipsis-head bcast2", [A("i", "j"), ("lit", [Ellipsis, 0, 1]), A("c", "d", "j", "k"), ("lit", [Ellipsis, 1, 2]), ("lit", [Ellipsis, 0, 2])])):
        C.append((f"einsum({lab})", "einsum", spec_, {}, (0, 2)))
    C.append(("tensordot(default)", "tensordot", [A("n", "k", "l"), A("k", "l", "m")], {}, (0, 1)))
    for axes in (None, (1, 0), (-1, 0), (0, -1)):
        C.append((f"transpose({axes})", "transpose", [A("a", "b"), ("lit", axes)], {}, (0,)))
    for axes in ((2, 0, 1), (1, 2, 0), (-1, 0, 1), (0, -1, -2), (-2, -1, 0)):
        C.append((f"transpose({axes})", "transpose", [A("a", "b", "c"), ("lit", axes)], {}, (0,)))
    for a1, a2 in ((0, 1), (0, 2), (-1, 0), (1, -1)):
        C.append((f"swapaxes({a1},{a2})", "swapaxes", [A("a", "b", "c"), ("lit", a1), ("lit", a2)], {}, (0,)))
    for s_, d_ in ((0, 2), (2, 0), (-1, 0), (0, -1), ((0, 1), (2, 0))):
        C.append((f"moveaxis({s_},{d_})", "moveaxis", [A("a", "b", "c"), ("lit", s_), ("lit", d_)], {}, (0,)))
    for ax, st in ((2, 0), (0, 3), (1, 0), (0, 2), (2, 1), (1, 3)):
        C.append((f"rollaxis({ax},{st})", "rollaxis", [A("a", "b", "c"), ("lit", ax), ("lit", st)], {}, (0,)))
    C.append(("reshape(flat)", "reshape", [A("a", "b"), ("shape", ("a*b",))], {}, (0,)))
    C.append(("reshape(2-D->3-D)", "reshape", [A("a", "b"), ("shape", ("a", 1, "b"))], {}, (0,)))
    C.append(("ravel", "ravel", [A("a", "b", "c")], {}, (0,)))
    for ax in (0, 1, -1, 2, (0, 2)):
        C.append((f"expand_dims({ax})", "expand_dims", [A("a", "b"), ("lit", ax)], {}, (0,)))
    for ax in (None, 0, -1, (0, 2)):
        C.append((f"squeeze({ax})", "squeeze", [A(1, "b", 1)], {"axis": ax}, (0,)))
    for f_ in ("atleast_1d", "atleast_2d", "atleast_3d"):
        for dims in ((), ("a",), ("a", "b"), ("a", "b", "c")):
            C.append((f"{f_}{dims}", f_, [A(*dims)], {}, (0,)))
    for f_ in ("flipud", "fliplr", "triu", "tril"):
        C.append((f_, f_, [A("a", "b")], {}, (0,)))
    for k_ in (1, 2, 3, -1):
        C.append((f"rot90({k_})", "rot90", [A("a", "b"), ("lit", k_)], {}, (0,)))
    for sh, ax in ((1, None), (2, 0), (-1, 1)):
        C.append((f"roll({sh},{ax})", "roll", [A("a", "b"), ("lit", sh)], {"axis": ax}, (0,)))
    for ax in (None, 0, 1, -1, -2):
        C.append((f"cumsum({ax})", "cumsum", [A("a", "b")], {"axis": ax}, (0,)))
    for ax in (0, 1, -1, -2):
        other = ("a2", "b") if ax in (0, -2) else ("a", "b2")
        third = ("a3", "b") if ax in (0, -2) else ("a", "b3")
        C.append((f"concatenate_args(axis={ax})", "concatenate_args", [("lit", ax), A("a", "b"), A(*other), A(*third)], {}, (1, 2, 3)))
    for ax in (None, 0, 1, -1, -2):
        C.append((f"repeat(2,axis={ax})", "repeat", [A("a", "b"), ("lit", 2)], {"axis": ax}, (0,)))
    C.append(("repeat(3,axis=-1) size-1", "repeat", [A("a", 1), ("lit", 3)], {"axis": -1}, (0,)))
    for reps in (2, (2,), (2, 1), (1, 2), (2, 3), (2, 1, 2)):
        C.append((f"tile({reps}) 2-D", "tile", [A("a", "b"), ("lit", reps)], {}, (0,)))
        C.append((f"tile({reps}) 1-D", "tile", [A("a",), ("lit", reps)], {}, (0,)))
    for w in (1, (1, 2), ((1, 2),), ((1, 0), (0, 2))):
        C.append((f"pad({w})", "pad", [A("a", "b"), ("lit", w), ("lit", "constant")], {}, (0,)))
    for sc, sx_, sy in ((("a", "b"), ("a", "b"), ("a", "b")), (("a", "b"), ("b",), ("a", 1)), (("b",), (), ("b",)), (("a", "b"), (), ()), (("b",), ("a", "b"), ("b",))):
        C.append((f"where{sc}{sx_}{sy}", "where", [("A", sc, "bool"), A(*sx_), A(*sy)], {}, (1, 2)))
    C.append(("clip", "clip", [A("a", "b"), ("lit", 0.5), ("lit", 2.0)], {}, (0,)))
    # array-valued bounds that broadcast the clipped array to a LARGER shape
    for sx_, slo, shi in (((), ("a",), ("a",)), (("b",), ("a", "b"), ()), (("b",), (), ("a", "b")), (("a", 1), (1, "b"), ("a", "b")), (("a", "b"), ("b",), ("a", 1)), (("a", "b"), ("a", "b"), ("a", "b"))):
        C.append((f"clip{sx_} lo{slo} hi{shi}", "clip", [A(*sx_), A(*slo), A(*shi)], {}, (0,)))
    for shp in (("a", "b"), ("c", "a", "b"), ("a", "a")):
        for kw in ({"axis1": -1, "axis2": -2}, {"axis1": -2, "axis2": -1}, {}, {"offset": 1, "axis1": -1, "axis2": -2}, {"axis1": 0, "axis2": -1}):
            C.append((f"diagonal{shp}{kw}", "diagonal", [A(*shp)], kw, (0,)))
    for shp in (("a",), ("c", "a")):
        C.append((f"make_diagonal{shp}", "make_diagonal", [A(*shp)], {"axis1": -1, "axis2": -2}, (0,)))
    for src, dst in (((1, "b"), ("a", "b")), (("a", 1), ("a", "b")), ((1, 1), ("a", "b")),
                     # dimensions PREPENDED by the broadcast (the rule may refuse them; if it answers, the cotangent has x's shape)
                     (("a", 1), ("c", "a", "b")), ((1, "b"), ("c", "a", "b")), (("b",), ("a", "b")), (("a", 1, "b"), ("c", "a", "d", "b"))):
        C.append((f"broadcast_to{src}->{dst}", "broadcast_to", [A(*src), ("shape", dst)], {}, (0,)))
    return C


def _sym_args(L, spec, syms):
    """builds the abstract arguments; dims with the same name share one symbolic size"""
    def dim(d):
        if isinstance(d, int):
            return d
        if "*" in d:
            r = 1
            for q in d.split("*"):
                r = r * dim(q)
            return r
        if d not in syms:
            v = L.int(d)
            if L.model is None:
                cx.assume(v >= 0)
            syms[d] = v
        return syms[d]
    out = []
    for it in spec:
        if it[0] == "A":
            out.append(sx.SArr(tuple(dim(d) for d in it[1]), it[2] if len(it) > 2 else "real"))
        elif it[0] == "shape":
            out.append(tuple(dim(d) for d in it[1]))
        else:
            out.append(it[1])
    return out


def run_struct(rep, tier):
    rv, rj, anp, dropped = load()
    cases = _struct_cases(tier)
    rep.bound(f"E3 structural families: {len(cases)} call forms (matmul rank pairs incl. batch broadcasting, transpose/swapaxes/moveaxis/rollaxis, reshape/ravel/expand_dims/squeeze/atleast_nd, "
              "flips/rot90/roll/triu/tril/cumsum, concatenate, repeat, tile, pad, where, clip, broadcast_to) enumerated; all dimension sizes symbolic")
    npaths = 0
    for label, name, spec, kwargs, argnums in cases:
        for a in argnums:
            for mode in ("vjp", "jvp"):
                case = f"{label}|arg{a}|{mode}"

                def harness(L, name=name, spec=spec, kwargs=kwargs, a=a, mode=mode):
                    _enter_primal()
                    args = _sym_args(L, spec, {})
                    ans = getattr(anp, name)(*args, **kwargs)
                    _enter_rule()      # acceptance conditions of the PRIMAL call are preconditions; inside the rule, broadcasts are additionally recorded (diagnostic)
                    tgt = args[a]
                    if mode == "vjp":
                        if (name, a) in rv.vjps:
                            mk = rv.vjps[(name, a)]
                            if mk is None:
                                return None
                            vj = mk(ans, *args, **kwargs)
                        elif name in rv.vjp_argnum:
                            vj = rv.vjp_argnum[name](a, ans, tuple(args), kwargs)
                        else:
                            return None
                        g = sx.SArr(sx.shape_of(ans), sx.kind_of(ans))
                        res = vj(g)
                        want = (sx.shape_of(tgt), sx.kind_of(tgt))
                    else:
                        g = sx.SArr(sx.shape_of(tgt), sx.kind_of(tgt))
                        if name in rj.linear or rj.jvps.get((name, a)) == "same":
                            res = getattr(anp, name)(*[g if i == a else v for i, v in enumerate(args)], **kwargs)
                        elif (name, a) in rj.jvps and callable(rj.jvps[(name, a)]):
                            res = rj.jvps[(name, a)](g, ans, *args, **kwargs)
                        elif name in rj.jvp_argnum:
                            res = rj.jvp_argnum[name](a, g, ans, tuple(args), kwargs)
                        else:
                            return None
                        want = (sx.shape_of(ans), sx.kind_of(ans))
                    if not isinstance(res, sx.SArr):
                        return None     # e.g. a SparseObject-producing forward rule: outside the shape abstraction
                    return (sx.shape_of(res), sx.kind_of(res)), list(_state["oblig"]), want

                try:
                    results, _ = cx.explore(harness)
                except (shadow.NotModelled, CheckerError) as e:
                    rep.uncover(f"E3: {case}: {e}"[:160])
                    continue
                for r in results:
                    if r.exc is None and r.value is None:
                        continue
                    npaths += 1
                    if r.exc is None:
                        res, obl, want = r.value
                        r.value = (res, obl)
                    else:
                        res, want = None, (None, None)
                        if isinstance(r.exc, (shadow.NotModelled, NotImplementedError, NameError, AssertionError, TypeError, IndexError, AttributeError)):
                            rep.note(f"E3: {case}: {type(r.exc).__name__}: {str(r.exc)[:60]}") if len(rep.notes) < 40 else None
                            continue
                    _check_leaf(rep, tier, f"{mode}:{name}:{case}", r, res, want[0], want[1], case,
                                dict(module="contracts.rules_shape", family="struct", label=label, argnum=a, mode=mode))
    rep.extra["e3_struct_paths"] = npaths


def _native_struct(spec):
    import numpy as onp

    import autograd.numpy as anp
    from autograd.core import make_jvp, make_vjp
    sizes = spec.get("sizes", {})
    case = next((c for c in _struct_cases("thorough") if c[0] == spec["label"]), None)
    if case is None:
        return True, "case removed", ""
    label, name, aspec, kwargs, argnums = case

    def dim(d):
        if isinstance(d, int):
            return d
        if "*" in d:
            r = 1
            for q in d.split("*"):
                r *= dim(q)
            return r
        return max(0, int(sizes.get(d, 2)))
    args = []
    for it in aspec:
        if it[0] == "A":
            shp = tuple(dim(d) for d in it[1])
            n = int(onp.prod(shp)) if shp else 1
            arr = (onp.arange(n, dtype=float) * 0.37 + 0.4).reshape(shp)
            args.append(arr > 1.0 if (len(it) > 2 and it[2] == "bool") else arr)
        elif it[0] == "shape":
            args.append(tuple(dim(d) for d in it[1]))
        else:
            args.append(it[1])
    a = spec["argnum"]
    f = lambda z: getattr(anp, name)(*[z if i == a else v for i, v in enumerate(args)], **kwargs)
    try:
        if spec["mode"] == "vjp":
            vjp, val = make_vjp(f, args[a])
            r = onp.asarray(vjp(onp.ones(onp.shape(val))))
            return r.shape == onp.shape(args[a]), f"gradient shape {r.shape} for argument shape {onp.shape(args[a])}", "the argument's shape"
        val, t = make_jvp(f, args[a])(onp.ones(onp.shape(args[a])))
        return onp.shape(t) == onp.shape(val), f"tangent shape {onp.shape(t)} for output shape {onp.shape(val)}", "the output's shape"
    except Exception as e:
        return True, f"raises {type(e).__name__}: {str(e)[:80]} (allowed)", "-"


def _native_args(aspec, sizes):
    import numpy as onp

    def dim(d):
        return d if isinstance(d, int) else max(0, int(sizes.get(d, 2)))
    args = []
    for j, it in enumerate(aspec):
        if it[0] == "A":
            shp = tuple(dim(d) for d in it[1])
            n = int(onp.prod(shp)) if shp else 1
            arr = (onp.sin(onp.arange(n, dtype=float) * 1.7 + j) * 0.9 + 0.3).reshape(shp)
            if len(shp) >= 2 and shp[-1] == shp[-2]:
                arr = arr + 3.0 * onp.eye(shp[-1])       # well-conditioned
            if len(it) > 2 and it[2] == "complex":
                arr = arr + 1j * onp.cos(onp.arange(n, dtype=float) * 0.9 + j).reshape(shp) * 0.4
            args.append(arr)
        elif it[0] == "shape":
            args.append(tuple(dim(d) for d in it[1]))
        else:
            args.append(it[1])
    return args


def _native_linalg(spec):
    import numpy as onp

    import autograd.numpy as anp
    import autograd.numpy.linalg  # noqa
    from autograd.core import make_jvp, make_vjp
    case = next((c for c in _linalg_cases("thorough") if c[0] == spec["label"]), None)
    if case is None:
        return True, "case removed", ""
    label, name, aspec, kwargs, argnums = case
    args = _native_args(aspec, spec.get("sizes", {}))
    a = spec["argnum"]
    if name in ("cholesky", "eigh"):      # Hermitian positive definite argument
        M = args[0]
        args[0] = M @ onp.conj(onp.swapaxes(M, -1, -2)) + onp.eye(M.shape[-1])
    f = lambda z: getattr(anp.linalg, name)(*[z if i == a else v for i, v in enumerate(args)], **kwargs)
    try:
        if spec["mode"] == "vjp":
            vjp, val = make_vjp(f, args[a])
            ones = lambda v: tuple(ones(u) for u in v) if isinstance(v, tuple) else onp.ones(onp.shape(v), dtype=onp.asarray(v).dtype)
            r = onp.asarray(vjp(ones(val)))
            ok = r.shape == onp.shape(args[a]) and bool(onp.iscomplexobj(r)) == bool(onp.iscomplexobj(args[a]))
            return ok, f"gradient shape {r.shape} dtype {r.dtype} for argument shape {onp.shape(args[a])} dtype {args[a].dtype}", "the argument's shape and kind"
        val, t = make_jvp(f, args[a])(onp.ones(onp.shape(args[a]), dtype=args[a].dtype))
        return onp.shape(t) == onp.shape(val), f"tangent shape {onp.shape(t)} for output shape {onp.shape(val)}", "the output's shape"
    except Exception as e:
        return True, f"raises {type(e).__name__}: {str(e)[:80]} (allowed)", "-"


def _fft_native_args(aspec, sizes):
    import numpy as onp
    args = []
    for it in aspec:
        if it[0] == "N":
            args.append(max(1, int(sizes.get(it[1], 4))))
        elif it[0] == "NS":
            args.append(tuple(max(1, int(sizes.get(q, 4))) for q in it[1]))
        else:
            shp = tuple(max(1, int(sizes.get(d, 4))) if isinstance(d, str) else d for d in it[1])
            n = int(onp.prod(shp))
            arr = (onp.sin(onp.arange(n, dtype=float) * 1.3) + 0.2).reshape(shp)
            if len(it) > 2 and it[2] == "complex":
                arr = arr + 1j * onp.cos(onp.arange(n, dtype=float) * 0.7).reshape(shp)
            args.append(arr)
    return args


def _native_fft(spec):
    import numpy as onp

    import autograd.numpy as anp
    import autograd.numpy.fft  # noqa
    from autograd.core import make_vjp
    case = next((c for c in _fft_cases("thorough") if c[0] == spec["label"]), None)
    if case is None:
        return True, "case removed", ""
    label, name, aspec, kwargs, argnums = case
    args = _fft_native_args(aspec, spec.get("sizes", {}))
    f = lambda z: getattr(anp.fft, name)(z, *args[1:], **kwargs)
    try:
        vjp, val = make_vjp(f, args[0])
        r = onp.asarray(vjp(onp.ones(onp.shape(val), dtype=onp.asarray(val).dtype)))
        ok = r.shape == args[0].shape and bool(onp.iscomplexobj(r)) == bool(onp.iscomplexobj(args[0]))
        return ok, f"gradient shape {r.shape} dtype {r.dtype} for argument shape {args[0].shape} dtype {args[0].dtype}", "the argument's shape and kind"
    except Exception as e:
        return True, f"raises {type(e).__name__}: {str(e)[:80]} (allowed)", "-"


def audit_fft(rep):
    """the assumed numpy.fft shape contracts against NumPy itself on concrete sizes (every case of the family, several size assignments)"""
    import numpy as onp
    ff = sx.fft_impls()
    n = bad = 0
    for label, name, aspec, kwargs, argnums in _fft_cases("thorough"):
        syms = sorted({d for it in aspec if it[0] == "A" for d in it[1] if isinstance(d, str)} | {it[1] for it in aspec if it[0] == "N"} | {q for it in aspec if it[0] == "NS" for q in it[1]})
        for trial in range(4):
            sizes = {s_: (2 + (trial + 3 * i) % 5) for i, s_ in enumerate(syms)}
            args = _fft_native_args(aspec, sizes)
            try:
                real = getattr(onp.fft, name)(*args, **kwargs)
            except Exception:
                continue
            res_, _ = cx.explore(lambda L: ff[name](*[sx.SArr(v.shape, "complex" if onp.iscomplexobj(v) else "real") if isinstance(v, onp.ndarray) else v for v in args], **kwargs))
            n += 1
            okc = len(res_) == 1 and res_[0].exc is None
            if okc:
                ab = res_[0].value
                shp = tuple(int(d) if isinstance(d, int) else int(z3.simplify(sx.dim_term(d)).as_long()) for d in sx.shape_of(ab))
                okc = shp == tuple(real.shape) and sx.kind_of(ab) == ("complex" if onp.iscomplexobj(real) else "real")
            if not okc:
                bad += 1
                rep.violation("E3:fft:contract-audit", f"{label}|{sizes}", f"assumed contract of fft.{name} disagrees with NumPy (NumPy: {real.shape} {real.dtype})", witness=False,
                              solver_output="the ASSUMED NumPy contract is wrong (a defect of the checker, not of autograd)")
    rep.obligation("E3:fft:contract-audit", bad == 0 and n > 0, "numpy(ground)", 0, "E3")
    rep.extra["e3_fft_contract_audit_cases"] = n


def audit_linalg(rep):
    """The assumed shape contracts of numpy.linalg against NumPy itself on small concrete sizes (every case of the family, sizes 0..3 per symbol, deterministic sample)."""
    import numpy as onp
    la = sx.linalg_impls()
    n = bad = 0
    for label, name, aspec, kwargs, argnums in _linalg_cases("thorough"):
        syms = sorted({d for it in aspec if it[0] == "A" for d in it[1] if isinstance(d, str)})
        for trial in range(4):
            sizes = {s_: (1 + (trial + 2 * i) % 3) for i, s_ in enumerate(syms)}
            args = _native_args(aspec, sizes)
            if name in ("cholesky", "eigh"):
                M = args[0]
                args[0] = M @ onp.conj(onp.swapaxes(M, -1, -2)) + onp.eye(M.shape[-1])
            try:
                real = getattr(onp.linalg, name)(*args, **kwargs)
            except Exception:
                continue
            res_, _ = cx.explore(lambda L: la[name](*[sx.SArr(v.shape, "complex" if onp.iscomplexobj(v) else "real") if isinstance(v, onp.ndarray) else v for v in args], **kwargs))
            if len(res_) != 1 or res_[0].exc is not None:
                n += 1
                bad += 1
                rep.violation("E3:linalg:contract-audit", f"{label}|{sizes}", f"assumed contract of linalg.{name} rejects / forks on a call NumPy accepts: {res_[0].exc if res_ else 'infeasible'}", witness=False,
                              solver_output="the ASSUMED NumPy contract is wrong (a defect of the checker, not of autograd)")
                continue
            abstract = res_[0].value
            shp = lambda v: tuple(shp(u) for u in v) if isinstance(v, tuple) else tuple(int(d) if isinstance(d, int) else int(z3.simplify(sx.dim_term(d)).as_long()) for d in sx.shape_of(v))
            knd = lambda v: tuple(knd(u) for u in v) if isinstance(v, tuple) else sx.kind_of(v)
            rshp = lambda v: tuple(rshp(u) for u in v) if isinstance(v, tuple) else tuple(onp.shape(v))
            rknd = lambda v: tuple(rknd(u) for u in v) if isinstance(v, tuple) else ("complex" if onp.iscomplexobj(v) else "real")
            n += 1
            if shp(abstract) != rshp(tuple(real) if isinstance(real, tuple) else real) or knd(abstract) != rknd(tuple(real) if isinstance(real, tuple) else real):
                bad += 1
                rep.violation("E3:linalg:contract-audit", f"{label}|{sizes}", f"assumed contract of linalg.{name} gives {shp(abstract)} {knd(abstract)}, NumPy gives {rshp(real)} {rknd(real)}", witness=False,
                              solver_output="the ASSUMED NumPy contract is wrong (a defect of the checker, not of autograd)")
    rep.obligation("E3:linalg:contract-audit", bad == 0 and n > 0, "numpy(ground)", 0, "E3")
    rep.extra["e3_linalg_contract_audit_cases"] = n


def replay(spec):
    """Natively: the real autograd on float arrays of the concrete sizes of the counter-model; vspace(result) vs vspace(argument/output)."""
    import numpy as onp

    import autograd.numpy as anp
    from autograd.core import make_jvp, make_vjp
    if spec.get("family") == "struct":
        return _native_struct(spec)
    if spec.get("family") == "linalg":
        return _native_linalg(spec)
    if spec.get("family") == "adjoint":
        return _native_adjoint(spec)
    if spec.get("family") == "fft":
        return _native_fft(spec)
    if spec.get("family") == "scipy_special":
        return _native_scipy_special(spec)
    if spec.get("family") == "elementwise_module":
        return _native_elementwise_module(spec)
    sizes = spec.get("sizes", {})

    def arr(tag, rank, kind):
        shp = tuple(max(0, int(sizes.get(f"{tag}{i}", 2))) for i in range(rank))
        a = onp.arange(1, 1 + int(onp.prod(shp)) if shp else 2, dtype=float)[: int(onp.prod(shp)) if shp else 1].reshape(shp) * 0.37 + 0.4
        return a + 1j * (a * 0.5) if kind == "complex" else a
    try:
        if spec["family"] == "binary":
            x = 1.5 if spec["scalar"] == 0 else arr("x", spec["rx"], spec["kx"])
            y = 2.5 if spec["scalar"] == 1 else arr("y", spec["ry"], spec["ky"])
            a = spec["argnum"]
            f = lambda z: getattr(anp, spec["name"])(*[z if i == a else v for i, v in enumerate((x, y))])
            tgt = (x, y)[a]
        else:
            x = arr("x", spec["rx"], spec["kx"])
            axis = tuple(spec["axis"]) if isinstance(spec["axis"], list) else spec["axis"]
            f = lambda z: getattr(anp, spec["name"])(z, axis=axis, keepdims=spec["keepdims"])
            tgt = x
        if spec["mode"] == "vjp":
            vjp, val = make_vjp(f, tgt)
            r = onp.asarray(vjp(onp.ones(onp.shape(val), dtype=onp.asarray(val).dtype)))
            ok = r.shape == onp.shape(tgt) and onp.iscomplexobj(r) == onp.iscomplexobj(tgt)
            return ok, f"gradient shape {r.shape} dtype {r.dtype} for argument shape {onp.shape(tgt)} dtype {onp.asarray(tgt).dtype}", "same shape and kind as the argument"
        val, t = make_jvp(f, tgt)(onp.ones(onp.shape(tgt), dtype=onp.asarray(tgt).dtype))
        t = onp.asarray(t)
        ok = t.shape == onp.shape(val) and onp.iscomplexobj(t) == onp.iscomplexobj(val)
        return ok, f"tangent shape {t.shape} dtype {t.dtype} for output shape {onp.shape(val)} dtype {onp.asarray(val).dtype}", "same shape and kind as the output"
    except Exception as e:
        return True, f"raises {type(e).__name__}: {str(e)[:80]} (allowed)", "-"
