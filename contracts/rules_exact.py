"""E4 sidecar contracts on the REAL autograd functions, checked by bounded exact runs (vlib/symrun.py).

For a case (primitive call form f, argument shapes, differentiated argnum):
   X-vjp     make_vjp(f)(x)[0](g) == J^T g       J from exact differentiation of the primal run on the same entries   (C01)
   X-jvp     make_jvp(f)(x)(v)[1] == J v  and has the output's shape; NotImplementedError/KeyError/NameError = 'raises'  (C02)
   X-shape   the VJP result has exactly the argument's shape                                                            (C05)
   X-value   the primal value computed under tracing equals the plain NumPy evaluation (same shape, exact values)       (C06)
   X-reuse   applying the same vjp function a second time gives the same answer                                         (C10)
   X-hess    (second order, scalarised) reverse-over-reverse Hessian of sum(c*f) is symmetric and equals the exact
             second derivatives; forward-over-reverse agrees                                                            (C07)
Bounded: the case list below at the stated sizes; exact in all real values at each shape.  Never counted as proved.
"""
import itertools
import multiprocessing as mp
import os
import traceback

import numpy as onp

RAISES = (NotImplementedError, KeyError, NameError, AssertionError)


# --------------------------------------------------------------------------------------------------------------------
def _cases(tier):
    """yields dicts: label, mk (string of a lambda over (anp, *args)), shapes, argnum, mode ('sym' | 'lin')"""
    C = []

    def add(label, src, shapes, argnums=None, mode="sym", second=True, consts=None):
        for a in (argnums if argnums is not None else range(len(shapes))):
            C.append(dict(label=f"{label}|{'x'.join(str(s) for s in shapes)}|arg{a}", src=src, shapes=shapes, argnum=a, mode=mode, second=second))

    big = tier != "quick"
    S1 = [(3,), (2, 3)] + ([(2, 2, 3)] if big else [(2, 1, 3)])
    # ---- reductions -------------------------------------------------------------------------------------------
    for red in ("sum", "mean", "prod", "var"):
        for shp in S1:
            nd = len(shp)
            axes = [None] + list(range(-nd, nd))
            if nd >= 2:
                axes += [(0, 1), (1, 0), (-1, 0)] + ([(0, 2), (2, 0), (0, 1, 2)] if nd == 3 else [])
            for ax in axes:
                if red == "prod" and isinstance(ax, tuple):
                    continue
                for kd in (False, True):
                    add(f"{red}(axis={ax},keepdims={kd})", f"lambda anp, x: anp.{red}(x, axis={ax!r}, keepdims={kd})", [shp], second=(red != "var" and nd < 3))
            add(f"x.{red}(method,axis=-1)", f"lambda anp, x: x.{red}(axis=-1)", [shp], second=False)
        if red == "var":
            add("var(ddof=1)", "lambda anp, x: anp.var(x, axis=0, ddof=1)", [(3, 2)], second=False)
    for red in ("max", "min"):
        for ax in ((1, 0), (2, 0), (2, 1), (0, 2), (-1, 0)):
            for kd in (False, True):
                add(f"{red}(axis={ax},keepdims={kd})", f"lambda anp, x: anp.{red}(x, axis={ax!r}, keepdims={kd})", [(2, 3, 3)], mode="lin", second=False)
                add(f"{red}(axis={ax},keepdims={kd})", f"lambda anp, x: anp.{red}(x, axis={ax!r}, keepdims={kd})", [(3, 2, 2)], mode="lin", second=False)
    for red in ("max", "min", "amax", "amin"):
        for shp in S1:
            nd = len(shp)
            axes = [None] + list(range(-nd, nd)) + ([(0, 1), (1, 0)] if nd >= 2 else []) + ([(2, 0), (1, 2)] if nd == 3 else [])
            for ax in axes:
                for kd in (False, True):
                    add(f"{red}(axis={ax},keepdims={kd})", f"lambda anp, x: anp.{red}(x, axis={ax!r}, keepdims={kd})", [shp], mode="lin", second=False)
    for shp in S1:
        nd = len(shp)
        for ax in [None] + list(range(-nd, nd)):
            add(f"cumsum(axis={ax})", f"lambda anp, x: anp.cumsum(x, axis={ax!r})", [shp])
    for shp, kw in [((3, 3), ""), ((2, 3), ""), ((3, 2), "offset=1"), ((2, 3), "offset=-1"), ((2, 3, 2), ""), ((2, 3, 2), "offset=1")]:
        add(f"trace({kw})", f"lambda anp, x: anp.trace(x, {kw})", [shp])
    # ---- shape operations ---------------------------------------------------------------------------------------
    add("reshape(func)", "lambda anp, x: anp.reshape(x, (3, 2))", [(2, 3)])
    add("reshape(func,order=F)", "lambda anp, x: anp.reshape(x, (3, 2), order='F')", [(2, 3)])
    add("x.reshape(ints)", "lambda anp, x: (x * 1).reshape(3, 2)", [(2, 3)])
    add("x.reshape(ints,order=F)", "lambda anp, x: (x * 1).reshape(3, 2, order='F')", [(2, 3)])
    add("x.reshape(tuple)", "lambda anp, x: (x * 1).reshape((6,))", [(2, 3)])
    add("x.reshape(-1)", "lambda anp, x: (x * 1).reshape(-1)", [(2, 3)])
    add("ravel", "lambda anp, x: anp.ravel(x)", [(2, 3)])
    add("ravel(order=F)", "lambda anp, x: anp.ravel(x, order='F')", [(2, 3)])
    add("x.ravel(order=F)", "lambda anp, x: (x * 1).ravel(order='F')", [(2, 3)])
    add("x.flatten()", "lambda anp, x: (x * 1).flatten()", [(2, 3)])
    add("x.T", "lambda anp, x: (x * 1).T", [(2, 3)])
    for axes in (None, (1, 0), (-1, 0), (0, -1)):
        add(f"transpose({axes})", f"lambda anp, x: anp.transpose(x, {axes!r})", [(2, 3)])
    for axes in ((2, 0, 1), (1, 2, 0), (-1, 0, 1), (0, -1, -2), (-2, -1, 0)):
        add(f"transpose({axes})", f"lambda anp, x: anp.transpose(x, {axes!r})", [(2, 3, 2)])
    add("x.transpose(ints)", "lambda anp, x: (x * 1).transpose(1, 0)", [(2, 3)])
    for a1, a2 in ((0, 1), (0, 2), (-1, 0), (1, -1)):
        add(f"swapaxes({a1},{a2})", f"lambda anp, x: anp.swapaxes(x, {a1}, {a2})", [(2, 3, 2)])
    for s, d in ((0, 2), (2, 0), (-1, 0), (0, -1), ((0, 1), (2, 0))):
        add(f"moveaxis({s},{d})", f"lambda anp, x: anp.moveaxis(x, {s!r}, {d!r})", [(2, 3, 2)])
    for ax, st in ((2, 0), (0, 3), (1, 0), (0, 2), (2, 1), (1, 3)):
        add(f"rollaxis({ax},{st})", f"lambda anp, x: anp.rollaxis(x, {ax}, {st})", [(2, 3, 2)])
    for ax in (0, 1, -1, 2, (0, 2)):
        add(f"expand_dims({ax})", f"lambda anp, x: anp.expand_dims(x, {ax!r})", [(2, 3)])
    for ax in (None, 0, -1, (0, 2)):
        add(f"squeeze({ax})", f"lambda anp, x: anp.squeeze(x, axis={ax!r})", [(1, 3, 1)])
    add("flipud", "lambda anp, x: anp.flipud(x)", [(2, 3)])
    add("fliplr", "lambda anp, x: anp.fliplr(x)", [(2, 3)])
    for k in (1, 2, 3, -1):
        add(f"rot90(k={k})", f"lambda anp, x: anp.rot90(x, {k})", [(2, 3)])
    for sh, ax in ((1, None), (2, 0), (-1, 1), (1, -1), (4, None)):
        add(f"roll({sh},{ax})", f"lambda anp, x: anp.roll(x, {sh}, axis={ax!r})", [(2, 3)])
    for reps in (2, (2,), (2, 1), (1, 2), (2, 2), (2, 1, 2)):
        add(f"tile({reps})", f"lambda anp, x: anp.tile(x, {reps!r})", [(2, 3)])
        add(f"tile({reps})", f"lambda anp, x: anp.tile(x, {reps!r})", [(3,)])
    for rep, ax in ((2, None), (2, 0), (2, 1), (2, -1), (3, -2), (1, 0)):
        add(f"repeat({rep},axis={ax})", f"lambda anp, x: anp.repeat(x, {rep}, axis={ax!r})", [(2, 3)])
    add("repeat(2,axis=-1) size-1", "lambda anp, x: anp.repeat(x, 2, axis=-1)", [(2, 1)])
    add("x.repeat(2,axis=0)", "lambda anp, x: (x * 1).repeat(2, axis=0)", [(2, 3)])
    add("broadcast_to", "lambda anp, x: anp.broadcast_to(x, (2, 3))", [(1, 3)])
    add("broadcast_to", "lambda anp, x: anp.broadcast_to(x, (2, 3))", [(2, 1)])
    for f_ in ("atleast_1d", "atleast_2d", "atleast_3d"):
        for shp in ((), (3,), (2, 3)):
            add(f_, f"lambda anp, x: anp.{f_}(x)", [shp])
    for shp, k in (((3,), 0), ((3,), 1), ((3,), -1), ((3, 3), 0), ((3, 3), 1), ((2, 3), 0), ((3, 2), 0), ((2, 3), 1), ((3, 2), -1)):
        add(f"diag(k={k})", f"lambda anp, x: anp.diag(x, {k})", [shp])
    for shp, kw in (((3, 3), ""), ((2, 3), "offset=1"), ((3, 2), "offset=-1"), ((2, 3, 2), "axis1=0, axis2=2"), ((2, 3, 2), "offset=1, axis1=1, axis2=0"), ((2, 3, 3), "axis1=-1, axis2=-2")):
        add(f"diagonal({kw})", f"lambda anp, x: anp.diagonal(x, {kw})", [shp])
    add("make_diagonal", "lambda anp, x: anp.make_diagonal(x, axis1=-1, axis2=-2)", [(2, 3)], mode="flt", second=False)
    add("make_diagonal(offset)", "lambda anp, x: anp.make_diagonal(x, offset=1, axis1=0, axis2=1)", [(2,)], mode="flt", second=False)
    add("diagonal(-1,-2) flt", "lambda anp, x: anp.diagonal(x, axis1=-1, axis2=-2)", [(2, 3, 3)], mode="flt", second=False)
    add("sort(2-D square)", "lambda anp, x: anp.sort(x, axis=-1)", [(2, 2)], mode="lin", second=False)
    add("x.astype(float)", "lambda anp, x: x.astype(float) * 2", [(3,)], mode="flt", second=False)
    for k in (0, 1, -1):
        add(f"triu(k={k})", f"lambda anp, x: anp.triu(x, k={k})", [(3, 3)])
        add(f"tril(k={k})", f"lambda anp, x: anp.tril(x, k={k})", [(2, 3)])
    for pw in ("1", "(1, 2)", "((1, 2),)", "((1, 0), (0, 2))", "[(1, 1), (2, 0)]", "((0, 0), (1, 1))"):
        add(f"pad({pw})", f"lambda anp, x: anp.pad(x, {pw}, 'constant')", [(2, 3)])
    add("pad(1) 1-D", "lambda anp, x: anp.pad(x, (2, 1), 'constant')", [(3,)])
    add("pad(constant_values)", "lambda anp, x: anp.pad(x, 1, 'constant', constant_values=5.0)", [(2, 2)])
    for ax in (0, 1, -1, -2):
        add(f"concatenate(axis={ax})", f"lambda anp, x, y: anp.concatenate([x, y, x], axis={ax})", [(2, 2), (2, 2)])
    add("concatenate(axis=None)", "lambda anp, x, y: anp.concatenate((x, y), axis=None)", [(2, 2), (3,)])
    add("concatenate(1,3 rows)", "lambda anp, x, y: anp.concatenate((x, y), 0)", [(1, 3), (2, 3)])
    for f_ in ("vstack", "hstack", "column_stack", "stack", "row_stack"):
        add(f_, f"lambda anp, x, y: anp.{f_}((x, y))", [(3,), (3,)])
        add(f_, f"lambda anp, x, y: anp.{f_}([x, y])", [(2, 3), (2, 3)])
    for ax in (0, 1, -1, 2, -2, -3):
        add(f"stack(axis={ax})", f"lambda anp, x, y: anp.stack([x, y], axis={ax})", [(2, 3), (2, 3)])
    add("append", "lambda anp, x, y: anp.append(x, y)", [(2, 2), (3,)])
    add("append(axis=0)", "lambda anp, x, y: anp.append(x, y, axis=0)", [(2, 2), (1, 2)])
    add("array(list)", "lambda anp, x, y: anp.array([x, y])", [(3,), (3,)])
    add("array(nested)", "lambda anp, x, y: anp.array([[x, y], [y, x]])", [(), ()], mode="flt", second=False)
    add("array(scalar)", "lambda anp, x: anp.array(x)", [()])
    add("array(ndmin=2)", "lambda anp, x: anp.array(x, ndmin=2)", [(3,)])
    for f_, arg, shp in (("split", "3", (6,)), ("split", "[1, 3]", (4, 2)), ("array_split", "3", (5,)), ("array_split", "2", (3, 2)), ("vsplit", "2", (4, 2)),
                          ("hsplit", "2", (2, 4)), ("hsplit", "[1]", (2, 3)), ("dsplit", "2", (1, 2, 4))):
        add(f"{f_}({arg})", f"lambda anp, x: anp.concatenate([p * (i + 2) for i, p in enumerate(anp.{f_}(x, {arg}))][::-1], axis=0)" if f_ in ("split", "array_split", "vsplit")
            else f"lambda anp, x: sum(anp.sum(p) * (i + 2) for i, p in enumerate(anp.{f_}(x, {arg}))) * x", [shp], second=False)
    add("split(axis=1)", "lambda anp, x: anp.split(x, 2, axis=1)[1] * 3", [(2, 4)])
    add("split(axis=-1)", "lambda anp, x: anp.split(x, [1, 2], axis=-1)[2] * 3", [(2, 4)])
    for n_, ax in ((1, -1), (1, 0), (2, -1), (2, 0), (3, 1)):
        add(f"diff(n={n_},axis={ax})", f"lambda anp, x: anp.diff(x, n={n_}, axis={ax})", [(3, 4)])
    for shp, n_, ax in (((2,), 2, 0), ((2, 3), 2, 0), ((3,), 3, -1), ((1, 3), 1, 0), ((2, 2), 3, 1), ((1,), 1, 0)):
        add(f"diff(n={n_},axis={ax}) short axis", f"lambda anp, x: anp.sum(anp.diff(x, n={n_}, axis={ax})) + anp.sum(x * x)", [shp], second=False)
        add(f"diff(n={n_},axis={ax}) short axis raw", f"lambda anp, x: anp.diff(x, n={n_}, axis={ax})", [shp], second=False)
    for ax in ("0", "1", "-1", "(0, 1)", "(1, 0)", "None"):
        add(f"gradient(axis={ax})", f"lambda anp, x: anp.array(anp.gradient(x, axis={ax})) if not isinstance({ax}, int) else anp.gradient(x, axis={ax})", [(4, 5)], mode="flt", second=False)
    add("fftshift", "lambda anp, x: anp.fft.fftshift(x)", [(2, 3)])
    add("fftshift(axes=1)", "lambda anp, x: anp.fft.fftshift(x, axes=1)", [(2, 3)])
    add("ifftshift", "lambda anp, x: anp.fft.ifftshift(x)", [(3, 4)])
    add("ifftshift(axes=(0,))", "lambda anp, x: anp.fft.ifftshift(x, axes=(0,))", [(3, 2)])
    # where / select / clip
    add("where(mask)", "lambda anp, x, y: anp.where(__import__('numpy').array([[True, False, True], [False, False, True]]), x, y)", [(2, 3), (2, 3)])
    add("where(bcast)", "lambda anp, x, y: anp.where(__import__('numpy').array([[True, False, True], [False, False, True]]), x, y)", [(3,), (2, 1)])
    add("where(scalar)", "lambda anp, x, y: anp.where(__import__('numpy').array([True, False, True]), x, y)", [(), (3,)])
    add("select", "lambda anp, x, y: anp.select([__import__('numpy').array([True, False, False]), __import__('numpy').array([True, True, False])], [x, y], default=0.0)", [(3,), (3,)], mode="flt", second=False)
    add("full(scalar fill)", "lambda anp, x: anp.full((2, 3), x)", [()], mode="flt", second=False)
    add("full(array fill)", "lambda anp, x: anp.full((2, 3), x)", [(3,)], mode="flt", second=False)
    add("full(size-1 fill)", "lambda anp, x: anp.full((2, 2), x)", [(1,)], mode="flt", second=False)
    add("linspace", "lambda anp, x, y: anp.linspace(x, y, 5)", [(), ()], mode="flt", second=False)
    add("linspace(num=1)", "lambda anp, x, y: anp.linspace(x, y, 1)", [(), ()], mode="flt", second=False)
    add("clip", "lambda anp, x: anp.clip(x, 0.3, 2.4)", [(2, 3)], mode="lin", second=False)
    add("sort", "lambda anp, x: anp.sort(x)", [(4,)], mode="lin", second=False)
    add("sort(2-D)", "lambda anp, x: anp.sort(x, axis=-1)", [(2, 3)], mode="lin", second=False)
    add("partition", "lambda anp, x: anp.partition(x, 2)", [(4,)], mode="lin", second=False)
    # ---- contractions ---------------------------------------------------------------------------------------------
    for sa, sb in (((3,), (3,)), ((2, 3), (3,)), ((3,), (3, 2)), ((2, 3), (3, 2)), ((), (2,)), ((2,), ()), ((2, 2, 3), (3, 2)), ((2, 3), (2, 3, 2))):
        add("dot", "lambda anp, x, y: anp.dot(x, y)", [sa, sb])
    add("x.dot(y)", "lambda anp, x, y: (x * 1).dot(y)", [(2, 3), (3, 2)], argnums=(0,))
    for sa, sb in (((3,), (3,)), ((2, 3), (3,)), ((3,), (3, 2)), ((2, 3), (3, 2)), ((2, 2, 3), (3, 2)), ((2, 3), (2, 3, 2)), ((2, 1, 2, 3), (3, 3, 2)), ((2, 2, 3), (3,)), ((3,), (2, 3, 2))):
        add("matmul", "lambda anp, x, y: anp.matmul(x, y)", [sa, sb])
    add("x @ y", "lambda anp, x, y: (x * 1) @ y", [(2, 3), (3, 2)])
    add("y @ x (reflected)", "lambda anp, x, y: y @ (x * 1)", [(3, 2), (2, 3)])
    for sa, sb in (((3,), (3,)), ((2, 3), (3,)), ((2, 3), (2, 3)), ((), (2, 3)), ((2, 3), ()), ((2, 2, 3), (2, 3))):
        add("inner", "lambda anp, x, y: anp.inner(x, y)", [sa, sb])
    add("outer", "lambda anp, x, y: anp.outer(x, y)", [(2,), (3,)])
    add("outer(2-D)", "lambda anp, x, y: anp.outer(x, y)", [(2, 2), (3,)])
    for axes, sa, sb in ((0, (2,), (3,)), (1, (2, 3), (3, 2)), (2, (2, 3, 2), (3, 2, 2)), ("([1], [0])", (2, 3), (3, 2)), ("([0], [1])", (3, 2), (2, 3)),
                         ("([0, 1], [1, 0])", (2, 3), (3, 2, 2)), ("([1, 2], [2, 0])", (2, 3, 2), (2, 2, 3)), ("([0, 1], [2, 1])", (2, 3, 2), (2, 3, 2)),
                         ("([-1], [0])", (2, 3), (3, 2)), ("([1, 0], [0, 1])", (3, 2), (2, 3)), ("([2, 0], [0, 1])", (2, 2, 3), (3, 2, 2)), ("(1, 0)", (2, 3), (3, 2))):
        add(f"tensordot(axes={axes})", f"lambda anp, x, y: anp.tensordot(x, y, axes={axes})", [sa, sb])
    add("tensordot(default)", "lambda anp, x, y: anp.tensordot(x, y)", [(2, 3, 2), (3, 2, 2)])
    for sub, shapes in (("ij,jk->ik", [(2, 3), (3, 2)]), ("ij,ij->", [(2, 3), (2, 3)]), ("ii->i", [(3, 3)]), ("ij->ji", [(2, 3)]), ("i,i", [(3,), (3,)]), ("ij,j", [(2, 3), (3,)]),
                        ("...ij,...jk->...ik", [(2, 2, 3), (3, 2)]), ("i...,i...->...", [(2, 3), (2, 3)]), ("...i,...i->...", [(2, 3), (3,)]), ("i...j,j->i...", [(2, 2, 3), (3,)]),
                        ("ij,jk,kl->il", [(2, 2), (2, 3), (3, 2)]), ("ijk->kji", [(2, 3, 2)]), ("ij->", [(2, 3)]), ("ij->j", [(2, 3)]), ("i,j->ij", [(2,), (3,)]),
                        ("ii", [(3, 3)]), ("...->...", [(2, 3)]), ("a...b,b...->a...", [(2, 3, 2), (2, 3)]), ("...a,...a->...", [(2,), (3, 2)])):
        vs = ", ".join("xyz"[: len(shapes)])
        add(f"einsum('{sub}')", f"lambda anp, {vs}: anp.einsum('{sub}', {vs})", shapes)
    add("einsum('ij,ij->ij' size-1 bcast)", "lambda anp, x, y: anp.einsum('ij,ij->ij', x, y)", [(3, 2), (1, 2)], second=False)
    add("einsum('...ij,...jk->...ik' size-1 batch)", "lambda anp, x, y: anp.einsum('...ij,...jk->...ik', x, y)", [(1, 2, 3), (2, 3, 2)], second=False)
    add("einsum('ij,jk->ik' size-1 contracted)", "lambda anp, x, y: anp.einsum('ij,jk->ik', x, y)", [(2, 1), (3, 2)], second=False)
    add("einsum('i,i->i' size-1)", "lambda anp, x, y: anp.einsum('i,i->i', x, y)", [(1,), (3,)], second=False)
    add("c_[x, y] 1-D", "lambda anp, x, y: anp.c_[x, y]", [(3,), (3,)], second=False)
    add("c_[x, y] 2-D", "lambda anp, x, y: anp.c_[x, y]", [(2, 2), (2, 3)], second=False)
    add("c_[x, y] 3-D", "lambda anp, x, y: anp.c_[x, y]", [(2, 2, 2), (2, 2, 2)], second=False)
    add("c_[x, y] 3-D last differs", "lambda anp, x, y: anp.c_[x, y]", [(2, 2, 1), (2, 2, 2)], second=False)
    add("r_[x, y] 1-D", "lambda anp, x, y: anp.r_[x, y]", [(2,), (3,)], second=False)
    add("r_[x, y] 2-D", "lambda anp, x, y: anp.r_[x, y]", [(1, 2), (2, 2)], second=False)
    add("r_['1', x, y]", "lambda anp, x, y: anp.r_['1', x, y]", [(2, 2), (2, 1)], second=False)
    add("r_[x, 0.0, y]", "lambda anp, x, y: anp.r_[x, 0.5, y]", [(2,), (2,)], second=False, mode="flt")
    add("select overlapping conds", "lambda anp, x, y: anp.select([__import__('numpy').array([True, True, False, False]), __import__('numpy').array([False, True, True, False])], [x, y], default=0.5)", [(4,), (4,)], mode="flt", second=False)
    # the SAME value in two slots of one call (a diamond collapsed into one node): total derivative = sum of both partials
    for nm, expr, shp in (("tensordot(x,x,1)", "anp.tensordot(x, x, 1)", (2, 2)), ("tensordot(x,x,2)", "anp.tensordot(x, x, 2)", (2, 2)), ("tensordot(x,x,axes-pairs)", "anp.tensordot(x, x, axes=([0], [1]))", (2, 2)),
                          ("dot(x,x)", "anp.dot(x, x)", (2, 2)), ("dot(v,v)", "anp.dot(x, x)", (3,)), ("matmul(x,x)", "anp.matmul(x, x)", (2, 2)), ("inner(x,x)", "anp.inner(x, x)", (2, 2)),
                          ("outer(x,x)", "anp.outer(x, x)", (2,)), ("kron(x,x)", "anp.kron(x, x)", (2,)), ("multiply(x,x)", "anp.multiply(x, x)", (3,)), ("x*x", "x * x", (3,)), ("add(x,x)", "anp.add(x, x)", (3,)),
                          ("subtract(x,x)", "anp.subtract(x, x)", (3,)), ("concatenate([x,x])", "anp.concatenate([x, x])", (2,)), ("stack([x,x])", "anp.stack([x, x])", (2,)),
                          ("einsum(x,x)", "anp.einsum('ij,jk->ik', x, x)", (2, 2)), ("einsum(x,x) trace", "anp.einsum('ij,ji->', x, x)", (2, 2)), ("where(c,x,x)", "anp.where(__import__('numpy').array([True, False, True]), x, x)", (3,)),
                          ("array([x,x])", "anp.array([x, x])", (2,)), ("x[x-independent]+x", "x[[0, 0]] + x[:2]", (3,))):
        add(f"same-value-twice {nm}", f"lambda anp, x: {expr}", [shp], second=nm in ("dot(x,x)", "x*x", "tensordot(x,x,1)"))
    add("same-value-twice divide(x,x)", "lambda anp, x: anp.divide(x, x)", [(3,)], mode="lin", second=False)
    add("same-value-twice power(x,x)", "lambda anp, x: anp.power(x, 2) * anp.power(x, 1)", [(3,)], second=False)
    # a cotangent object that is SHARED between two uses must not be written by a rule (0-d: helpers return the cotangent itself)
    for red in ("var", "std", "sum", "mean", "prod", "max", "min"):
        for shp in ((), (1,), (2,)):
            if red in ("std",) or (red in ("max", "min") and shp == (2,)):
                continue
            add(f"shared-cotangent 3*x+{red}(x)", f"lambda anp, x: 3 * x + anp.{red}(x)", [shp], second=False, mode="sym" if red not in ("max", "min") else "lin")
            add(f"shared-cotangent {red}(x)+3*x", f"lambda anp, x: anp.{red}(x) + 3 * x", [shp], second=False, mode="sym" if red not in ("max", "min") else "lin")
    for red in ("var", "sum", "mean", "prod", "max", "min", "std"):
        for shp in ((), (1,)):   # in floats: 0-d NumPy arrays are mutable, exact scalars are not (at these shapes every one of the maps is affine, so float mode is exact)
            if red == "std":
                continue     # std of a single number: 0/0 in the rule (nan) - not an affine map at this point
            add(f"shared-cotangent(float) 3*x+{red}(x)", f"lambda anp, x: 3 * x + anp.{red}(x)", [shp], second=False, mode="flt")
            add(f"shared-cotangent(float) {red}(x)+3*x", f"lambda anp, x: anp.{red}(x) + 3 * x", [shp], second=False, mode="flt")
    # np.array with ndmin / sequences of length one
    add("array(ndmin=3) size-1 lead", "lambda anp, x: anp.array(x, ndmin=3)", [(1, 3)], second=False)
    add("array(ndmin=3) size-1 tail", "lambda anp, x: anp.array(x, ndmin=3)", [(3, 1)], second=False)
    add("array(ndmin=2) 1-element", "lambda anp, x: anp.array(x, ndmin=2)", [(1,)], second=False)
    add("column_stack length-1 vectors", "lambda anp, x, y: anp.column_stack([x, y])", [(1,), (1,)], second=False)
    add("column_stack 1-D and (n,1)", "lambda anp, x, y: anp.column_stack([x, y])", [(2,), (2, 1)], second=False)
    add("concatenate one-element sequence", "lambda anp, x: anp.concatenate((x,))", [(2, 2)], second=False)
    add("concatenate one-element axis=1", "lambda anp, x: anp.concatenate([x], axis=1)", [(2, 2)], second=False)
    add("stack one-element", "lambda anp, x: anp.stack([x])", [(2,)], second=False)
    add("hstack one-element", "lambda anp, x: anp.hstack([x])", [(2,)], second=False)
    add("vstack one-element", "lambda anp, x: anp.vstack((x,))", [(2,)], second=False)
    add("einsum(list-form)", "lambda anp, x, y: anp.einsum(x, [0, 1], y, [1, 2], [0, 2])", [(2, 3), (3, 2)])
    add("einsum(list-form,ellipsis-mid)", "lambda anp, x, y: anp.einsum(x, [0, Ellipsis, 1], y, [1, 2], [0, Ellipsis, 2])", [(2, 2, 3), (3, 2)])
    add("einsum(list-form,ellipsis-tail,bcast)", "lambda anp, x, y: anp.einsum(x, [0, Ellipsis], y, [0, Ellipsis], [0, Ellipsis])", [(3,), (3, 2)])
    add("einsum(list-form,ellipsis-tail,bcast2)", "lambda anp, x, y: anp.einsum(x, [0, 1, Ellipsis], y, [1, 2, Ellipsis], [0, 2, Ellipsis])", [(2, 3), (3, 2, 2, 2)], second=False)
    add("einsum(list-form,ellipsis-head,bcast2)", "lambda anp, x, y: anp.einsum(x, [Ellipsis, 0, 1], y, [Ellipsis, 1, 2], [Ellipsis, 0, 2])", [(2, 3), (2, 2, 3, 2)], second=False)
    add("einsum('ij...,jk...->ik...' bcast2)", "lambda anp, x, y: anp.einsum('ij...,jk...->ik...', x, y)", [(2, 3), (3, 2, 2, 2)], second=False)
    add("einsum(list-form,ellipsis-tail,rank-diff)", "lambda anp, x, y: anp.einsum(x, [0, Ellipsis], y, [0, Ellipsis], [0, Ellipsis])", [(2, 3), (2, 2, 3)], second=False)
    add("einsum(list-form,size-1 bcast)", "lambda anp, x, y: anp.einsum(x, [0, 1], y, [0, 1], [0, 1])", [(3, 2), (1, 2)], second=False)
    add("einsum(list-form,size-1 contracted)", "lambda anp, x, y: anp.einsum(x, [0, 1], y, [1, 2], [0, 2])", [(2, 1), (3, 2)], second=False)
    add("einsum('i,i->' size-1)", "lambda anp, x, y: anp.einsum('i,i->', x, y)", [(1,), (3,)], second=False)
    add("einsum(list-form,ellipsis-mid,bcast)", "lambda anp, x, y: anp.einsum(x, [0, Ellipsis, 1], y, [0, Ellipsis, 1], [0, Ellipsis])", [(3, 2), (3, 2, 2)])
    for sa, sb in (((2, 2), (2, 2)), ((2,), (2, 2)), ((2, 2), (2,)), ((), (2, 2)), ((2,), (3,)), ((2, 1), (1, 3)), ((1, 2, 2), (2, 1, 2))):
        add("kron", "lambda anp, x, y: anp.kron(x, y)", [sa, sb], second=False)
    for sa, sb, kw in (((3,), (3,), ""), ((2, 3), (2, 3), ""), ((2, 3), (3,), ""), ((3,), (2, 3), ""), ((2,), (2,), ""), ((3, 2), (3, 2), "axis=0"), ((2, 3), (3, 2), "axisa=1, axisb=0"),
                       ((2, 3), (2, 3), "axisc=0"), ((3,), (2,), "")):
        add(f"cross({kw})", f"lambda anp, x, y: anp.cross(x, y, {kw})", [sa, sb], second=False)
    # ---- rational element-wise with broadcasting, all call forms ----------------------------------------------------
    bpairs = [((2, 3), (3,)), ((2, 1), (1, 3)), ((), (2,)), ((2, 3), ()), ((1,), (2, 3)), ((2, 1, 3), (2, 1))]
    for nm, ex in (("add", "x + y"), ("subtract", "x - y"), ("multiply", "x * y"), ("divide", "x / y"), ("anp.add", "anp.add(x, y)"), ("anp.subtract", "anp.subtract(x, y)"),
                   ("anp.multiply", "anp.multiply(x, y)"), ("anp.divide", "anp.divide(x, y)"), ("anp.true_divide", "anp.true_divide(x, y)")):
        for sa, sb in bpairs:
            add(nm, f"lambda anp, x, y: {ex}", [sa, sb], second=(nm in ("multiply", "divide") and sa == (2, 3) and sb == (3,)))
    for nm, ex in (("radd", "2.0 + x"), ("rsub", "2.0 - x"), ("rmul", "3 * x"), ("rdiv", "2.0 / x"), ("neg", "-x"), ("pow3", "x ** 3"), ("pow-2", "x ** -2"), ("anp.negative", "anp.negative(x)"),
                   ("anp.reciprocal", "anp.reciprocal(x)"), ("anp.square", "anp.square(x)"), ("anp.power(x,2)", "anp.power(x, 2)"), ("x.__rtruediv__ arr", "__import__('numpy').array([1.0, 2.0, 4.0]) / x"),
                   ("x.__rsub__ arr", "__import__('numpy').array([[1.0], [2.0]]) - x"), ("x.__rmatmul__", "__import__('numpy').array([[1.0, 2.0, 0.5]]) @ anp.reshape(x, (3, 1))"),
                   ("mean()", "x.mean()"), ("x.sum()", "x.sum()"), ("x.prod()", "x.prod()"), ("x.cumsum", "x.cumsum(0)"), ("x.squeeze", "anp.expand_dims(x, 0).squeeze()"), ("x.diagonal()", "anp.outer(x, x).diagonal()"),
                   ("x.trace()", "anp.outer(x, x).trace()"), ("x.swapaxes", "anp.outer(x, x).swapaxes(0, 1) * __import__('numpy').arange(9.0).reshape(3, 3)"), ("x.clip", "x.clip(-100.0, 100.0)"),
                   ("x.take?getitem", "x[::-1] * x")):
        add(nm, f"lambda anp, x: {ex}", [(3,)], second=(nm in ("pow3", "rdiv")), mode=("lin" if nm == "x.clip" else "sym"))
    return C


# ----- index expressions (C11) ---------------------------------------------------------------------------------------
INDEX_FORMS = [
    ((4,), "[0, -4, 2]"), ((4,), "[3, -1]"), ((4,), "__import__('numpy').array([1, -3, -3])"), ((3, 4), "([0, -3], [1, -3])"), ((3, 4), "(slice(None), [0, -4])"),
    ((4,), "1"), ((4,), "-1"), ((4,), "slice(1, 3)"), ((4,), "slice(None, None, -1)"), ((4,), "slice(3, None, -2)"), ((4,), "[0, 0, 2]"), ((4,), "__import__('numpy').array([1, 1, 1, 3])"),
    ((4,), "__import__('numpy').array([True, False, True, True])"), ((4,), "Ellipsis"), ((4,), "None"), ((4,), "(None, slice(None, 2))"), ((4,), "[]"), ((4,), "[-1, 0]"),
    ((3, 4), "(slice(None), slice(None, None, -1))"), ((3, 4), "(slice(None, None, -1), slice(None))"), ((3, 4), "(slice(None, None, -1),)"), ((3, 4), "(slice(0, 3), slice(3, None, -1))"),
    ((3, 4), "(slice(None, None, -1), slice(None, None, -1))"), ((2, 3, 2), "(slice(None), slice(None, None, -1), slice(None))"), ((4,), "(slice(None, None, -1),)"),
    ((4,), "(slice(None, None, -1), None)"), ((3, 4), "(None, slice(None), slice(None, None, -1))"), ((3, 4), "(slice(None, None, -1), None, slice(None))"), ((3, 4), "(Ellipsis, None, slice(None, None, -1))"),
    ((3, 4), "(slice(None, None, -2), None)"), ((2, 3), "(None, Ellipsis)"), ((2, 3), "(slice(None), None, slice(None))"),
    ((2, 3), "[True, False]"), ((3,), "[True, False, True]"), ((2, 3), "[[True, False, True], [False, True, True]]"),
    ((3, 4), "1"), ((3, 4), "(1, 2)"), ((3, 4), "(slice(None), 1)"), ((3, 4), "(slice(None), [0, 0, 2])"), ((3, 4), "([1, 1, 2], [2, 2, 0])"), ((3, 4), "(Ellipsis, -1)"),
    ((3, 4), "(slice(None, None, 2), slice(1, None, 2))"), ((3, 4), "(None, 1, None)"), ((3, 4), "__import__('numpy').array([[True, False, True, False], [False, False, False, True], [True, True, False, False]])"),
    ((3, 4), "(__import__('numpy').array([True, False, True]), slice(1, 3))"), ((3, 4), "([0, 2], slice(None, None, -1))"), ((3, 4), "(__import__('numpy').array([[0, 1], [1, 0]]), __import__('numpy').array([[3, 3], [0, 3]]))"),
    ((3, 4), "[[0, 0], [1, 1]]"), ((3, 4), "(-1, slice(None))"), ((3, 4), "(slice(-2, None), -2)"), ((3, 4), "[2, 0, 2]"),
    ((2, 3, 2), "(1, Ellipsis, 0)"), ((2, 3, 2), "(slice(None), [0, 0], slice(None))"), ((2, 3, 2), "([0, 1, 1], slice(None), [1, 1, 1])"), ((2, 3, 2), "(Ellipsis, None, 1)"),
    ((2, 3, 2), "(slice(None), __import__('numpy').array([True, False, True]))"), ((2, 3, 2), "(0, [0, 0, 2], 1)"), ((), "Ellipsis"), ((), "None"), ((), "()"),
]


def _index_cases():
    C = []
    for shp, idx in INDEX_FORMS:
        C.append(dict(label=f"getitem[{idx}]|{shp}|arg0".replace("__import__('numpy').", "np."), src=f"lambda anp, x: (x * 1)[{idx}]", shapes=[shp], argnum=0, mode="sym", second=False))
    # mixing k sparse and m dense uses of one value in every order (C11)
    uses = {"s1": "x[[0, 0, 2]]", "s2": "x[1:]", "s3": "x[2]", "d1": "x * 2", "d2": "anp.sum(x) * 1"}
    for k in (2, 3):
        for combo in itertools.permutations(["s1", "s2", "d1", "s3"], k):
            expr = " + ".join(f"anp.sum({uses[u]}) * {i + 2}" for i, u in enumerate(combo))
            C.append(dict(label=f"mix[{','.join(combo)}]|(3,)|arg0", src=f"lambda anp, x: {expr}", shapes=[(3,)], argnum=0, mode="sym", second=True))
    # the same at rank 0 (the sum of two 0-d cotangents is a NumPy scalar, not an array)
    uses0 = {"s1": "x[()]", "s2": "x[...]", "s3": "x[None][0]", "d1": "x * 2", "d2": "x * 3"}
    for k in (2, 3, 4):
        for combo in itertools.permutations(["s1", "s2", "d1", "d2", "s3"], k):
            if not any(u.startswith("s") for u in combo):
                continue
            expr = " + ".join(f"{uses0[u]} * {i + 2}" for i, u in enumerate(combo))
            C.append(dict(label=f"mix0[{','.join(combo)}]|()|arg0", src=f"lambda anp, x: (lambda x: {expr})(anp.array(x))", shapes=[()], argnum=0, mode="flt", second=False))
    # dense contributions that are VIEWS of a shared cotangent (transpose / reshape / ravel), followed or preceded by sparse ones
    W = "__import__('numpy').arange(1.0, 10.0).reshape(3, 3)"
    for lab, expr in (("view-T+sparse", f"anp.sum({W} * (x * x + (x[[0, 0, 2]] + x.T)))"), ("sparse+view-T", f"anp.sum({W} * ((x[[0, 0, 2]] + x.T) + x * x))"),
                      ("view-reshape+sparse", f"anp.sum({W} * (x * 2 + (x[[1, 1, 0]] + anp.reshape(x, (3, 3)))))"), ("view-ravel+sparse", f"anp.sum({W}.ravel() * (anp.ravel(x) + (anp.ravel(x)[[0, 0, 8, 4, 4, 1, 2, 3, 5]] + anp.ravel(x * 1))))"),
                      ("2x view-T then full integer index", f"anp.sum({W} * (x.T * 2 + x.T * 3)) + anp.sum(x[[0, 1, 2, 2], [1, 2, 0, 0]] * __import__('numpy').array([2.0, 3.0, 5.0, 7.0]))"),
                      ("full integer index after 2x view-T", f"anp.sum(x[[0, 1, 2, 2], [1, 2, 0, 0]] * __import__('numpy').array([2.0, 3.0, 5.0, 7.0])) + anp.sum({W} * (x.T * 2 + x.T * 3))"),
                      ("view-T, view-T, scalar index", f"anp.sum({W} * x.T) + anp.sum({W} * 2 * x.T) + x[1, 2] * 11 + x[(2, 0)] * 13"),
                      ("diamond-view", f"anp.sum({W} * ((x.T + x[::-1]) + (x.T + x[[2, 2, 0]])))"), ("swap+sparse", f"anp.sum({W} * (anp.swapaxes(x, 0, 1) + x[:, [0, 0, 1]] + x))")):
        for mode in ("sym", "flt"):
            e_ = expr if mode == "sym" else expr.replace("x * x", "x * 3")   # float mode is exact for LINEAR maps only
            C.append(dict(label=f"mix[{lab}]|(3, 3)|arg0|{mode}", src=f"lambda anp, x: {e_}", shapes=[(3, 3)], argnum=0, mode=mode, second=False))
    return C


# --------------------------------------------------------------------------------------------------------------------
def _mk_args(S, case):
    args, names, start = [], [], 0
    for shp in case["shapes"]:
        n = int(onp.prod(shp)) if shp != () else 1
        vals = [((7 * (start + i) * (start + i) + 3 * (start + i)) % 23) / 8.0 + (start + i) / 64.0 + 0.25 for i in range(n)]
        if case["mode"] == "sym":
            a, n = S.symarray("x", shp, start)
        elif case["mode"] == "lin":  # concrete, pairwise distinct dyadic rationals, symbolic cotangent
            a = S.constarray(vals, shp)
        else:  # "flt": plain float64 arrays of dyadic rationals (real float path of autograd), unit (co)tangents
            a = onp.array(vals, dtype=float).reshape(shp) if shp != () else float(vals[0])
        args.append(a)
        names.append([f"x{start + i}" for i in range(n)])
        start += n
    return args, names


class _Flt:
    """float-mode counterpart of the symrun helpers (exact for piecewise-linear maps on dyadic data)."""

    @staticmethod
    def entries(a):
        return [float(v) for v in onp.asarray(a, dtype=float).ravel()]

    @staticmethod
    def shape_of(a):
        return onp.shape(a)


def run_case(case):
    """Executes one case on the real autograd.  Returns list of (clause, ok, detail)."""
    import warnings
    warnings.simplefilter("ignore")
    from fractions import Fraction
    from vlib import symrun as S
    import autograd.numpy as anp
    from autograd.core import make_jvp, make_vjp
    S.register()
    out = []
    flt = case["mode"] == "flt"
    H = _Flt if flt else S
    zero = 0.0 if flt else S.Sym(S.K(0))
    same = (lambda x, y: abs(x - y) <= 1e-12 * (1 + abs(y))) if flt else (lambda x, y: x == y)
    try:
        f0 = eval(case["src"], {"__builtins__": __builtins__, "Ellipsis": Ellipsis})
        args, names = _mk_args(S, case)
        a = case["argnum"]
        ashape = tuple(case["shapes"][a])
        frozen = []
        for v in args:  # C10: inputs and captured constants are frozen; any in-place write into them raises
            if isinstance(v, onp.ndarray):
                v.flags.writeable = False
                frozen.append((v, v.copy()))
        f = lambda z: f0(anp, *[z if i == a else v for i, v in enumerate(args)])
        try:
            plain = f(args[a])
            oshape = H.shape_of(plain)
            pe = H.entries(plain)
        except Exception as e:
            return [("X-skip", True, f"primal not evaluable on exact entries: {type(e).__name__}: {str(e)[:90]}")]
        n_in = len(names[a])
        if len(pe) > S.NG:
            return [("X-skip", True, "output too large for the symbol pool")]

        def unit(n, i, shape):
            if flt:
                e = onp.zeros(n)
                e[i] = 1.0
                return e.reshape(shape) if shape != () else onp.array(e[0])   # a 0-d ARRAY, as vspace(ans).ones() is: mutable, unlike a Python float
            e = onp.empty(n, dtype=object)
            for j in range(n):
                e[j] = S.Sym(S.K(1 if j == i else 0))
            return e.reshape(shape) if shape != () else e[0]

        # exact Jacobian
        if case["mode"] == "sym":
            J = [[o.diff(nm) for nm in names[a]] for o in pe]
        else:
            t = (1.0 / 4096) if flt else S.Sym(S._lift(Fraction(1, 4096)))
            J = [[None] * n_in for _ in pe]
            base = H.entries(args[a])
            for i in range(n_in):
                if flt:
                    pert = onp.array(base, dtype=float)
                    pert[i] += t
                else:
                    pert = onp.empty(n_in, dtype=object)
                    for j in range(n_in):
                        pert[j] = base[j] + (t if j == i else 0)
                z = pert.reshape(ashape) if ashape != () else pert[0]
                po = H.entries(f(z))
                for o in range(len(pe)):
                    J[o][i] = (po[o] - pe[o]) / t
        # cotangents / tangents: symbolic, or all unit vectors in float mode
        if flt:
            Gs = [unit(len(pe), o, oshape) for o in range(len(pe))]
            Vs = [unit(n_in, i, ashape) for i in range(n_in)]
        else:
            Gs = [S.symarray("g", oshape)[0]]
            Vs = [S.symarray("v", ashape)[0]]
        # ---- reverse mode
        try:
            vjp, val = make_vjp(f, args[a])
            from autograd.tracer import isbox as _isbox
            leak = _isbox(val) or (isinstance(val, onp.ndarray) and val.dtype == object and any(_isbox(e) for e in val.ravel()))
            out.append(("X-notracer", not leak, "the primal value handed back contains no tracer object" if not leak else f"primal output {type(val).__name__} contains tracer objects"))
            if leak:
                raise S.SymLimit("tracer leak")
            ve = H.entries(val)
            okv = H.shape_of(val) == oshape and len(ve) == len(pe) and all(same(x, y) for x, y in zip(ve, pe))
            out.append(("X-value", okv, f"primal under tracing: shape {H.shape_of(val)} vs plain {oshape}" + ("" if okv else f"; values {ve[:4]} vs {pe[:4]}")))
            try:  # the same call evaluated by NumPy itself (re-implemented wrappers must agree with the function they replace)
                raw = f0(onp, *args)
                re_ = H.entries(raw)
                okn = H.shape_of(raw) == H.shape_of(val) and all(same(x, y) for x, y in zip(ve, re_))
                out.append(("X-numpy", okn, f"autograd.numpy result shape {H.shape_of(val)}, NumPy's {H.shape_of(raw)}" + ("" if okn else f"; values {ve[:4]} vs {re_[:4]}")))
            except Exception:
                pass
            shape_ok, bad_msg, reuse_ok = True, None, True
            for G in Gs:
                ge = H.entries(G)
                if isinstance(G, onp.ndarray):
                    G.flags.writeable = False
                    frozen.append((G, G.copy()))
                r = vjp(G)
                rs = H.shape_of(r)
                if rs != ashape:
                    shape_ok = False
                    bad_msg = bad_msg or f"vjp result shape {rs}, argument shape {ashape}"
                    continue
                re_ = H.entries(r)
                exp = [sum((g * J[o][i] for o, g in enumerate(ge)), zero) for i in range(n_in)]
                bad = [i for i in range(n_in) if not same(re_[i], exp[i])]
                if bad and not (bad_msg and bad_msg.startswith("entry")):
                    bad_msg = f"entry {bad[0]}: vjp gives {re_[bad[0]]}, J^T g = {exp[bad[0]]}" + (" for a unit cotangent" if flt else "")
                r2 = H.entries(vjp(G))
                reuse_ok = reuse_ok and all(same(x, y) for x, y in zip(r2, re_))
            out.append(("X-shape", shape_ok, f"vjp result shape equals argument shape {ashape}" if shape_ok else bad_msg))
            if shape_ok:
                out.append(("X-vjp", bad_msg is None, "vjp(g) == J^T g" if bad_msg is None else bad_msg))
                out.append(("X-reuse", reuse_ok, "second application of the same vjp function gives the same answer"))
        except S.SymLimit as e:
            out.append(("X-skip", True, f"reverse mode not evaluable on exact entries: {str(e)[:80]}"))
        except ZeroDivisionError:
            out.append(("X-vjp", False, "exact division by zero inside the rule: in float arithmetic this is a silent nan/inf, not an exception"))
        except Exception as e:
            if isinstance(e, ValueError) and "read-only" in str(e):
                out.append(("X-frozen", False, f"reverse mode wrote into frozen (foreign) memory: {str(e)[:80]}"))
            else:
                out.append(("X-vjp-raises", True, f"{type(e).__name__}: {str(e)[:100]}"))
        # ---- forward mode
        try:
            jshape_ok, jbad = True, None
            for V in Vs:
                vlist = H.entries(V)
                if isinstance(V, onp.ndarray):      # the caller's tangent is foreign memory too
                    V.flags.writeable = False
                    frozen.append((V, V.copy()))
                val2, tang = make_jvp(f, args[a])(V)
                ts = H.shape_of(tang)
                if ts != oshape:
                    jshape_ok = False
                    jbad = jbad or f"jvp result shape {ts}, output shape {oshape}"
                    continue
                te = H.entries(tang)
                exp = [sum((J[o][i] * vlist[i] for i in range(n_in)), zero) for o in range(len(pe))]
                bad = [o for o in range(len(pe)) if not same(te[o], exp[o])]
                if bad and jbad is None:
                    jbad = f"entry {bad[0]}: jvp gives {te[bad[0]]}, J v = {exp[bad[0]]}"
            out.append(("X-jvp-shape", jshape_ok, f"jvp result has the output's shape {oshape}" if jshape_ok else jbad))
            if jshape_ok:
                out.append(("X-jvp", jbad is None, "jvp(v) == J v" if jbad is None else jbad))
        except S.SymLimit as e:
            out.append(("X-skip", True, f"forward mode not evaluable on exact entries: {str(e)[:80]}"))
        except ZeroDivisionError:
            out.append(("X-jvp", False, "exact division by zero inside the rule: in float arithmetic this is a silent nan/inf, not an exception"))
        except Exception as e:
            if isinstance(e, ValueError) and "read-only" in str(e):
                out.append(("X-frozen", False, f"forward mode wrote into frozen (foreign) memory: {str(e)[:80]}"))
            else:
                out.append(("X-jvp-raises", True, f"{type(e).__name__}: {str(e)[:100]}"))
        try:
            unchanged = all(v.shape == c.shape and all((same(float(p), float(q)) if flt else (p == q)) for p, q in zip(v.ravel().tolist(), c.ravel().tolist())) for v, c in frozen)
        except Exception:
            unchanged = False
        out.append(("X-frozen", unchanged, "inputs, captured constants and cotangents are unchanged after the reverse and forward passes"))
        # ---- second order (scalarised with symbolic weights c): Hessian exact + symmetric, mixed mode agrees
        if case.get("second") and case["mode"] == "sym" and n_in <= 6 and len(pe) <= 6:
            try:
                cw = [S.sym(f"c{i % 8}") * (i // 8 + 1) for i in range(len(pe))]
                C_ = onp.empty(len(pe), dtype=object)
                for i, c in enumerate(cw):
                    C_[i] = c
                Cw = C_.reshape(oshape) if oshape != () else C_[0]
                h = lambda z: anp.sum(f(z) * Cw)
                gradh = lambda z: make_vjp(h, z)[0](S.Sym(S.K(1)))
                Hm = []
                for i in range(n_in):
                    Ei = unit(n_in, i, ashape)
                    row_rr = S.entries(make_vjp(lambda z: anp.sum(gradh(z) * Ei), args[a])[0](S.Sym(S.K(1))))
                    row_fr = S.entries(make_jvp(gradh, args[a])(Ei)[1])
                    Hm.append((row_rr, row_fr))
                s = sum((c * o for c, o in zip(cw, pe)), S.Sym(S.K(0)))
                ok = True
                det = "Hessian exact, symmetric, rev-over-rev == fwd-over-rev"
                for i in range(n_in):
                    for j in range(n_in):
                        ex = s.diff(names[a][i]).diff(names[a][j])
                        if not (Hm[i][0][j] == ex):
                            ok, det = False, f"rev-over-rev H[{i}][{j}] = {Hm[i][0][j]}, exact {ex}"
                        elif not (Hm[i][1][j] == ex):
                            ok, det = False, f"fwd-over-rev H[{i}][{j}] = {Hm[i][1][j]}, exact {ex}"
                out.append(("X-hess", ok, det))
            except S.SymLimit as e:
                out.append(("X-skip", True, f"second order not evaluable on exact entries: {str(e)[:80]}"))
            except Exception as e:
                out.append(("X-hess-raises", True, f"{type(e).__name__}: {str(e)[:100]}"))
    except Exception as e:
        tb = traceback.format_exc().strip().splitlines()
        out.append(("X-error", False, f"{type(e).__name__}: {str(e)[:200]} @ {tb[-3].strip() if len(tb) >= 3 else ''}"))
    return out


def _worker(case):
    try:
        return case["label"], run_case(case)
    except BaseException as e:  # noqa
        return case["label"], [("X-error", False, f"worker crashed: {type(e).__name__}: {e}")]


CLAUSE_PROPS = {
    "C01": ("X-vjp", "X-shape"), "C02": ("X-jvp", "X-jvp-shape"), "C04": ("X-vjp", "X-jvp"), "C05": ("X-shape", "X-jvp-shape"), "C06": ("X-value", "X-numpy", "X-notracer"),
    "C07": ("X-hess",), "C10": ("X-reuse", "X-frozen"), "C11": ("X-vjp", "X-jvp", "X-shape", "X-hess"),
}


def run(rep, tier, clauses, which="rules", only=None):
    cases = _cases(tier) if which == "rules" else _index_cases()
    if only:      # a property that needs one family only (label prefixes)
        cases = [c for c in cases if any(c["label"].startswith(p_) for p_ in only)]
    rep.bound(f"E4 exact runs ({which}): {len(cases)} enumerated call configurations (see contracts/rules_exact.py), array sizes <= 3 per axis "
              f"(quick) / ranks <= 3; exact in all real values at each shape")
    rep.assume("sympy fraction-field arithmetic and its .diff are exact; NumPy's object-array kernels apply the same index algebra as its float kernels")
    with mp.get_context("fork").Pool(min(16, os.cpu_count() or 4)) as pool:
        results = pool.map(_worker, cases, chunksize=4)
    nskip = 0
    for label, res in results:
        for cl, ok, detail in res:
            if cl == "X-skip":
                nskip += 1
                rep.bounded_skipped = getattr(rep, "bounded_skipped", 0) + 1
                rep.uncover(f"E4 case not evaluable exactly: {label}: {detail}"[:200])
                continue
            if cl == "X-error":
                rep.bounded_case((label, cl), sample=None)
                rep.violation(f"E4:X-error", label, f"{label}: {detail}", replay=dict(module="contracts.rules_exact", label=label, which=which, tier=tier), witness=True)
                continue
            if cl.endswith("-raises") and label.startswith("mix"):
                # C11 is unconditional for mixes of sparse and dense uses (no "or raises"): an exception here is a violation
                rep.bounded_case((label, cl))
                rep.violation(f"E4:{cl}", label, f"{label}: {detail}", replay=dict(module="contracts.rules_exact", label=label, which=which, tier=tier), witness=True)
                continue
            if cl.endswith("-raises"):
                rep.bounded_case((label, cl))
                rep.note(f"{label}: {cl}: {detail}") if len(rep.notes) < 40 else None
                continue
            if cl not in clauses:
                continue
            rep.bounded_case((label, cl), sample=dict(case=label, clause=cl, result=detail) if ok else None)
            if not ok:
                rep.violation(f"E4:{cl}", label, f"{label}: {detail}", replay=dict(module="contracts.rules_exact", label=label, which=which, tier=tier, clause=cl), witness=True)
    rep.extra.setdefault("e4_cases", {})[which] = dict(cases=len(cases), not_evaluable=nskip)
    if which == "rules":
        try:  # registrations of numpy_vjps.py that neither the E2 spec table nor any bounded table exercises by name are listed, not hidden
            import re as _re
            from vlib import rulecalc as _rc
            from . import rules_numeric as _rn, rules_scalar as _rs
            rv, rj, _ = _rs.load()
            names = sorted({k[0] for k in rv.vjps} | set(rv.vjp_argnum))
            txt = " ".join(c["src"] for c in cases) + " ".join(c["src"] for c in _index_cases()) + " ".join(c[1] for c in _rn.CASES)
            internal = {"ArrayBox.__getitem__": "x[...]", "_array_from_scalar_or_array": "anp.array", "array_from_args": "anp.array", "concatenate_args": "anp.concatenate", "_astype": ".astype",
                        "untake": "x[...] (second order)", "dot_adjoint_0": "anp.dot (second order)", "dot_adjoint_1": "anp.dot (second order)", "tensordot_adjoint_0": "anp.tensordot (second order)",
                        "tensordot_adjoint_1": "anp.tensordot (second order)"}
            for nm in names:
                hit = _re.search(r"anp\.(fft\.|linalg\.)?" + _re.escape(nm) + r"\b", txt) or _re.search(r"\." + _re.escape(nm) + r"\(", txt) or nm in _rc.SPEC
                if not hit and nm not in internal:
                    rep.uncover(f"primitive `{nm}` has a VJP registration but no case in the E2/E4/numeric tables")
            rep.extra["internal_primitives_exercised_through"] = internal
        except Exception as e:  # noqa
            rep.note(f"coverage listing failed: {e}")


def replay(spec):
    cases = _cases(spec.get("tier", "quick")) if spec.get("which", "rules") == "rules" else _index_cases()
    for c in cases:
        if c["label"] == spec["label"]:
            res = run_case(c)
            bad = [(cl, d) for cl, ok, d in res if not ok and (spec.get("clause") in (None, cl))]
            return (not bad), (f"{bad}" if bad else "all clauses hold on this case"), "exact equality with the true Jacobian (see module docstring)"
    return True, "case no longer in the table", ""
