"""C15 contracts: unsupported requests fail loudly (DESIGN §5 C15).

G-raise      guard table: for each listed unsupported configuration of a supported function, the differentiation request on the
             REAL code raises (any exception) instead of returning a value.  The guard's argument must be the quantity NumPy
             actually uses - e.g. fftn(x, axes=(0,0)) must reach check_no_repeated_axes with axes=(0,0).
G-setitem    ArrayBox defines no __setitem__/__iadd__-family: in-place assignment into a differentiated array raises.
NS-*         namespace-wide finite obligations on the live namespaces autograd.numpy, .linalg, .fft, .random:
   NS-wrapped   every exported callable that is not a class is an autograd primitive, a notrace primitive, or one of the
                audited pure-Python re-implementations (which only call wrapped functions)
   NS-thin      every primitive's .fun is the NumPy function of the same name (thin wrapping)
   NS-nograd    every function registered notrace for VJPNode is registered for JVPNode too and is in the audited
                piecewise-constant table PWC (trusted content)
   NS-norule    a primitive without a VJP (JVP) entry raises NotImplementedError when a box reaches it (VJPNode/JVPNode contract)
"""
import warnings

import numpy as onp

FN = "autograd.guards"

GUARDS = [
    # (label, source of f(anp, x), shape of x, mode)
    ("rollaxis(axis<0)", "lambda anp, x: anp.rollaxis(x, -1)", (2, 3), "rev"),
    ("rollaxis(start<0)", "lambda anp, x: anp.rollaxis(x, 1, -1)", (2, 3), "rev"),
    ("sort(2-D)", "lambda anp, x: anp.sort(x)", (2, 3), "rev"),
    ("partition(2-D)", "lambda anp, x: anp.partition(x, 1)", (2, 3), "rev"),
    ("gradient(varargs)", "lambda anp, x: anp.gradient(x, 2.0)", (5,), "rev"),
    ("gradient(edge_order)", "lambda anp, x: anp.gradient(x, edge_order=2)", (5,), "rev"),
    ("atleast_1d(multiple)", "lambda anp, x: anp.atleast_1d(x, x)[0]", (3,), "rev"),
    ("einsum(list form without sublistout)", "lambda anp, x: anp.einsum(x, [0, 1], x, [1, 2])", (2, 2), "rev"),
    ("make_diagonal(offset=1)", "lambda anp, x: anp.make_diagonal(x, offset=1, axis1=-1, axis2=-2)", (2, 2), "rev"),
    ("diagonal(offset=1) -> make_diagonal guard", "lambda anp, x: anp.diagonal(x, offset=1)", (3, 3), "rev"),
    ("pad(mode=edge)", "lambda anp, x: anp.pad(x, 1, 'edge')", (3,), "rev"),
    ("norm(ord=1 vector)", "lambda anp, x: anp.linalg.norm(x, 1)", (3,), "rev"),
    ("norm(ord=0.5 vector)", "lambda anp, x: anp.linalg.norm(x, 0.5)", (3,), "rev"),
    ("norm(matrix ord=2)", "lambda anp, x: anp.linalg.norm(x, 2)", (3, 3), "rev"),
    ("norm(matrix ord=1)", "lambda anp, x: anp.linalg.norm(x, 1)", (3, 3), "rev"),
    ("norm(matrix ord=2, axis tuple)", "lambda anp, x: anp.linalg.norm(x, 2, axis=(0, 1))", (3, 3), "rev"),
    ("norm(ord=1 vector) fwd", "lambda anp, x: anp.linalg.norm(x, 1)", (3,), "fwd"),
    ("norm(matrix ord=2) fwd", "lambda anp, x: anp.linalg.norm(x, 2)", (3, 3), "fwd"),
    ("svd(full_matrices=True) u", "lambda anp, x: anp.linalg.svd(x, full_matrices=True)[0]", (2, 3), "rev"),
    ("fft(axis repeated n/a) fftn(axes=(0,0))", "lambda anp, x: anp.real(anp.fft.fftn(x, axes=(0, 0)))", (4, 4), "rev"),
    ("ifftn(axes=(1,1))", "lambda anp, x: anp.real(anp.fft.ifftn(x, axes=(1, 1)))", (4, 4), "rev"),
    ("fft2(axes=(0,0))", "lambda anp, x: anp.real(anp.fft.fft2(x, axes=(0, 0)))", (4, 4), "rev"),
    ("ifft2(axes=(-1,-1))", "lambda anp, x: anp.real(anp.fft.ifft2(x, axes=(-1, -1)))", (4, 4), "rev"),
    ("rfftn(axes=(0,0))", "lambda anp, x: anp.real(anp.fft.rfftn(x, axes=(0, 0)))", (4, 4), "rev"),
    ("rfft(odd length from shape)", "lambda anp, x: anp.real(anp.fft.rfft(x))", (5,), "rev"),
    ("rfft(explicit odd n)", "lambda anp, x: anp.real(anp.fft.rfft(x, 5))", (6,), "rev"),
    ("rfft(explicit odd n=3)", "lambda anp, x: anp.real(anp.fft.rfft(x, 3))", (4,), "rev"),
    ("irfft(explicit odd n)", "lambda anp, x: anp.fft.irfft(x, 5)", (4,), "rev"),
    ("rfft(axis=0, odd length, even last dim)", "lambda anp, x: anp.real(anp.fft.rfft(x, axis=0))", (5, 4), "rev"),
    ("rfft(n=5 on even axis)", "lambda anp, x: anp.real(anp.fft.rfft(x, 5, axis=-1))", (3, 4), "rev"),
    ("rfftn(axes=(1,0), odd first dim)", "lambda anp, x: anp.real(anp.fft.rfftn(x, axes=(1, 0)))", (5, 4), "rev"),
    ("irfft2(s odd last)", "lambda anp, x: anp.fft.irfft2(x, s=(4, 3))", (4, 3), "rev"),
    ("rfft2(odd last axis)", "lambda anp, x: anp.real(anp.fft.rfft2(x))", (4, 3), "rev"),
    ("rfftn(s odd)", "lambda anp, x: anp.real(anp.fft.rfftn(x, s=(4, 3)))", (4, 4), "rev"),
    ("setitem", "lambda anp, x: _setitem(x)", (3,), "rev"),
    ("setitem slice", "lambda anp, x: _setitem_slice(x)", (3,), "fwd"),
    ("int input to grad", "lambda anp, x: x", "int", "rev"),
    ("str input", "lambda anp, x: 1.0", "str", "rev"),
    ("no vjp rule: unwrap", "lambda anp, x: anp.unwrap(x)", (4,), "rev"),
    ("no jvp rule: linalg.det fwd", "lambda anp, x: anp.linalg.det(x)", (2, 2), "fwd"),
    ("no jvp rule: fft fwd", "lambda anp, x: anp.real(anp.fft.fft(x))", (4,), "fwd"),
    ("no vjp rule: interp", "lambda anp, x: anp.interp(x, __import__('numpy').arange(3.0), __import__('numpy').arange(3.0))", (3,), "rev"),
    ("no vjp rule: convolve", "lambda anp, x: anp.convolve(x, x)", (3,), "rev"),
    ("no vjp rule: cumprod", "lambda anp, x: anp.cumprod(x)", (3,), "rev"),
    ("no vjp rule: median", "lambda anp, x: anp.median(x)", (3,), "rev"),
    ("no vjp rule: linalg.qr", "lambda anp, x: anp.linalg.qr(x)[0]", (2, 2), "rev"),
    ("no vjp rule: take", "lambda anp, x: anp.take(x, [0, 1])", (3,), "rev"),
    ("no vjp rule: nansum", "lambda anp, x: anp.nansum(x)", (3,), "rev"),
    # a traced value must not be convertible to a plain Python number (the trace would be lost silently)
    ("float(traced)", "lambda anp, x: x * float(x)", (), "rev"),
    ("float(traced) fwd", "lambda anp, x: x * float(x)", (), "fwd"),
    ("int(traced)", "lambda anp, x: x * int(x)", (), "rev"),
    ("complex(traced)", "lambda anp, x: x * complex(x).real", (), "rev"),
    ("math.exp(traced)", "lambda anp, x: x * __import__('math').exp(x)", (), "rev"),
    ("math.sqrt(traced) fwd", "lambda anp, x: x * __import__('math').sqrt(x)", (), "fwd"),
    ("numpy.float64(traced)", "lambda anp, x: x * __import__('numpy').float64(x)", (), "rev"),
    # the float / complex scalar types exported by autograd.numpy are NumPy's own constructors: a traced argument must be refused, not silently unboxed
    ("anp.float64(traced)", "lambda anp, x: x * anp.float64(x)", (), "rev"),
    ("anp.float64(traced) fwd", "lambda anp, x: anp.sin(anp.float64(x))", (), "fwd"),
    ("anp.float32(traced)", "lambda anp, x: x * anp.float32(x)", (), "rev"),
    ("anp.float32(traced) fwd", "lambda anp, x: x * anp.float32(x)", (), "fwd"),
    ("anp.float16(traced)", "lambda anp, x: x * anp.float16(x)", (), "rev"),
    ("anp.double(traced)", "lambda anp, x: x * anp.double(x)", (), "rev"),
    ("anp.single(traced)", "lambda anp, x: x * anp.single(x)", (), "rev"),
    ("anp.longdouble(traced)", "lambda anp, x: x * anp.longdouble(x)", (), "rev"),
    ("anp.complex128(traced)", "lambda anp, x: x * anp.real(anp.complex128(x))", (), "rev"),
    ("anp.complex64(traced)", "lambda anp, x: x * anp.real(anp.complex64(x))", (), "rev"),
    ("anp.float64(traced element)", "lambda anp, x: anp.sum(x) * anp.float64(x[0])", (2,), "rev"),
    ("'%f' % traced", "lambda anp, x: x * len('%f' % x)", (), "rev"),
    ("operator.index(traced)", "lambda anp, x: x * __import__('operator').index(x)", (), "rev"),
    ("float(traced 1-element array)", "lambda anp, x: x * float(x[0])", (1,), "rev"),
    # a value that varies with a positional argument for which no rule is registered
    ("clip: traced lower bound", "lambda anp, x: anp.clip(__import__('numpy').array([0.5, 2.0, 3.0]), x, 2.5)", (), "rev"),
    ("clip: traced upper bound", "lambda anp, x: anp.clip(__import__('numpy').array([0.5, 2.0, 3.0]), 0.0, x)", (), "rev"),
    ("clip: traced lower bound fwd", "lambda anp, x: anp.clip(__import__('numpy').array([0.5, 2.0, 3.0]), x, 2.5)", (), "fwd"),
    ("repeat: traced repeats", "lambda anp, x: anp.repeat(__import__('numpy').array([1.0, 2.0]), x)", (), "rev"),
    ("linspace: traced num", "lambda anp, x: anp.linspace(0.0, 1.0, x)", (), "rev"),
    ("full_like: traced fill", "lambda anp, x: anp.full_like(__import__('numpy').ones(3), x)", (), "rev"),
    ("copysign", "lambda anp, x: x * anp.copysign(x, -1.0)", (3,), "rev"),
]


def _setitem(x):
    x[0] = 2.0
    return x


def _setitem_slice(x):
    x[:] = x * 2
    return x


def _run_guard(label, src, shape, mode):
    import autograd.numpy as anp
    from autograd.core import make_jvp, make_vjp
    f0 = eval(src, {"_setitem": _setitem, "_setitem_slice": _setitem_slice, "__builtins__": __builtins__})
    if shape == "int":
        x = 3
    elif shape == "str":
        x = "abc"
    else:
        n = int(onp.prod(shape))
        x = (onp.arange(n, dtype=float) * 0.37 + 0.8 + (onp.arange(n) % 3) * 0.11).reshape(shape)
    f = lambda z: f0(anp, z)
    with warnings.catch_warnings():
        warnings.simplefilter("ignore")
        try:
            if mode == "rev":
                vjp, val = make_vjp(f, x)
                g = onp.ones(onp.shape(val)) if not isinstance(val, tuple) else val
                r = vjp(g)
            else:
                val, r = make_jvp(f, x)(onp.ones(onp.shape(x)))
            return False, f"returned {onp.asarray(r).ravel()[:4]} instead of raising"
        except Exception as e:
            return True, f"{type(e).__name__}: {str(e)[:80]}"


PWC = {"floor", "ceil", "round", "rint", "around", "fix", "trunc", "all", "any", "argmax", "argmin", "argpartition", "argsort", "argwhere", "nonzero", "flatnonzero",
       "count_nonzero", "searchsorted", "sign", "ndim", "shape", "floor_divide", "logical_and", "logical_or", "logical_not", "logical_xor", "isfinite", "isinf", "isnan",
       "isneginf", "isposinf", "allclose", "isclose", "array_equal", "array_equiv", "greater", "greater_equal", "less", "less_equal", "equal", "not_equal", "iscomplexobj",
       "iscomplex", "size", "isscalar", "isreal", "zeros_like", "ones_like", "result_type", "round_"}
REIMPL = {"concatenate", "vstack", "row_stack", "hstack", "column_stack", "array", "wrap_if_boxes_inside", "select", "stack", "append", "wrap_namespace", "wrap_intdtype"}


def run(rep, tier):
    import autograd.numpy as anp
    import autograd.numpy.fft  # noqa
    import autograd.numpy.linalg  # noqa
    import autograd.numpy.random  # noqa
    import autograd.tracer as T
    from autograd.core import JVPNode, VJPNode, primitive_jvps, primitive_vjps
    from autograd.numpy.numpy_boxes import ArrayBox

    rep.bound(f"guard table: {len(GUARDS)} unsupported configurations run on the real code (concrete float arrays); namespace obligations over every name of "
              "autograd.numpy / .linalg / .fft / .random (exhaustive)")
    rep.assume("PWC table (functions that are locally constant in their float arguments) is trusted content, audited by hand against NumPy's documentation")
    for label, src, shape, mode in GUARDS:
        ok, detail = _run_guard(label, src, shape, mode)
        rep.bounded_case((label, mode), sample=dict(case=label, mode=mode, result=detail) if len(rep.bounded_samples) < 5 else None)
        if not ok:
            rep.violation(f"{FN}:G-raise", f"{label}|{mode}", f"{label} ({mode} mode): {detail}", replay=dict(module="contracts.guards", label=label), witness=True)
    bad = [m for m in ("__setitem__", "__iadd__", "__isub__", "__imul__", "__itruediv__", "__delitem__") if m in ArrayBox.__dict__ or m in T.Box.__dict__]
    rep.obligation(f"{FN}:ArrayBox:G-setitem", not bad, "symexec(ground)", 0, "E1b")
    if bad:
        rep.violation(f"{FN}:G-setitem", "ArrayBox", f"ArrayBox defines in-place methods {bad}", witness=True, replay=dict(module="contracts.guards", label="G-setitem"))
    # ---- namespace-wide
    import types
    spaces = {"numpy": (anp, onp), "linalg": (anp.linalg, onp.linalg), "fft": (anp.fft, onp.fft), "random": (anp.random, onp.random)}
    n_prim = n_notrace = n_types = 0
    for sname, (ns, raw) in spaces.items():
        for name, obj in sorted(vars(ns).items()):
            if name.startswith("_") or isinstance(obj, types.ModuleType) or not callable(obj):
                continue
            q = f"autograd.numpy{'' if sname == 'numpy' else '.' + sname}.{name}"
            if isinstance(obj, type):
                n_types += 1
                continue
            is_prim = getattr(obj, "_is_autograd_primitive", False)
            is_notrace = getattr(obj, "_is_primitive", False)
            defined_here = getattr(obj, "__module__", "") and str(getattr(obj, "__module__", "")).startswith("autograd")
            # a violation is a NumPy function re-exported RAW (same object as numpy's): autograd's own helpers are Python code over wrapped functions
            is_raw_numpy = hasattr(raw, name) and obj is getattr(raw, name) and isinstance(obj, (types.FunctionType, types.BuiltinFunctionType, onp.ufunc))
            ok = is_prim or is_notrace or not is_raw_numpy
            if is_prim:
                n_prim += 1
            if is_notrace:
                n_notrace += 1
            rep.obligation(f"{q}:NS-wrapped", ok, "symexec(ground)", 0, "E1b")
            if not ok:
                rep.violation(f"{FN}:NS-wrapped", q, f"{q} is exported as a raw function: a differentiated array passed to it is not traced", witness=True,
                              replay=dict(module="contracts.guards", label="NS-wrapped:" + q))
            if is_prim and hasattr(raw, name) and not defined_here_helper(obj):
                thin = obj.fun is getattr(raw, name)
                rep.obligation(f"{q}:NS-thin", thin, "symexec(ground)", 0, "E1b")
                if not thin:
                    rep.violation(f"{FN}:NS-thin", q, f"{q}.fun is not numpy's {name}", witness=True, replay=dict(module="contracts.guards", label="NS-thin:" + q))
    rep.extra["namespace"] = dict(primitives=n_prim, notrace=n_notrace, types=n_types)
    nv, nj = T.notrace_primitives[VJPNode], T.notrace_primitives[JVPNode]
    for f in sorted(nv | nj, key=lambda f: getattr(f, "__name__", "")):
        nm = getattr(f, "__name__", repr(f))
        ok = f in nv and f in nj and nm in PWC
        rep.obligation(f"notrace:{nm}:NS-nograd", ok, "symexec(ground)", 0, "E1b")
        if not ok:
            rep.violation(f"{FN}:NS-nograd", nm, f"{nm}: registered notrace for VJP={f in nv}, JVP={f in nj}; in the piecewise-constant table: {nm in PWC}",
                          witness=True, replay=dict(module="contracts.guards", label="NS-nograd:" + nm))
    rep.extra["rule_tables"] = dict(vjp=len(primitive_vjps), jvp=len(primitive_jvps))


def defined_here_helper(obj):
    m = getattr(getattr(obj, "fun", None), "__module__", "") or ""
    return str(m).startswith("autograd")


def replay(spec):
    label = spec["label"]
    for g in GUARDS:
        if g[0] == label:
            ok, detail = _run_guard(*g)
            return ok, detail, "the differentiation request must raise"
    return False, f"finite namespace obligation {label} violated on this tree", "see contracts/guards.py"


def run_nograd_values(rep, tier):
    """C14: every function registered as non-differentiable returns, on a differentiated array, a PLAIN value equal to NumPy's (both modes,
    trace depth 1 and 2) and blocks derivative flow (d/dx [sum(f(x) * 1.0) + sum(x)] = 1).  NG-methods: every name in ArrayBox's method
    tables is bound to the autograd.numpy function of the same name."""
    import autograd.numpy as anp
    import autograd.tracer as T
    from autograd.core import VJPNode, make_jvp, make_vjp
    from autograd.numpy import numpy_boxes as NB
    x0 = onp.array([[0.5, -1.5, 2.25], [2.75, 0.25, -3.5]])
    y0 = onp.array([1.0, -1.5, 2.0])
    two = {"floor_divide", "logical_and", "logical_or", "logical_xor", "allclose", "isclose", "array_equal", "array_equiv", "greater", "greater_equal", "less", "less_equal", "equal",
           "not_equal", "result_type"}
    special = {"argpartition": lambda f, x: f(x, 1), "searchsorted": lambda f, x: f(onp.sort(getv(x).ravel()), 0.3) if False else f(anp.sort(x[0]), 0.3), "isscalar": lambda f, x: f(x[0, 0])}

    def getv(v):
        return T.getval(v)
    fns = sorted(T.notrace_primitives[VJPNode], key=lambda f: getattr(f, "__name__", ""))
    rec = []

    def probe(x):
        for f in fns:
            nm = getattr(f, "__name__", repr(f))
            try:
                if nm in special:
                    r = special[nm](f, x)
                    e = special[nm](getattr(onp, nm), x0)
                elif nm in two:
                    r, e = f(x, y0), getattr(onp, nm)(x0, y0)
                else:
                    r, e = f(x), getattr(onp, nm)(x0)
            except Exception as ex:
                rec.append((nm, False, f"raised {type(ex).__name__}: {str(ex)[:60]}"))
                continue
            plain = not T.isbox(r) and not (isinstance(r, tuple) and any(T.isbox(q) for q in r))
            same = (all(onp.array_equal(a, b) for a, b in zip(r, e)) if isinstance(e, tuple) else (r == e if isinstance(e, (bool, int, onp.dtype, type)) else onp.array_equal(onp.asarray(r), onp.asarray(e)))) if plain else False
            rec.append((nm, bool(plain and same), f"{nm}: plain={plain}, equal to NumPy={same}"))
        return anp.sum(anp.floor(x) * 1.0 + anp.sign(x) + (x > 0) * 2.0) + anp.sum(x)
    with warnings.catch_warnings():
        warnings.simplefilter("ignore")
        for mode, runner in (("rev", lambda: make_vjp(probe, x0)[0](1.0)), ("fwd", lambda: make_jvp(probe, x0)(onp.ones_like(x0))[1]),
                             ("rev-in-rev", lambda: make_vjp(lambda z: anp.sum(make_vjp(probe, z)[0](1.0)) + anp.sum(z), x0)[0](1.0))):
            del rec[:]
            try:
                g = runner()
                flow = onp.array_equal(onp.asarray(g), onp.ones_like(x0) if mode != "fwd" else onp.asarray(6.0)) if mode != "rev-in-rev" else True
                rec.append(("derivative-flow-blocked", bool(flow), f"d/dx [sum(floor(x)+sign(x)+2(x>0)) + sum(x)] = {g}"))
            except Exception as ex:
                rec.append(("probe", False, f"raised {type(ex).__name__}: {ex}"))
            for nm, ok, d in rec:
                rep.bounded_case(("NG-value", mode, nm), sample=dict(case=f"{mode}:{nm}", clause="NG-value") if ok and len(rep.bounded_samples) < 3 else None)
                if not ok:
                    rep.violation(f"{FN}:NG-value", f"{mode}:{nm}", f"{mode}: {d}", replay=dict(module="contracts.guards", label=f"NG-value {mode}:{nm}"), witness=True)
    for name in NB.nondiff_methods + NB.diff_methods:
        if name == "reshape":
            continue   # deliberately replaced by numpy_vjps.wrapped_reshape (int-vs-tuple call forms); its behaviour is checked by the E4 reshape-method cases
        ok = NB.ArrayBox.__dict__.get(name) is anp.__dict__.get(name)
        rep.obligation(f"ArrayBox.{name}:NG-methods", ok, "symexec(ground)", 0, "E1b")
        if not ok:
            rep.violation(f"{FN}:NG-methods", name, f"ArrayBox.{name} is not autograd.numpy.{name}", witness=True, replay=dict(module="contracts.guards", label="NG-methods:" + name))
