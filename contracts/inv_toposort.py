"""Sidecar contract of autograd.util.toposort for the E1a VC generator (specification only - no restatement of the body).

requires  parents is a deterministic total function node -> finite sequence (npar, par); the graph under end_node is a DAG
          (witness `rank`: rank(par(m,i)) > rank(m)); R = reach(end_node) (closure axioms + least-fixpoint instances)
ensures   T1 set(OUT) = R     T2 OUT has no duplicates     T3 every node precedes each of its parents     T4 OUT[0] = end_node
          and no KeyError / pop from an empty list (safety obligations emitted by the translator)
Ghost state
  loop 1  per stack position the EDGE it stands for (gsrc, gidx; gidx = -1 is the initial push), the set of counted edges Cnt,
          stack position pos of every not-yet-counted edge out of a key, and a bijection slot / (eAtS, eAtI) between the counted
          edges into n and [0, child_counts[n])
  loop 2  processed edges Proc, node status st (0 unseen, 1 on childless_nodes, 2 yielded), yield index yidx, position cpos;
          the bijection now ranges over the REMAINING (unprocessed) edges into every unseen node; when an edge is processed
          the last slot is moved into its place
Lemmas used (instances, stated where they are used): least-fixpoint induction for R (twice), well-founded descent on rank (L1).
"""
import z3

I, B = z3.IntSort(), z3.BoolSort()
Node = z3.DeclareSort("Node")
npar = z3.Function("npar", Node, I)
par = z3.Function("par", Node, I, Node)
rank = z3.Function("rank", Node, I)
R = z3.Function("R", Node, B)
END = z3.Const("end_node", Node)
m, n, p = z3.Consts("m n p", Node)
i, k, s, t = z3.Ints("i k s t")

FUNCTION = "autograd.util.toposort"
PARENTS_FUN = {"parents"}
ELEM_KIND = "node"
DICT_SORTS = {"*": (Node, I)}
DICT_VAL = {}
EXPECT = dict(loops=3)

AXIOMS = [
    z3.ForAll([m], npar(m) >= 0),
    z3.ForAll([m, i], z3.Implies(z3.And(0 <= i, i < npar(m)), rank(par(m, i)) > rank(m))),            # DAG witness
    R(END),
    z3.ForAll([m, i], z3.Implies(z3.And(R(m), 0 <= i, i < npar(m)), R(par(m, i)))),                   # closure of reach
    # least-fixpoint induction for R instantiated with P(n) := rank(n) >= rank(end): P(end) and P closed under par by the DAG axiom
    z3.ForAll([m], z3.Implies(R(m), rank(m) >= rank(END))),
]


def A2(name, *dom, rng):
    return z3.Array(name, *dom, rng)


def init(gen, st, tree):
    args = [a.arg for a in tree.args.args]
    if len(args) != 2:
        from vlib.pyvc import ExtractError
        raise ExtractError(f"signature changed: {args}")
    st.v[args[0]] = ("node", END)     # parameters are bound by position: (end node, parents function)
    PARENTS_FUN.clear()
    PARENTS_FUN.add(args[1])
    g = st.g
    g["OUT"], g["OUTLEN"] = z3.Array("OUT0", I, Node), z3.IntVal(0)
    for nm, a in dict(gsrc=z3.Array("gsrc0", I, Node), gidx=z3.Array("gidx0", I, I), Cnt=A2("Cnt0", Node, I, rng=B), cntINIT=z3.BoolVal(False),
                      pos=A2("pos0", Node, I, rng=I), slot=A2("slot0", Node, I, rng=I), eAtS=A2("eAtS0", Node, I, rng=Node), eAtI=A2("eAtI0", Node, I, rng=I),
                      Proc=A2("Proc0", Node, I, rng=B), st_=z3.Array("st0", Node, I), yidx=z3.Array("yidx0", Node, I), cpos=z3.Array("cpos0", Node, I),
                      ces=z3.Const("ces0", Node), cei=z3.Int("cei0"), j=z3.IntVal(0)).items():
        g[nm] = a


class X:
    """named view of a state"""

    def __init__(self, gen, st):
        # program variables are bound by ROLE (initializer pattern / ordinal), never by their names:
        #   D1 = the local initialised with {}            (child_counts)      L1 = the first local initialised with [<end_node>]  (stack)
        #   L2 = the second such local (childless_nodes)  P2 = the target of the second list pop (node of loop 2)
        v, g = st.v, st.g
        cc = gen.var(st, "D1")
        self.K = (lambda x: z3.Select(cc[1], x)) if cc else None
        self.val = (lambda x: z3.Select(cc[2], x)) if cc else None
        for role, nm in (("L1", "stack"), ("L2", "childless_nodes")):
            c_ = gen.var(st, role)
            if c_:
                setattr(self, nm, c_[1])
                setattr(self, nm + "_len", c_[2])
        self.g = g
        for q in ("gsrc", "gidx", "st_", "yidx", "cpos", "OUT"):
            setattr(self, q, (lambda a: (lambda x: z3.Select(a, x)))(g[q]))
        for q in ("Cnt", "pos", "slot", "eAtS", "eAtI", "Proc"):
            setattr(self, q, (lambda a: (lambda x, y: z3.Select(a, x, y)))(g[q]))
        self.cntINIT, self.olen, self.j = g["cntINIT"], g["OUTLEN"], g["j"]
        nd = gen.var(st, "P2")
        self.node = nd[1] if nd else None


def edge(x, a, b):
    return z3.And(x.K(a), 0 <= b, b < npar(a))


# ------------------------------------------------------------------------------------------------------------------ loop 1
def inv1(gen, st):
    x = X(gen, st)
    L, ST = x.stack_len, x.stack
    tgt = par(x.eAtS(n, s), x.eAtI(n, s))
    return [
        ("len>=0", L >= 0),
        ("stack-entry-is-target-of-its-edge", z3.ForAll([k], z3.Implies(z3.And(0 <= k, k < L), z3.And(
            x.gidx(k) >= -1,
            z3.Implies(x.gidx(k) == -1, z3.And(z3.Select(ST, k) == END, z3.Not(x.cntINIT))),
            z3.Implies(x.gidx(k) >= 0, z3.And(edge(x, x.gsrc(k), x.gidx(k)), z3.Select(ST, k) == par(x.gsrc(k), x.gidx(k)),
                                               z3.Not(x.Cnt(x.gsrc(k), x.gidx(k))), x.pos(x.gsrc(k), x.gidx(k)) == k)))))),
        ("uncounted-edge-of-a-key-is-on-the-stack", z3.ForAll([m, i], z3.Implies(z3.And(edge(x, m, i), z3.Not(x.Cnt(m, i))), z3.And(
            0 <= x.pos(m, i), x.pos(m, i) < L, x.gsrc(x.pos(m, i)) == m, x.gidx(x.pos(m, i)) == i)))),
        ("initial-push", z3.And(z3.Implies(z3.Not(x.cntINIT), z3.And(L == 1, x.gidx(0) == -1, z3.ForAll([n], z3.Not(x.K(n))))),
                                z3.Implies(x.cntINIT, z3.And(x.K(END), x.eAtI(END, 0) == -1, z3.ForAll([k], z3.Implies(z3.And(0 <= k, k < L), x.gidx(k) >= 0)))))),
        ("counted-edge-joins-keys", z3.ForAll([m, i], z3.Implies(x.Cnt(m, i), z3.And(edge(x, m, i), x.K(par(m, i)))))),
        ("slot-of-counted-edge", z3.ForAll([m, i], z3.Implies(x.Cnt(m, i), z3.And(0 <= x.slot(m, i), x.slot(m, i) < x.val(par(m, i)),
                                                                                 x.eAtS(par(m, i), x.slot(m, i)) == m, x.eAtI(par(m, i), x.slot(m, i)) == i)))),
        ("every-slot-holds-a-counted-edge", z3.ForAll([n, s], z3.Implies(z3.And(x.K(n), 0 <= s, s < x.val(n)), z3.Or(
            z3.And(x.eAtI(n, s) == -1, n == END, s == 0, x.cntINIT),
            z3.And(x.eAtI(n, s) >= 0, x.Cnt(x.eAtS(n, s), x.eAtI(n, s)), tgt == n, x.slot(x.eAtS(n, s), x.eAtI(n, s)) == s))))),
        ("keys-positive-and-reachable", z3.ForAll([n], z3.Implies(x.K(n), z3.And(x.val(n) >= 1, R(n))))),
    ]


# ------------------------------------------------------------------------------------------------------------------ loop 2 / 3
def inv2_common(x, cur=None, j=None):
    """clauses shared by the outer loop head (cur=None) and the inner loop head (cur = node being expanded, j = next parent)"""
    C, CL = x.childless_nodes, x.childless_nodes_len
    proc_all = (lambda a: z3.ForAll([i], z3.Implies(z3.And(0 <= i, i < npar(a)), x.Proc(a, i))))
    cl = [
        ("keys-are-reach-and-closed", z3.And(z3.ForAll([n], x.K(n) == R(n)), x.K(END))),
        ("childless-entries", z3.And(CL >= 0, z3.ForAll([k], z3.Implies(z3.And(0 <= k, k < CL), z3.And(x.K(z3.Select(C, k)), x.st_(z3.Select(C, k)) == 1, x.cpos(z3.Select(C, k)) == k))),
                                     z3.ForAll([n], z3.Implies(x.st_(n) == 1, z3.And(0 <= x.cpos(n), x.cpos(n) < CL, z3.Select(C, x.cpos(n)) == n))))),
        ("yielded-entries", z3.And(x.olen >= 0, z3.ForAll([t], z3.Implies(z3.And(0 <= t, t < x.olen), z3.And(x.st_(x.OUT(t)) == 2, x.yidx(x.OUT(t)) == t))),
                                   z3.ForAll([n], z3.Implies(x.st_(n) == 2, z3.And(0 <= x.yidx(n), x.yidx(n) < x.olen, x.OUT(x.yidx(n)) == n))))),
        ("status-range", z3.ForAll([n], z3.And(0 <= x.st_(n), x.st_(n) <= 2, z3.Implies(x.st_(n) != 0, x.K(n))))),
        ("processed-edges-leave-yielded-nodes", z3.ForAll([m, i], z3.Implies(x.Proc(m, i), z3.And(edge(x, m, i), x.st_(m) == 2)))),
        ("yielded-nodes-are-fully-expanded", z3.ForAll([m], z3.Implies(z3.And(x.st_(m) == 2, (m != cur) if cur is not None else z3.BoolVal(True)), proc_all(m)))),
        ("remaining-edge-has-a-slot", z3.ForAll([m, i], z3.Implies(z3.And(edge(x, m, i), z3.Not(x.Proc(m, i))), z3.And(
            x.st_(par(m, i)) == 0, 0 <= x.slot(m, i), x.slot(m, i) < x.val(par(m, i)), x.eAtS(par(m, i), x.slot(m, i)) == m, x.eAtI(par(m, i), x.slot(m, i)) == i)))),
        ("slot-of-unseen-node-holds-a-remaining-edge", z3.ForAll([n, s], z3.Implies(z3.And(x.K(n), x.st_(n) == 0, 0 <= s, s < x.val(n)), z3.And(
            edge(x, x.eAtS(n, s), x.eAtI(n, s)), par(x.eAtS(n, s), x.eAtI(n, s)) == n, z3.Not(x.Proc(x.eAtS(n, s), x.eAtI(n, s))), x.slot(x.eAtS(n, s), x.eAtI(n, s)) == s)))),
        ("unseen-key-has-positive-count", z3.ForAll([n], z3.Implies(z3.And(x.K(n), x.st_(n) == 0), x.val(n) >= 1))),
        ("T3-consumer-before-parent", z3.ForAll([m, i], z3.Implies(z3.And(x.Proc(m, i), x.st_(par(m, i)) == 2), x.yidx(m) < x.yidx(par(m, i))))),
        ("T4-first-is-end", z3.And(x.st_(END) >= 1, z3.Implies(x.olen >= 1, x.OUT(0) == END), z3.Implies(x.olen == 0, z3.And(CL == 1, z3.Select(C, 0) == END)))),
    ]
    if cur is not None:
        cl += [("current-node", z3.And(x.K(cur), x.st_(cur) == 2, 0 <= j, j <= npar(cur), x.olen >= 1,
                                       z3.ForAll([i], z3.Implies(z3.And(0 <= i, i < npar(cur)), x.Proc(cur, i) == (i < j)))))]
    return cl


def inv2(gen, st):
    return inv2_common(X(gen, st))


def inv3(gen, st):
    x = X(gen, st)
    return inv2_common(x, cur=x.node, j=x.j)


LOOPS = {
    1: dict(invariant=inv1, ghost_modified=["gsrc", "gidx", "Cnt", "cntINIT", "pos", "slot", "eAtS", "eAtI", "ces", "cei"]),
    2: dict(invariant=inv2, ghost_modified=["OUT", "OUTLEN", "Proc", "st_", "yidx", "cpos", "slot", "eAtS", "eAtI", "j"]),
    3: dict(invariant=inv3, ghost_modified=["Proc", "st_", "cpos", "slot", "eAtS", "eAtI", "j"]),
}


# ------------------------------------------------------------------------------------------------------------------ ghost updates
def h_newlist1(gen, st, name):
    g = st.g
    g["gidx"] = z3.Store(g["gidx"], 0, -1)
    st.pc.append(z3.ForAll([m, i], z3.Not(z3.Select(g["Cnt"], m, i))))


def h_pop1(gen, st, var, lst):
    L = st.v[lst][2]
    st.g["ces"], st.g["cei"] = z3.Select(st.g["gsrc"], L), z3.Select(st.g["gidx"], L)


def _count_edge(st, node, oldcount):
    g = st.g
    ces, cei = g["ces"], g["cei"]
    real = cei >= 0
    g["cntINIT"] = z3.Or(g["cntINIT"], cei == -1)
    g["Cnt"] = z3.If(real, z3.Store(g["Cnt"], ces, cei, True), g["Cnt"])
    g["slot"] = z3.If(real, z3.Store(g["slot"], ces, cei, oldcount), g["slot"])
    g["eAtS"] = z3.Store(g["eAtS"], node, oldcount, ces)
    g["eAtI"] = z3.Store(g["eAtI"], node, oldcount, cei)


def h_dstore_count(gen, st, key, present, old, new, drole):
    """every store into the child-count dict while the graph is being walked (first visit `= 1`, later visits `+= 1`, or any equivalent spelling):
    the edge that is being counted takes slot number `old count` (0 if the key was absent)"""
    _count_edge(st, key, z3.If(present, old, z3.IntVal(0)))


def h_extend1(gen, st, lst, src, base):
    g = st.g
    nn = npar(src)
    gs, gi, ps = gen.fresh("gsrc", g["gsrc"].sort()), gen.fresh("gidx", g["gidx"].sort()), gen.fresh("pos", g["pos"].sort())
    inr = z3.And(k >= base, k < base + nn)
    st.pc.append(z3.ForAll([k], z3.And(z3.Select(gs, k) == z3.If(inr, src, z3.Select(g["gsrc"], k)), z3.Select(gi, k) == z3.If(inr, k - base, z3.Select(g["gidx"], k)))))
    st.pc.append(z3.ForAll([m, i], z3.Select(ps, m, i) == z3.If(z3.And(m == src, 0 <= i, i < nn), base + i, z3.Select(g["pos"], m, i))))
    g["gsrc"], g["gidx"], g["pos"] = gs, gi, ps


def h_loopexit1(gen, st):
    x = X(gen, st)
    # least-fixpoint induction for R instantiated with P := keys(child_counts): if P contains end and is closed under par, R is inside P
    st.pc.append(z3.Implies(z3.And(x.K(END), z3.ForAll([m, i], z3.Implies(edge(x, m, i), x.K(par(m, i))))), z3.ForAll([n], z3.Implies(R(n), x.K(n)))))


def h_newlist2(gen, st, name):
    g = st.g
    st.pc.append(z3.ForAll([m, i], z3.Not(z3.Select(g["Proc"], m, i))))
    st.pc.append(z3.ForAll([n], z3.Select(g["st_"], n) == z3.If(n == END, 1, 0)))
    g["cpos"] = z3.Store(g["cpos"], END, 0)


def h_yield1(gen, st, elem, at):
    g = st.g
    g["st_"] = z3.Store(g["st_"], elem, 2)
    g["yidx"] = z3.Store(g["yidx"], elem, at)


def h_append1(gen, st, lst, elem, at):
    g = st.g
    node = gen.var(st, "P2")[1]
    g["st_"] = z3.Store(g["st_"], elem, 1)
    g["cpos"] = z3.Store(g["cpos"], elem, at)
    g["Proc"] = z3.Store(g["Proc"], node, g["j"], True)


def h_dstore_release(gen, st, key, present, old, new, drole):
    """a store into the child-count dict while the sorted nodes are being emitted: one counted edge into `key` is released"""
    g = st.g
    node, j = gen.var(st, "P2")[1], g["j"]
    sl = z3.Select(g["slot"], node, j)
    last = old - 1
    Ls, Li = z3.Select(g["eAtS"], key, last), z3.Select(g["eAtI"], key, last)
    g["Proc"] = z3.Store(g["Proc"], node, j, True)
    g["eAtS"] = z3.Store(g["eAtS"], key, sl, Ls)
    g["eAtI"] = z3.Store(g["eAtI"], key, sl, Li)
    g["slot"] = z3.Store(g["slot"], Ls, Li, sl)


def h_loopexit2(gen, st):
    x = X(gen, st)
    U = lambda a: z3.And(x.K(a), x.st_(a) != 2)
    w = lambda a: x.eAtS(a, 0)
    # L1 (well-founded descent on an integer rank bounded below), instantiated with U = un-yielded keys and witness w = source of slot 0
    st.pc.append(z3.Implies(z3.ForAll([n], z3.Implies(U(n), z3.And(U(w(n)), rank(w(n)) < rank(n), rank(n) >= rank(END)))), z3.ForAll([n], z3.Not(U(n)))))


HOOKS = {"newlist#1": h_newlist1, "pop#1": h_pop1, "dstore@L1": h_dstore_count, "extend#1": h_extend1, "loopexit#1": h_loopexit1,
         "newlist#2": h_newlist2, "yield#1": h_yield1, "append#1": h_append1, "dstore@L3": h_dstore_release, "loopexit#2": h_loopexit2}


# ------------------------------------------------------------------------------------------------------------------ for-loop protocol
def _iter_src(gen, st, s):
    src = gen.parents_call(s.iter, st)
    if src is None:
        from vlib.pyvc import ExtractError
        raise ExtractError("for-loop does not iterate over parents(<node>)")
    return src


def for_init(gen, st, lid, s):
    st.g["j"] = z3.IntVal(0)


def for_havoc(gen, st, lid, s):
    pass


def for_cond(gen, st, lid, s):
    return st.g["j"] < npar(_iter_src(gen, st, s))


def for_bind(gen, st, lid, s):
    st.v[s.target.id] = ("node", par(_iter_src(gen, st, s), st.g["j"]))


def for_step(gen, st, lid, s):
    st.g["j"] = st.g["j"] + 1


def call(gen, st, name, v):
    return None


def post(gen, st):
    x = X(gen, st)
    return [
        ("T1-yields-exactly-the-reachable-nodes", z3.And(z3.ForAll([t], z3.Implies(z3.And(0 <= t, t < x.olen), R(x.OUT(t)))),
                                                       z3.ForAll([n], z3.Implies(R(n), z3.And(0 <= x.yidx(n), x.yidx(n) < x.olen, x.OUT(x.yidx(n)) == n))))),
        ("T2-no-duplicates", z3.ForAll([s, t], z3.Implies(z3.And(0 <= s, s < t, t < x.olen), x.OUT(s) != x.OUT(t)))),
        ("T3-every-node-precedes-its-parents", z3.ForAll([m, i], z3.Implies(z3.And(R(m), 0 <= i, i < npar(m)), x.yidx(m) < x.yidx(par(m, i))))),
        ("T4-first-is-end", z3.And(x.olen >= 1, x.OUT(0) == END)),
    ]
