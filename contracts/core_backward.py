"""Contracts of autograd.util.toposort (T1-T4) and autograd.core.backward_pass (B1-B6)  (DESIGN §4).

This module holds the RUN-TIME form of the two contracts and evaluates it on the real functions over an exhaustive
enumeration of small trace graphs (bounded stand-in / witness search; never counted as proved).  The unbounded proof of
the same clauses is generated from the AST by vlib/pyvc.py (E1a) with the invariants of contracts/inv_toposort.py.

toposort(end_node, parents)   requires: finite DAG under end_node
   T1 set(S) = reach(end_node)   T2 no duplicates   T3 every node precedes each of its parents   T4 S[0] = end_node
backward_pass(g, end_node)    requires: trace graph (DAG, one root, every other node has >= 1 parent, len(vjp(.)) = #parents)
   B1 node.vjp is applied exactly once per reachable node
   B2 its argument is G(node): G(end) = g, G(n) = sum of vjp_m(G(m))[k] over all edges (m,k) into n   (all consumers first)
   B3 the k-th ingrad goes to the k-th parent (multi-edges counted separately)
   B4 no KeyError        B5 returns G(root)
   B6 every in-place write targets a buffer allocated during this call; g, rule outputs and cotangents already handed to
      a rule are never modified afterwards
Sums are compared as multisets of contributions (commutativity/associativity of the vspace addition is C13's business).
"""
import itertools
import os
import re
import random

from vlib import stubs
from vlib.common import seed
from vlib.stubs import Opaque, ovs

FN_T = "autograd.util.toposort"
FN_B = "autograd.core.backward_pass"


class GNode:
    __slots__ = ["idx", "parents", "mode", "calls", "log"]

    def __init__(self, idx, mode, log):
        self.idx, self.mode, self.calls, self.log, self.parents = idx, mode, 0, log, ()

    def vjp(self, g):
        self.calls += 1
        self.log.append((self.idx, g, g.term))
        if self.mode == "pass":  # identity rules (add, reshape of same buffer...) hand back the cotangent object itself
            return tuple(g for _ in self.parents)
        if self.mode == "gen":   # rules registered through the generic path return a generator
            return (Opaque(("vjp", self.idx, k, g.term)) for k in range(len(self.parents)))
        return tuple(Opaque(("vjp", self.idx, k, g.term)) for k in range(len(self.parents)))

    def __repr__(self):
        return f"n{self.idx}"


def build(graph, modes):
    """graph: tuple of parent-index tuples; node 0 is the end node, the last node the root."""
    log = []
    nodes = [GNode(i, modes[i], log) for i in range(len(graph))]
    for i, ps in enumerate(graph):
        nodes[i].parents = tuple(nodes[j] for j in ps)
    return nodes, log


def canon(t):
    if isinstance(t, tuple) and t and t[0] == "+":
        leaves = []

        def walk(x):
            if isinstance(x, tuple) and x and x[0] == "+":
                walk(x[1]); walk(x[2])
            else:
                leaves.append(canon(x))
        walk(t)
        return ("sum", tuple(sorted(leaves, key=repr)))
    if isinstance(t, tuple):
        return tuple(canon(x) for x in t)
    return t


def reach(graph):
    seen, st = set(), [0]
    while st:
        i = st.pop()
        if i not in seen:
            seen.add(i)
            st.extend(graph[i])
    return seen


def expected_G(graph, modes):
    """The adjoint recurrence (spec): G in canonical form, consumers before producers (indices increase along edges)."""
    R = reach(graph)
    G = {0: ("g",)}
    contrib = {i: [] for i in R}
    for m in sorted(R):
        if m != 0:
            cs = contrib[m]
            G[m] = cs[0] if len(cs) == 1 else ("sum", tuple(sorted(_flat(cs), key=repr)))
        for k, p in enumerate(graph[m]):
            contrib[p].append(G[m] if modes[m] == "pass" else ("vjp", m, k, G[m]))
    return G


def _flat(cs):
    out = []
    for c in cs:
        if isinstance(c, tuple) and c and c[0] == "sum":
            out.extend(c[1])
        else:
            out.append(c)
    return out


def check_toposort(U, graph):
    nodes, _ = build(graph, ["fresh"] * len(graph))
    try:
        S = list(U.toposort(nodes[0]))
    except Exception as e:
        return f"raised {type(e).__name__}: {e}"
    idx = [n.idx for n in S]
    R = reach(graph)
    if set(idx) != R:
        return f"T1: yielded {idx}, reachable {sorted(R)}"
    if len(idx) != len(set(idx)):
        return f"T2: duplicates in {idx}"
    pos = {n: i for i, n in enumerate(idx)}
    for m in R:
        for p in graph[m]:
            if not pos[m] < pos[p]:
                return f"T3: node {m} not before its parent {p} in {idx}"
    if idx[0] != 0:
        return f"T4: first yielded is {idx[0]}"
    return None


def check_backward(C, graph, modes):
    ovs()
    nodes, log = build(graph, modes)
    del stubs.WRITES[:]
    g = Opaque(("g",), owned=False)
    try:
        res = C.backward_pass(g, nodes[0])
    except Exception as e:
        return f"B4/raised {type(e).__name__}: {e}"
    R = reach(graph)
    for i in range(len(graph)):
        want = 1 if i in R else 0
        if nodes[i].calls != want:
            return f"B1: rule of node {i} applied {nodes[i].calls} times (expected {want})"
    G = expected_G(graph, modes)
    for idx, gobj, term_at_call in log:
        if canon(term_at_call) != G[idx] and _flatten_sum(canon(term_at_call)) != _flatten_sum(G[idx]):
            return f"B2/B3: rule of node {idx} received {canon(term_at_call)}, adjoint recurrence gives {G[idx]}"
        if gobj.term != term_at_call:
            return f"B6: cotangent handed to the rule of node {idx} was modified afterwards"
    root = len(graph) - 1
    if _flatten_sum(canon(getattr(res, "term", None))) != _flatten_sum(G[root]):
        return f"B5: returned {canon(getattr(res, 'term', None))}, expected G(root) = {G[root]}"
    if g.term != ("g",):
        return "B6: the caller's cotangent g was modified"
    for obj, owned in stubs.WRITES:
        if owned is not True:
            return f"B6: in-place write into memory not allocated by this backward pass ({obj})"
    return None


def _flatten_sum(t):
    """canonical multiset of leaves with nested sums flattened (sum of sums = sum)."""
    if isinstance(t, tuple) and t and t[0] == "sum":
        leaves = []
        for x in t[1]:
            f = _flatten_sum(x)
            if isinstance(f, tuple) and f and f[0] == "sum":
                leaves.extend(f[1])
            else:
                leaves.append(f)
        return ("sum", tuple(sorted(leaves, key=repr)))
    if isinstance(t, tuple):
        return tuple(_flatten_sum(x) for x in t)
    return t


def graphs(n, maxp):
    """All trace graphs on n nodes (indices increase along edges; last node is the only root), parents as sequences."""
    choices = []
    for i in range(n - 1):
        later = range(i + 1, n)
        seqs = []
        for k in range(1, maxp + 1):
            seqs.extend(itertools.product(later, repeat=k))
        choices.append(seqs)
    choices.append([()])
    for g in itertools.product(*choices):
        if len(reach(g)) == n:
            yield g


def random_graph(rng, n, maxp):
    g = []
    for i in range(n - 1):
        k = rng.randint(1, maxp)
        g.append(tuple(rng.randint(i + 1, n - 1) for _ in range(k)))
    g.append(())
    return tuple(g)


def run_bounded(rep, tier, what=("toposort", "backward")):
    import autograd.core as C
    import autograd.util as U

    plan = [(1, 3), (2, 3), (3, 3), (4, 3), (5, 2)] if tier == "quick" else [(1, 3), (2, 3), (3, 3), (4, 3), (5, 3)]
    nrand = 4000 if tier == "quick" else 40000
    rep.bound(f"toposort/backward_pass run-time contracts: ALL trace graphs with (nodes, max parents per node) in {plan} incl. "
              f"multi-edges, rule kinds {{fresh tuple, generator, pass-through}}; plus {nrand} seeded random graphs of 6..9 nodes")
    rng = random.Random(seed())
    n_cases = 0
    first = {}

    def one(graph, modes):
        nonlocal n_cases
        if "toposort" in what and modes[0] == "fresh":
            n_cases += 1
            e = check_toposort(U, graph)
            rep.bounded_case(("T", graph), sample=dict(function=FN_T, graph=graph) if n_cases % 5000 == 1 else None)
            if e and FN_T not in first:
                first[FN_T] = (graph, modes, e)
        if "backward" in what:
            n_cases += 1
            e = check_backward(C, graph, modes)
            rep.bounded_case(("B", graph, tuple(modes)), sample=dict(function=FN_B, graph=graph, rule_kinds=modes) if n_cases % 5000 == 2 else None)
            if e and FN_B not in first:
                first[FN_B] = (graph, modes, e)

    for n, maxp in plan:
        for graph in graphs(n, maxp):
            for mode in ("fresh", "pass", "gen"):
                one(graph, [mode] * n)
    for _ in range(nrand):
        n = rng.randint(6, 9)
        graph = random_graph(rng, n, 3)
        if len(reach(graph)) != n:
            continue
        one(graph, [rng.choice(("fresh", "pass", "gen")) for _ in range(n)])
    for fn, (graph, modes, e) in first.items():
        rep.violation(f"{fn}:runtime-contract", e.split(":")[0].split("/")[0],
                      f"graph {graph} (node i -> parent indices; 0 = end node), rule kinds {modes}: {e}",
                      replay=dict(module="contracts.core_backward", fn=fn, graph=[list(p) for p in graph], modes=list(modes)), witness=True)
    return first


def replay(spec):
    import autograd.core as C
    import autograd.util as U

    graph = tuple(tuple(p) for p in spec["graph"])
    if spec["fn"] == FN_T:
        e = check_toposort(U, graph)
    else:
        e = check_backward(C, graph, spec["modes"])
    return e is None, e or "contract holds on this graph", "T1-T4 / B1-B6 of contracts/core_backward.py"


# ---------------------------------------------------------------------------------------------------------------------
def run_proof(rep, tier, which=("toposort", "backward_pass")):
    """E1a: VCs generated from the real AST of util.toposort / core.backward_pass with the invariants of contracts/inv_toposort.py /
    inv_backward.py, discharged by z3 (cvc5 second).  On a failed or unextractable obligation the exhaustive small-graph witness search
    (run_bounded) looks for a concrete failing graph; without one the line ends no-failing-input-found."""
    import z3

    import autograd.core as C
    import autograd.util as U

    from vlib import pyvc
    from vlib.smt import check_sat

    from . import inv_backward, inv_toposort

    rep.assume("parents() / node.parents is a deterministic total function of the node; the graph under end_node is a finite DAG (rank witness)",
               "least-fixpoint induction for reach (instances) and well-founded descent on an integer rank bounded below (lemma L1) - stated as instances in the sidecars",
               "Python semantics assumed by the E1a encoding: mathematical ints; list = (array, length) with pop/append/extend at the end; dict = (key set, value map) with get/pop/[]; "
               "generator output as a ghost sequence; `for` over a sequence / zip = indexed loop; tuples (v, flag) as pairs",
               "callee contracts used by backward_pass: toposort T1-T4 (proved here from its own source), add_outgrads AO-value/AO-own/AO-share (proved by E1b), node.vjp yields one cotangent per parent",
               "the adjoint recurrence that B3/B4 establish has exactly one solution on a DAG, the path sum of local derivatives, and is the transpose of the forward chain-rule recurrence "
               "(lemmas/L2.lean: L2_unroll, L2_pathsum, dag_nilpotent, L2_adjoint - Lean 4 + Mathlib, re-checked in the thorough tier); "
               "that the forward recurrence is the derivative of the traced program is the multivariate chain rule (calculus, not mechanised)")
    if tier == "thorough":
        import subprocess, shutil, time as _t
        from vlib.common import VERIF
        t0 = _t.time()
        lean = shutil.which("lean")
        if lean:
            rep.extra["lean_lemmas"] = {}
            for lf, what in (("Lemmas.lean", "L1+reach_least+reach_rank+reach_pred"), ("L2.lean", "L2_unroll+L2_pathsum+dag_nilpotent+L2_adjoint")):
                t0 = _t.time()
                src = open(os.path.join(VERIF, "lemmas", lf)).read()
                p = subprocess.run([lean, os.path.join(VERIF, "lemmas", lf)], capture_output=True, text=True, timeout=1800)
                okl = p.returncode == 0 and "error" not in (p.stdout + p.stderr) and not re.search(r"(?m)^\s*(axiom|unsafe|@\[implemented_by)\b|\bsorry\b|\badmit\b", src)
                rep.obligation(f"lemmas/{lf}:{what}", okl, "lean4+mathlib", _t.time() - t0, "Lean")
                rep.extra["lean_lemmas"][lf] = dict(checked=okl, seconds=round(_t.time() - t0, 1), output=(p.stdout + p.stderr)[:300])
                if not okl:
                    rep.error(f"lemmas/{lf} does not check: " + (p.stdout + p.stderr)[:200])
        else:
            rep.note("lean not found: the lemma instances stay assumptions in this run")
    else:
        rep.note("lemmas L1 / reach_least / reach_rank / reach_pred (lemmas/Lemmas.lean) and L2 (lemmas/L2.lean, Lean 4 + Mathlib) are re-checked in the thorough tier only (cold Mathlib import ~2-4 min)")
    jobs = [("toposort", U.toposort, inv_toposort, FN_T, ("toposort",)), ("backward_pass", C.backward_pass, inv_backward, FN_B, ("backward",))]
    budget = 15000 if tier == "quick" else 60000
    for key, fn, SP, FN, bwhat in jobs:
        if key not in which:
            continue
        rep.function(FN, fn)
        try:
            gen = pyvc.VCGen(fn, SP)
            obl = gen.run()
            if gen.loop_n != SP.EXPECT["loops"]:
                raise pyvc.ExtractError(f"{gen.loop_n} loops, contract expects {SP.EXPECT['loops']}")
        except (pyvc.ExtractError, KeyError, AttributeError, TypeError, z3.Z3Exception) as e:
            rep.obligation(f"{FN}:extract", False, "-", 0, "E1a")
            first = run_bounded(rep, tier, what=bwhat)
            if FN not in first:
                rep.violation(f"{FN}:extract", "extract", f"the function no longer fits the verified subset / contract shape ({type(e).__name__}: {e}): the proof does not cover the running code; "
                              "exhaustive search over all graphs within the bound found no failing graph", witness=False, solver_output=str(e))
            continue
        failed, maxsecs = [], 0.0
        for name, hyps, goal in obl:
            if len(failed) >= 3:
                rep.obligation(f"{FN}:{name}", False, "skipped-after-3-failures", 0, "E1a")
                continue
            st, m, backend, secs = check_sat(hyps + [z3.Not(goal)], budget, want_model=False, both=(tier == "thorough"))
            maxsecs = max(maxsecs, secs)
            ok = st == "unsat"
            rep.obligation(f"{FN}:{name}", ok, backend, secs, "E1a", trivial=z3.is_true(z3.simplify(goal)), sample=(f"{FN}:{name}: {len(hyps)} hypotheses |- {str(z3.simplify(goal))[:300]}" if len(rep.samples) < 4 else None))
            if not ok:
                failed.append((name, st))
        rep.extra[f"{key}_vcs"] = dict(generated=len(obl), max_solver_seconds=round(maxsecs, 2), budget_ms=budget)
        # vacuity probes: False must not be provable from the hypotheses of loop-head / exit states
        nv = 0
        probes = obl[::17][:4]
        for name, hyps, goal in probes:
            sv = z3.Solver()
            sv.set("timeout", 1500)
            sv.add(*hyps)
            nv += sv.check() == z3.unsat
        rep.canary(f"{FN}:vacuity-probes({len(probes)})", nv == 0)
        if not failed and maxsecs > 0.3 * budget / 1000:
            # wall-clock time depends on machine load (16 busy cores slow a 1 s query several times): reported, never a verdict
            rep.note(f"{FN}: an obligation used {maxsecs:.1f}s (wall) of a {budget / 1000:.0f}s budget although it discharged: slow query or loaded machine; see evidence extra.{key}_vcs")
        if failed:
            first = run_bounded(rep, tier, what=bwhat)
            if FN not in first:
                nm, st = failed[0]
                rep.violation(f"{FN}:{nm.split(':')[0]}", nm, f"obligation {nm} no longer discharges ({st}); exhaustive search over all graphs within the bound found no failing graph",
                              witness=False, solver_output=f"{st} on {[f[0] for f in failed]}")
