"""C18 - contracts on autograd.test_util (the bundled gradient checker).

What a deductive back end CAN decide here, and what it cannot, is stated per part; nothing below is a model of the checker - every
part executes or translates the functions of the CURRENT autograd/test_util.py.

K1  scalar_close(a, b)  [z3, nonlinear real arithmetic; VCs from the current AST; floats treated as reals]
      SC-refl      a == b                              => accepted (no exception)
      SC-sym       accepted(a, b) == accepted(b, a)
      SC-reject    |a-b| >= 1e-5  and |a-b| >= 1e-4 |a+b|  => not accepted     ("more than a small relative error" must be rejected)
      SC-accept    |a-b| <= 1e-9  or  |a-b| <= 1e-9 |a+b|   => accepted         (rounding noise of a correct rule must pass)
    The two bands leave room for a maintainer to retune TOL/RTOL within [1e-9, 1e-5] x [1e-9, 1e-4] without an alarm.
K2  structure of make_numerical_jvp / check_vjp / check_jvp / check_equivalent / check_grads / combo_check  [symexec(ground), callee stubs by
    global rebinding, opaque values]
      NJ   make_numerical_jvp(f, x)(v) = (f(x + h v) - f(x - h v)) * c  through the vector-space operations, with 2 h c = 1 (central difference)
      CV   check_vjp: ONE comparison scalar_close(<y_v, numjvp(x_v)>_Y, <x_v, cov_X(vjp(cov_Y(y_v)))>_X), x_v / y_v drawn from the spaces of x / f(x);
           AssertionError iff the comparison fails or the VJP result is not in the space of x
      CJ   check_jvp = check_equivalent(jvp(x_v)[1], numjvp(x_v)) for the SAME draw x_v
      CE   check_equivalent: spaces equal (else AssertionError), ONE comparison of <x, v> with <y, v> for one draw v
      CG   check_grads(f, x, modes, order): check_jvp iff 'fwd' in modes, check_vjp iff 'rev' in modes; if order > 1 recursion on
           grad_f(x, v) = make_jvp(f, x)(v)[1] resp. make_vjp(f, x)[0](v) over BOTH arguments (0, 1), same modes, order - 1, at (x, fresh draw);
           an unknown mode is rejected
      CC   combo_check runs check_grads on every combination of the argument and keyword alternatives
K3  exact arithmetic (bounded, E4): the REAL check_grads on object arrays of exact rationals (central differences are exact for quadratic maps, so
    no tolerance is involved): user primitives with CORRECT rules pass at orders 1..2 in both modes for scalar, array, container arguments; planted defects
    (wrong factor, sign, transpose, missing reduction, single wrong entry, wrong second-order rule, wrong forward rule only) are rejected in the
    requested mode/order - and NOT rejected when the defective mode/order is not requested.
K4  floats (bounded, seeded): the REAL check_grads in IEEE doubles, fixed seeds: correct rules (polynomial and transcendental, well-scaled) never
    rejected in N draws; each planted defect rejected in >= 99 % of N draws.  N = 100 quick / 400 thorough.
NOT decided: rounding behaviour of IEEE arithmetic in general, the truncation error of the central difference for arbitrary f, and the 0.99
probability as a statement over the checker's continuous distribution (K4 samples it with fixed seeds).
"""
import ast
import inspect
import itertools
import textwrap
import warnings
from fractions import Fraction

import numpy as onp
import z3

from vlib.smt import check_sat
from vlib.stubs import Opaque

from .core_make import rebind_deep as rebind   # helpers extracted from the checker functions see the stubs too

FN = "autograd.test_util"


# ---------------------------------------------------------------------------------------------------------------- K1
class _Untranslatable(Exception):
    pass


def _tr(e, env, consts, fresh):
    """-> (z3 term, definedness condition, kind).  Python semantics made explicit: `or`/`and` short-circuit, `/` undefined at 0."""
    if isinstance(e, ast.Name):
        if e.id in env:
            return env[e.id], z3.BoolVal(True), "r"
        if e.id in consts and isinstance(consts[e.id], (int, float)):
            f = Fraction(consts[e.id])
            return z3.RealVal(f"{f.numerator}/{f.denominator}"), z3.BoolVal(True), "r"
        raise _Untranslatable(f"name {e.id}")
    if isinstance(e, ast.Constant) and isinstance(e.value, (int, float)):
        f = Fraction(e.value)
        return z3.RealVal(f"{f.numerator}/{f.denominator}"), z3.BoolVal(True), "r"
    if isinstance(e, ast.BinOp) and isinstance(e.op, (ast.Add, ast.Sub, ast.Mult, ast.Div)):
        l, dl, _ = _tr(e.left, env, consts, fresh)
        r, dr, _ = _tr(e.right, env, consts, fresh)
        d = z3.And(dl, dr)
        if isinstance(e.op, ast.Add):
            return l + r, d, "r"
        if isinstance(e.op, ast.Sub):
            return l - r, d, "r"
        if isinstance(e.op, ast.Mult):
            return l * r, d, "r"
        q = z3.Real(f"q{len(fresh)}")
        fresh.append(z3.Implies(r != 0, q * r == l))
        return q, z3.And(d, r != 0), "r"
    if isinstance(e, ast.UnaryOp) and isinstance(e.op, ast.USub):
        v, d, _ = _tr(e.operand, env, consts, fresh)
        return -v, d, "r"
    if isinstance(e, ast.UnaryOp) and isinstance(e.op, ast.Not):
        v, d, _ = _tr(e.operand, env, consts, fresh)
        return z3.Not(v), d, "b"
    if isinstance(e, ast.Call) and isinstance(e.func, ast.Name) and e.func.id == "abs" and len(e.args) == 1:
        v, d, _ = _tr(e.args[0], env, consts, fresh)
        return z3.If(v >= 0, v, -v), d, "r"
    if isinstance(e, ast.Compare) and len(e.ops) == 1:
        l, dl, _ = _tr(e.left, env, consts, fresh)
        r, dr, _ = _tr(e.comparators[0], env, consts, fresh)
        op = {ast.Lt: l < r, ast.LtE: l <= r, ast.Gt: l > r, ast.GtE: l >= r, ast.Eq: l == r, ast.NotEq: l != r}.get(type(e.ops[0]))
        if op is None:
            raise _Untranslatable("comparison")
        return op, z3.And(dl, dr), "b"
    if isinstance(e, ast.BoolOp):
        vals = [_tr(v, env, consts, fresh) for v in e.values]
        val, dfn = vals[-1][0], vals[-1][1]
        for v, d, _ in reversed(vals[:-1]):
            if isinstance(e.op, ast.Or):      # v or rest: rest evaluated only when v is false
                val, dfn = z3.Or(v, val), z3.And(d, z3.Or(v, dfn))
            else:
                val, dfn = z3.And(v, val), z3.And(d, z3.Or(z3.Not(v), dfn))
        return val, dfn, "b"
    raise _Untranslatable(ast.unparse(e)[:60])


def run_close(rep, tier):
    import autograd.test_util as T
    name = f"{FN}.scalar_close"
    rep.function(name, T.scalar_close)
    rep.uncover("C18: rounding behaviour of IEEE doubles inside the checker (K1 treats floats as reals; K4 samples it with fixed seeds)")
    rep.uncover("C18: truncation error of the central difference for an arbitrary differentiated function (needs third-derivative bounds of user code)")
    rep.uncover("C18: the >= 0.99 rejection probability as a statement over the checker's continuous distribution of projections (K4: frequency over N fixed seeds only)")
    rep.assume("scalar_close: IEEE doubles treated as mathematical reals; `/` by zero = not accepted (Python floats raise ZeroDivisionError, NumPy doubles give inf)")
    try:
        tree = ast.parse(textwrap.dedent(inspect.getsource(T.scalar_close))).body[0]
        params = [a.arg for a in tree.args.args]
        body = [s for s in tree.body if not (isinstance(s, ast.Expr) and isinstance(s.value, ast.Constant))]
        if len(params) != 2 or len(body) != 1 or not isinstance(body[0], ast.Return):
            raise _Untranslatable("shape of scalar_close")

        def acc(x, y, tag):
            fresh = []
            v, d, k = _tr(body[0].value, {params[0]: x, params[1]: y}, T.__dict__, fresh)
            if k != "b":
                raise _Untranslatable("not a boolean")
            fresh = [z3.substitute(c, *[(z3.Real(f"q{i}"), z3.Real(f"q{i}_{tag}")) for i in range(len(fresh))]) for c in fresh]
            v = z3.substitute(v, *[(z3.Real(f"q{i}"), z3.Real(f"q{i}_{tag}")) for i in range(len(fresh))])
            d = z3.substitute(d, *[(z3.Real(f"q{i}"), z3.Real(f"q{i}_{tag}")) for i in range(len(fresh))])
            return z3.And(d, v), d, fresh     # accepted = evaluation defined and true
        a, b = z3.Reals("a b")
        A1, D1, F1 = acc(a, b, "ab")
        A2, D2, F2 = acc(b, a, "ba")
        A3, D3, F3 = acc(a, a, "aa")
    except (_Untranslatable, OSError, IndexError) as e:
        rep.obligation(f"{name}:extract", False, "-", 0, "E2")
        rep.violation(f"{name}:extract", "extract", f"scalar_close no longer fits the translated subset ({e}); K3/K4 still exercise it", witness=False, solver_output=str(e))
        return
    ab = lambda t: z3.If(t >= 0, t, -t)
    dif, sm = ab(a - b), ab(a + b)
    R = lambda s: z3.RealVal(s)
    obl = [
        ("SC-refl", F3, z3.And(A3, D3), lambda m: (1.0, 1.0)),
        ("SC-sym", F1 + F2, A1 == A2, None),
        ("SC-reject", F1, z3.Implies(z3.And(dif >= R("1/100000"), dif >= R("1/10000") * sm), z3.Not(A1)), None),
        ("SC-accept-abs", F1, z3.Implies(dif <= R("1/1000000000"), A1), None),
        ("SC-accept-rel", F1, z3.Implies(z3.And(dif <= R("1/1000000000") * sm), A1), None),
    ]
    for cl, hyps, goal, _ in obl:
        st, m, backend, secs = check_sat(list(hyps) + [z3.Not(goal)], 20000, both=(tier == "thorough"))
        ok = st == "unsat"
        rep.obligation(f"{name}:{cl}", ok, backend, secs, "E2", sample=(f"{cl}: {z3.simplify(goal)}"[:300] if len(rep.samples) < 3 else None))
        if not ok:
            va = vb = None
            if m is not None:
                from vlib.smt import model_value
                va, vb = model_value(m, a, 0.0), model_value(m, b, 0.0)
            w = _replay_close(cl, va, vb) if va is not None else (True, "no model")
            rep.violation(f"{name}:{cl}", cl, f"{cl} fails for a={va!r}, b={vb!r}: {w[1]}", replay=dict(module="contracts.checker", close=cl, a=va, b=vb),
                          witness=(va is not None and not w[0]), solver_output=str(m)[:200])


def _replay_close(cl, a, b):
    import autograd.test_util as T
    try:
        r = bool(T.scalar_close(float(a), float(b)))
    except ZeroDivisionError:
        r = False
    d, s = abs(a - b), abs(a + b)
    if cl == "SC-reject":
        want = not (d >= 1e-5 and d >= 1e-4 * s)
        return (r is False) or want, f"scalar_close({a}, {b}) = {r}; |a-b| = {d:.3g}, |a+b| = {s:.3g}"
    if cl.startswith("SC-accept") or cl == "SC-refl":
        return r is True, f"scalar_close({a}, {b}) = {r}; |a-b| = {d:.3g}"
    try:
        r2 = bool(T.scalar_close(float(b), float(a)))
    except ZeroDivisionError:
        r2 = False
    return r == r2, f"scalar_close(a,b) = {r}, scalar_close(b,a) = {r2}"


# ---------------------------------------------------------------------------------------------------------------- K2
class _VS:
    """stub vector space: every operation returns an opaque term; randn draws are numbered"""

    def __init__(self, key, log):
        self.key, self.log = key, log

    def __eq__(self, o):
        return isinstance(o, _VS) and o.key == self.key

    def __ne__(self, o):
        return not self.__eq__(o)

    __hash__ = None

    def randn(self):
        self.log.setdefault("draws", []).append(self.key)
        return Opaque(("randn", self.key, len(self.log["draws"])))

    def covector(self, x):
        return Opaque(("cov", self.key, x.term))

    def inner_prod(self, x, y):
        return Opaque(("ip", self.key, x.term, y.term))

    def add(self, x, y):
        return Opaque(("add", self.key, x.term, y.term))

    def scalar_mul(self, x, a):
        return Opaque(("smul", self.key, x.term, a))


def _subterms(t):
    yield t
    if isinstance(t, tuple):
        for u in t:
            yield from _subterms(u)


def _out(rep):
    def out(name, ok, detail):
        rep.obligation(name, bool(ok), "symexec(ground)", 0.0, "E1b", sample=(f"{name}: {detail}"[:300] if len(rep.samples) < 6 else None))
        if not ok:
            fn, case, cl = name.split(":")
            rep.violation(f"{fn}:{cl}", case, detail, replay=dict(module="contracts.checker", obligation=name), witness=True)
    return out


def _unary(op):
    for nm, cell in zip(op.__code__.co_freevars, op.__closure__ or ()):
        if nm == "unary_operator":
            return cell.cell_contents
    return None


def run_structure(rep, tier):
    import autograd.test_util as T
    out = _out(rep)
    for nm in ("make_numerical_jvp", "check_vjp", "check_jvp", "check_equivalent", "check_grads", "combo_check"):
        rep.function(f"{FN}.{nm}", getattr(T, nm, None))

    def guard(title, thunk):
        try:
            thunk()
        except Exception as e:   # the function under contract failed on the contract stubs: undischarged obligation, not a checker crash
            out(f"{FN}.{title}:stubs:K2-executes", False, f"{title} raised {type(e).__name__}: {str(e)[:120]} on the contract stubs")

    # ---- NJ
    def nj():
        log = {}
        x, v = Opaque(("x",)), Opaque(("v",))
        spaces = {}

        def vspace(val):
            k = "X" if val.term == ("x",) else "Y"
            return spaces.setdefault(k, _VS(k, log))

        def f(p):
            return Opaque(("f", p.term))
        jvp = rebind(T.make_numerical_jvp, vspace=vspace)(f, x)
        r = jvp(v)
        t = r.term
        ok, detail = False, f"numerical jvp term {t}"
        # expected shape: smul_Y( add_Y( f(add_X(x, smul_X(v, h1))), smul_Y(f(add_X(x, smul_X(v, h2))), -1) ), c ) up to the order of the two add_Y operands
        try:
            assert t[0] == "smul" and t[1] == "Y"
            c = t[3]
            inner = t[2]
            assert inner[0] == "add" and inner[1] == "Y"
            terms = [inner[2], inner[3]]
            plus = [u for u in terms if u[0] == "f"]
            minus = [u for u in terms if u[0] == "smul" and u[1] == "Y" and u[2][0] == "f"]
            assert len(plus) == 1 and len(minus) == 1 and float(minus[0][3]) == -1.0

            def step(ft):
                arg = ft[1]
                assert arg[0] == "add" and arg[1] == "X"
                ops = [arg[2], arg[3]]
                assert ("x",) in ops
                sm = [u for u in ops if u != ("x",)][0]
                assert sm[0] == "smul" and sm[1] == "X" and sm[2] == ("v",)
                return float(sm[3])
            h1, h2 = step(plus[0]), step(minus[0][2])
            ok = h1 > 0 and h2 == -h1 and abs((h1 - h2) * float(c) - 1.0) < 1e-12 and h1 <= 1e-3
            detail = f"steps {h1:g}, {h2:g}, scale {float(c):g}: (h1 - h2) * c = {(h1 - h2) * float(c):.15g}"
        except (AssertionError, IndexError, TypeError, ValueError):
            pass
        out(f"{FN}.make_numerical_jvp:ground:NJ-central-difference", ok, detail + "; contract: (f(x + h v) - f(x - h v)) * c with 2 h c = 1, 0 < h <= 1e-3")
    guard("make_numerical_jvp", nj)

    # ---- CV / CJ / CE
    def cv():
        for close_result, vjp_space in itertools.product((True, False), ("X", "W")):
            log = {"close": []}
            x, y = Opaque(("x",)), Opaque(("y",))
            spaces = {}

            def vspace(val):
                t = val.term
                k = "X" if t == ("x",) else "Y" if t == ("y",) else (vjp_space if t[0] == "cov" and t[1] == "X" else "?")
                return spaces.setdefault(k, _VS(k, log))

            def make_vjp(f, x_):
                log["mv"] = (f, x_)
                return (lambda g: Opaque(("vjp", g.term))), y

            def make_numerical_jvp(f, x_):
                log["nj"] = (f, x_)
                return lambda v: Opaque(("numjvp", v.term))

            def scalar_close(p, q):
                log["close"].append((p.term, q.term))
                return close_result
            f = object()
            try:
                rebind(T.check_vjp, vspace=vspace, make_vjp=make_vjp, make_numerical_jvp=make_numerical_jvp, scalar_close=scalar_close, get_name=lambda f_: "f")(f, x)
                exc = None
            except AssertionError as e:
                exc = e
            case = f"close={close_result},vjp-in-{vjp_space}"
            xv, yv = ("randn", "X", 1), ("randn", "Y", 2)
            draws_ok = sorted(log.get("draws", [])) == ["X", "Y"]
            if log.get("draws") == ["Y", "X"]:
                xv, yv = ("randn", "X", 2), ("randn", "Y", 1)
            exp = {("ip", "Y", yv, ("numjvp", xv)), ("ip", "X", xv, ("cov", "X", ("vjp", ("cov", "Y", yv))))}
            exp_alt = {("ip", "Y", ("numjvp", xv), yv), ("ip", "X", ("cov", "X", ("vjp", ("cov", "Y", yv))), xv)}
            cmp_ok = (len(log["close"]) == 1 and (set(log["close"][0]) == exp or set(log["close"][0]) <= exp | exp_alt and len(set(log["close"][0])) == 2)) if vjp_space == "X" else True
            should_raise = (not close_result) or vjp_space != "X"
            out(f"{FN}.check_vjp:{case}:CV-compares-the-two-pairings", draws_ok and cmp_ok and log.get("mv") == (f, x) and log.get("nj") == (f, x),
                f"comparison made: {log['close']}; draws {log.get('draws')}")
            out(f"{FN}.check_vjp:{case}:CV-raises-iff-mismatch", (exc is not None) == should_raise, f"raised={exc is not None}, contract: raise iff comparison fails or the VJP result is outside the space of x")
    guard("check_vjp", cv)

    def cv_same():
        # input and output in the SAME space (square maps): the two directions must still be independent draws - with y_v = x_v the comparison
        # only sees the symmetric part of the Jacobian
        log = {"close": []}
        x, y = Opaque(("x",)), Opaque(("y",))
        one = _VS("X", log)
        rebind(T.check_vjp, vspace=lambda val: one, make_vjp=lambda f_, x_: ((lambda g: Opaque(("vjp", g.term))), y), make_numerical_jvp=lambda f_, x_: (lambda v: Opaque(("numjvp", v.term))),
               scalar_close=lambda p, q: log["close"].append((p.term, q.term)) or True, get_name=lambda f_: "f")(object(), x)
        terms = [t for pair in log["close"] for t in pair]
        draws = {u for t in terms for u in _subterms(t) if isinstance(u, tuple) and u[:1] == ("randn",)}
        out(f"{FN}.check_vjp:same-space:CV-independent-directions", len(log.get("draws", [])) == 2 and len(draws) == 2, f"draws {log.get('draws')}; directions used in the comparison: {sorted(map(str, draws))}")
    guard("check_vjp", cv_same)

    def cj():
        log = {}
        x = Opaque(("x",))
        spaces = {}

        def vspace(val):
            return spaces.setdefault("X", _VS("X", log))

        def make_jvp(f, x_):
            log["mj"] = (f, x_)
            return lambda v: (Opaque(("primal",)), Opaque(("jvp", v.term)))

        def make_numerical_jvp(f, x_):
            log["nj"] = (f, x_)
            return lambda v: Opaque(("numjvp", v.term))

        def check_equivalent(p, q):
            log["ce"] = (p.term, q.term)
        f = object()
        rebind(T.check_jvp, vspace=vspace, make_jvp=make_jvp, make_numerical_jvp=make_numerical_jvp, check_equivalent=check_equivalent)(f, x)
        v = ("randn", "X", 1)
        out(f"{FN}.check_jvp:ground:CJ-same-draw", set(log.get("ce", ())) == {("jvp", v), ("numjvp", v)} and log.get("draws") == ["X"] and log.get("mj") == (f, x) and log.get("nj") == (f, x),
            f"check_equivalent called with {log.get('ce')}; draws {log.get('draws')}")
        for close_result, same_space in itertools.product((True, False), (True, False)):
            log = {"close": []}
            p, q = Opaque(("p",)), Opaque(("q",))
            spaces = {}

            def vspace2(val):
                k = "P" if (val.term == ("p",) or same_space) else "Q"
                return spaces.setdefault(k, _VS(k, log))

            def scalar_close(a_, b_):
                log["close"].append((a_.term, b_.term))
                return close_result
            try:
                rebind(T.check_equivalent, vspace=vspace2, scalar_close=scalar_close)(p, q)
                exc = None
            except AssertionError as e:
                exc = e
            case = f"close={close_result},same-space={same_space}"
            v = ("randn", "P", 1)
            ok_cmp = (not same_space) or (len(log["close"]) == 1 and set(log["close"][0]) in ({("ip", "P", ("p",), v), ("ip", "P", ("q",), v)}, {("ip", "P", v, ("p",)), ("ip", "P", v, ("q",))}))
            out(f"{FN}.check_equivalent:{case}:CE-one-projection", ok_cmp, f"comparison {log['close']}")
            out(f"{FN}.check_equivalent:{case}:CE-raises-iff-mismatch", (exc is not None) == ((not same_space) or (not close_result)), f"raised={exc is not None}")
    guard("check_jvp/check_equivalent", cj)

    # ---- CG
    def cg():
        body = _unary(T.check_grads)
        if body is None:
            out(f"{FN}.check_grads:extract:CG-extract", False, "check_grads is no longer built with unary_to_nary")
            return
        for modes, order in itertools.product((["fwd"], ["rev"], ["fwd", "rev"], ["rev", "fwd"], []), (1, 2, 3)):
            log = {"calls": [], "rec": []}
            x = Opaque(("x",))
            spaces = {}

            def vspace(val):
                k = "X" if val.term == ("x",) else "Y"
                return spaces.setdefault(k, _VS(k, log))

            def f(p):
                return Opaque(("y",))

            def check_jvp(f_, x_):
                log["calls"].append(("jvp", f_, x_))

            def check_vjp(f_, x_):
                log["calls"].append(("vjp", f_, x_))

            def make_jvp(f_, x_):
                return lambda v: (Opaque(("primal",)), Opaque(("JVP", getattr(f_, "__name__", "?"), x_.term, v.term)))

            def make_vjp(f_, x_):
                return (lambda g: Opaque(("VJP", getattr(f_, "__name__", "?"), x_.term, g.term))), Opaque(("y",))

            def check_grads(fn, argnum=0, modes_=None, order=None, **kw):
                if modes_ is None:
                    modes_ = kw.get("modes")
                rec = dict(fn=fn, argnum=argnum, modes=modes_, order=order)
                log["rec"].append(rec)

                def runner(*a):
                    rec["at"] = a
                return runner
            f.__name__ = "f"
            rebind(body, check_jvp=check_jvp, check_vjp=check_vjp, make_jvp=make_jvp, make_vjp=make_vjp, vspace=vspace, check_grads=check_grads, get_name=lambda f_: "f")(f, x, modes, order)
            case = f"modes={'+'.join(modes) or 'none'},order={order}"
            kinds = [c[0] for c in log["calls"]]
            want = (["jvp"] if "fwd" in modes else []) + (["vjp"] if "rev" in modes else [])
            out(f"{FN}.check_grads:{case}:CG-modes", kinds == want and all(c[1] is f and c[2] is x for c in log["calls"]), f"first-order checks run: {kinds}; requested modes {modes}")
            nrec = (len(want) if order > 1 else 0)
            okr = len(log["rec"]) == nrec
            det = f"{len(log['rec'])} recursive calls"
            for rec, kind in zip(log["rec"], want):
                a = rec.get("at", ())
                okr = okr and tuple(rec["argnum"]) == (0, 1) and rec["order"] == order - 1 and list(rec["modes"]) == list(modes) and len(a) == 2 and a[0] is x
                if not okr:
                    det = f"recursive call {dict(argnum=rec['argnum'], order=rec['order'], modes=rec['modes'])} at {a}"
                    break
                v = a[1]
                space = "X" if kind == "jvp" else "Y"
                okr = okr and isinstance(v, Opaque) and v.term[0] == "randn" and v.term[1] == space
                p, w = Opaque(("p",)), Opaque(("w",))
                g = rec["fn"](p, w)
                exp = ("JVP", "f", ("p",), ("w",)) if kind == "jvp" else ("VJP", "f", ("p",), ("w",))
                okr = okr and isinstance(g, Opaque) and g.term == exp
                if not okr:
                    det = f"{kind}: direction {getattr(v, 'term', v)}, grad_f(p, w) = {getattr(g, 'term', g)}"
                    break
            out(f"{FN}.check_grads:{case}:CG-recursion", okr, det + "; contract: one recursion per requested mode on grad_f over argnums (0, 1), same modes, order - 1, at (x, fresh draw)")
        try:
            rebind(body, check_jvp=lambda *a: None, check_vjp=lambda *a: None)(lambda p: p, Opaque(("x",)), ["reverse"], 1)
            bad = False
        except AssertionError:
            bad = True
        out(f"{FN}.check_grads:unknown-mode:CG-rejects-unknown-mode", bad, "modes=['reverse'] must be rejected, not silently skipped")
        # a failing first-order check is the VERDICT: whatever it raises leaves check_grads unchanged; the caller's `modes` (and the default) is not edited

        class _Boom(Exception):
            pass
        defaults0 = repr(getattr(body, "__defaults__", None))
        for exc in (NotImplementedError, AssertionError, TypeError, ValueError, KeyError, _Boom):
            for which in ("jvp", "vjp"):
                def boom(*a, exc=exc):
                    raise exc("planted")
                stubs = dict(check_jvp=(boom if which == "jvp" else (lambda *a: None)), check_vjp=(boom if which == "vjp" else (lambda *a: None)),
                             make_jvp=lambda f_, x_: (lambda v: (Opaque(("p",)), Opaque(("t",)))), make_vjp=lambda f_, x_: ((lambda g: Opaque(("c",))), Opaque(("y",))),
                             vspace=lambda val: _VS("X", {"calls": [], "rec": []}), check_grads=lambda *a, **k: (lambda *b: None), get_name=lambda f_: "f")
                for order in (1, 2):
                    modes = ["fwd", "rev"]
                    try:
                        rebind(body, **stubs)(lambda p_: Opaque(("y",)), Opaque(("x",)), modes, order)
                        got = "returned normally"
                    except exc as e:
                        got = "propagated" if "planted" in str(e) else f"replaced by {e!r}"
                    except Exception as e:
                        got = f"replaced by {type(e).__name__}"
                    out(f"{FN}.check_grads:{exc.__name__} in check_{which},order={order}:CG-failure-propagates", got == "propagated" and modes == ["fwd", "rev"],
                        f"check_{which} raised {exc.__name__}: check_grads {got}; caller's modes afterwards {modes}")
        out(f"{FN}.check_grads:defaults:CG-defaults-unchanged", repr(getattr(body, "__defaults__", None)) == defaults0,
            f"default arguments before {defaults0}, after {getattr(body, '__defaults__', None)!r}")
    guard("check_grads", cg)

    # ---- CC
    def cc():
        seen = []

        def check_grads(fn, *a, **k):
            def run(*args, **kwargs):
                seen.append((fn, a, tuple(sorted(k.items())), args, tuple(sorted(kwargs.items()))))
            return run
        fun = object()
        rebind(T.combo_check, check_grads=check_grads)(fun, (0, 1), modes=["rev"])([1, 2], ["a"], k1=[True, False], k2=["u"])
        exp = {((p, "a"), (("k1", b), ("k2", "u"))) for p in (1, 2) for b in (True, False)}
        got = {(s[3], s[4]) for s in seen}
        out(f"{FN}.combo_check:ground:CC-all-combinations", got == exp and len(seen) == 4 and all(s[0] is fun and s[1] == ((0, 1),) and s[2] == (("modes", ["rev"]),) for s in seen),
            f"{len(seen)} runs: {sorted(map(str, got))[:4]}")
    guard("combo_check", cc)


# ---------------------------------------------------------------------------------------------------------------- K3 / K4
def _primitives(np_, defect):
    """User primitives on the namespace np_ (autograd.numpy) with exact-arithmetic-friendly bodies.  quad(x) = (A x) * (B x) + c (R^3 -> R^3, every
    derivative order polynomial), its gradient helper as a second primitive (so that a wrong SECOND-order rule can be planted).  `defect` selects one
    planted error; None = all rules correct."""
    from autograd.extend import defjvp, defvjp, primitive
    A = onp.array([[1.0, 2.0, 0.0], [0.5, -1.0, 1.5], [2.0, 0.25, -0.5]])
    B = onp.array([[0.5, 0.0, 1.0], [1.0, 1.5, -2.0], [-1.0, 0.5, 0.75]])

    @primitive
    def quad(x):
        return np_.dot(A, x) * np_.dot(B, x)

    @primitive
    def quad_vjp(g, x):   # J(x)^T g,  J = diag(Bx) A + diag(Ax) B
        return np_.dot(A.T, g * np_.dot(B, x)) + np_.dot(B.T, g * np_.dot(A, x))

    @primitive
    def quad_jvp(t, x):
        return np_.dot(A, t) * np_.dot(B, x) + np_.dot(A, x) * np_.dot(B, t)

    fac = 1.001 if defect == "factor" else -1.0 if defect == "sign" else 1.0

    def first(g, x):
        r = quad_vjp(g, x)
        if defect == "transpose":
            return np_.dot(A, g * np_.dot(B, x)) + np_.dot(B, g * np_.dot(A, x))
        if defect == "entry":
            return r + np_.array([0.0, 0.0, 1.0]) * g[1] * x[0]   # one entry of J^T off by x0 (a relative error of order 1 in that entry)
        if defect == "J-instead-of-JT":
            return np_.dot(B, x) * np_.dot(A, g) + np_.dot(A, x) * np_.dot(B, g)      # applies the Jacobian where its transpose is needed (same shape: only a direction-independent cotangent exposes it)
        if defect == "missing-reduction":
            return g * np_.dot(B, x) + g * np_.dot(A, x)      # forgot the contraction with A^T / B^T
        return fac * r
    defvjp(quad, lambda ans, x: lambda g: first(g, x))
    defjvp(quad, lambda t, ans, x: (1.001 if defect == "fwd-only" else 1.0) * quad_jvp(t, x))
    # rules of the helpers (bilinear); the order-2 defect lives in quad_vjp's rule with respect to x
    s2 = 1.01 if defect == "second-order" else 1.0
    defvjp(quad_vjp,
           lambda ans, g, x: lambda h: np_.dot(A, h) * np_.dot(B, x) + np_.dot(B, h) * np_.dot(A, x),
           lambda ans, g, x: lambda h: s2 * (np_.dot(B.T, g * np_.dot(A, h)) + np_.dot(A.T, g * np_.dot(B, h))))
    defjvp(quad_vjp,
           lambda t, ans, g, x: quad_vjp(t, x),
           lambda t, ans, g, x: s2 * (np_.dot(A.T, g * np_.dot(B, t)) + np_.dot(B.T, g * np_.dot(A, t))))
    defvjp(quad_jvp,
           lambda ans, t, x: lambda h: np_.dot(A.T, h * np_.dot(B, x)) + np_.dot(B.T, h * np_.dot(A, x)),
           lambda ans, t, x: lambda h: np_.dot(B.T, h * np_.dot(A, t)) + np_.dot(A.T, h * np_.dot(B, t)))
    defjvp(quad_jvp, lambda s, ans, t, x: quad_jvp(s, x), lambda s, ans, t, x: np_.dot(A, t) * np_.dot(B, s) + np_.dot(A, s) * np_.dot(B, t))
    return quad


# which (modes, order) requests must REJECT a defect (True) / must ACCEPT it (False: the defective rule is not exercised by that request)
DEFECTS = {
    "factor": {(("rev",), 1): True, (("fwd",), 1): False, (("fwd", "rev"), 2): True},
    "sign": {(("rev",), 1): True, (("fwd",), 1): False},
    "transpose": {(("rev",), 1): True, (("fwd",), 2): False},
    "entry": {(("rev",), 1): True, (("fwd", "rev"), 1): True},
    "J-instead-of-JT": {(("rev",), 1): True, (("fwd",), 1): False},
    "missing-reduction": {(("rev",), 1): True},
    "fwd-only": {(("fwd",), 1): True, (("rev",), 2): False, (("fwd", "rev"), 1): True},
    "second-order": {(("rev",), 1): False, (("fwd",), 1): False, (("rev",), 2): True, (("fwd", "rev"), 2): True},
}


def _run_checker(np_, T, fun_of, x, modes, order):
    try:
        T.check_grads(fun_of, modes=list(modes), order=order)(x)
        return "accepted", ""
    except AssertionError as e:
        return "rejected", str(e).splitlines()[0][:80]


def run_float(rep, tier):
    """K4"""
    warnings.simplefilter("ignore")
    import autograd.numpy as anp
    import autograd.test_util as T
    from autograd.builtins import dict as adict
    N = 100 if tier == "quick" else 400
    rep.bound(f"K4: {N} seeded draws of the checker's random projections per configuration (numpy.random.seed(s), s = 0..{N - 1}); rejection frequency >= 0.99 required for every planted defect, 0 false rejections for correct rules")
    x0 = onp.array([0.5, -1.25, 2.0])
    correct = {
        "user primitive quad (array)": (lambda: _primitives(anp, None), x0),
        "quad of scalar-built array": (lambda: (lambda q: (lambda s: q(anp.array([s, 2.0 * s, s * s]))))(_primitives(anp, None)), 0.75),
        "transcendental chain (array)": (lambda: (lambda x: anp.sin(x) * anp.exp(x / 3.0) + anp.tanh(x)), x0),
        "complex argument": (lambda: (lambda z: anp.abs(z * z + 1.5) + anp.real(z * anp.conj(z))), onp.array([0.5 + 1.0j, -1.0 + 0.25j])),
        "container argument": (lambda: (lambda d: anp.sum(d["w"] * d["w"]) * d["b"][0] + anp.sin(d["b"][1])), {"w": onp.array([0.5, -1.5]), "b": [1.25, 0.75]}),
    }
    for lab, (mk, x) in correct.items():
        rej = 0
        first = ""
        for s in range(N):
            onp.random.seed(s)
            r, why = _run_checker(anp, T, mk(), x, ("fwd", "rev") if "container" not in lab else ("rev",), 2)
            if r == "rejected":
                rej += 1
                first = first or f"seed {s}: {why}"
        rep.bounded_case(("K4-accepts-correct", lab))
        if rej:
            rep.violation("K4:accepts-correct-rules", lab, f"{lab}: check_grads(order=2) REJECTED correct rules in {rej} of {N} seeded draws ({first})",
                          replay=dict(module="contracts.checker", k4=lab, tier=tier), witness=True)
    # the checker's draws must span the space: randn of every kind of argument is an element of that space with generic entries
    from autograd.core import vspace
    probes = {"float array": onp.array([[1.0, 2.0], [3.0, 4.0]]), "float scalar": 1.5, "complex array": onp.array([1.0 + 1.0j, 2.0]), "complex scalar": 1.0 + 2.0j, "0-d complex": onp.array(1.0 + 1.0j),
              "container": {"a": onp.array([1.0, 2.0]), "b": [onp.array([1.0j]), 2.0]}}
    for lab, val in probes.items():
        onp.random.seed(7)
        vs = vspace(val)
        d1, d2 = vs.randn(), vs.randn()
        flat = lambda v: onp.concatenate([onp.ravel(onp.asarray(e)) for e in ([v[k] for k in sorted(v)] if isinstance(v, dict) else v)]) if isinstance(v, (dict, list, tuple)) else onp.ravel(onp.asarray(v))
        def leaves(v):
            if isinstance(v, dict):
                return [l for k in sorted(v) for l in leaves(v[k])]
            if isinstance(v, (list, tuple)):
                return [l for e in v for l in leaves(e)]
            return [onp.asarray(v)]
        ok = vspace(d1) == vs and all(onp.all(a != b) for a, b in zip(leaves(d1), leaves(d2)))
        for lv, ld in zip(leaves(val), leaves(d1)):
            if onp.iscomplexobj(lv):
                ok = ok and bool(onp.all(ld.imag != 0)) and bool(onp.all(ld.real != 0))
            ok = ok and bool(onp.all(ld != 0))
        rep.bounded_case(("K4-randn", lab))
        if not ok:
            rep.violation("K4:randn-spans-the-space", lab, f"{lab}: vspace(x).randn() = {d1!r}: not a generic element of the space of x (same space, every real AND imaginary part non-zero, successive draws differ)",
                          replay=dict(module="contracts.checker", k4=lab, tier=tier), witness=True)
    # complex arguments: a rule that forgets a conjugation / swaps real and imaginary parts
    from autograd.extend import defjvp, defvjp, primitive

    def cprims(defect):
        @primitive
        def cconj(z):
            return anp.conj(z) * (2.0 + 1.0j)
        if defect == "forgot-conj":
            defvjp(cconj, lambda ans, z: lambda g: g * (2.0 + 1.0j))
            defjvp(cconj, lambda t, ans, z: t * (2.0 + 1.0j))
        elif defect == "real-part-only":
            defvjp(cconj, lambda ans, z: lambda g: anp.real(anp.conj(g * (2.0 + 1.0j))) + 0.0j)
            defjvp(cconj, lambda t, ans, z: anp.real(anp.conj(t)) * (2.0 + 1.0j))
        else:
            defvjp(cconj, lambda ans, z: lambda g: anp.conj(g * (2.0 + 1.0j)))
            defjvp(cconj, lambda t, ans, z: anp.conj(t) * (2.0 + 1.0j))
        return cconj
    z0s = {"complex vector": onp.array([0.5 + 1.0j, -1.0 + 0.25j]), "complex scalar": 0.75 - 0.5j, "0-d complex array": onp.array(0.25 + 1.5j)}
    for zl, z0 in z0s.items():
        for defect in (None, "forgot-conj", "real-part-only"):
            for modes in (("rev",), ("fwd",)):
                lab = f"complex {'correct' if defect is None else 'defect ' + defect}|{zl}|modes={modes[0]}"
                rej = 0
                for s_ in range(N):
                    onp.random.seed(s_)
                    r, _ = _run_checker(anp, T, cprims(defect), z0, modes, 1)
                    rej += r == "rejected"
                rep.bounded_case(("K4-complex", lab))
                ok = (rej == 0) if defect is None else rej >= 0.99 * N
                if not ok:
                    rep.violation("K4:complex-arguments", lab, f"{lab}: rejected in {rej} of {N} seeded draws; contract: {'never' if defect is None else '>= 99 %'}",
                                  replay=dict(module="contracts.checker", k4=lab, tier=tier), witness=True)
    for defect, reqs in DEFECTS.items():
        for (modes, order), must_reject in reqs.items():
            lab = f"defect {defect}|modes={'+'.join(modes)}|order={order}"
            rej = 0
            for s in range(N):
                onp.random.seed(s)
                r, _ = _run_checker(anp, T, _primitives(anp, defect), x0, modes, order)
                rej += r == "rejected"
            rep.bounded_case(("K4-defect", lab))
            ok = rej >= 0.99 * N if must_reject else rej == 0
            if not ok:
                rep.violation("K4:rejects-planted-defect" if must_reject else "K4:accepts-when-defect-not-requested", lab,
                              f"{lab}: rejected in {rej} of {N} seeded draws; contract: {'>= 99 %' if must_reject else 'never (the defective rule is not exercised by this request)'}",
                              replay=dict(module="contracts.checker", k4=lab, tier=tier), witness=True)


def run_exact(rep, tier):
    """K3: the real check_grads in exact rational arithmetic (no tolerance involved: for these quadratic maps the central difference is exact)."""
    warnings.simplefilter("ignore")
    from vlib import symrun as S
    S.register()
    import autograd.numpy as anp
    import autograd.test_util as T
    from autograd.numpy.numpy_vspaces import ArrayVSpace
    rep.bound("K3: exact rationals, quadratic user primitive R^3 -> R^3; 3 seeded draws per configuration; orders 1..2; both modes")
    x0 = S.constarray([0.5, -1.25, 2.0], (3,))
    # the checker draws its projections with ArrayVSpace.randn: for object arrays .astype(object) keeps the doubles, which the exact engine lifts to rationals
    for defect in [None] + list(DEFECTS):
        reqs = DEFECTS.get(defect, {(("fwd", "rev"), 2): False, (("rev",), 1): False, (("fwd",), 2): False})
        for (modes, order), must_reject in reqs.items():
            lab = f"exact|{'correct rules' if defect is None else 'defect ' + defect}|modes={'+'.join(modes)}|order={order}"
            outcomes = []
            for s in range(3):
                onp.random.seed(1000 + s)
                try:
                    outcomes.append(_run_checker(anp, T, _primitives(anp, defect), x0, modes, order)[0])
                except S.SymLimit as e:
                    outcomes.append(f"not-evaluable: {e}")
                except Exception as e:
                    outcomes.append(f"error {type(e).__name__}: {str(e)[:60]}")
            if any(o.startswith("not-evaluable") or o.startswith("error") for o in outcomes):
                rep.note(f"K3 {lab}: {outcomes[0]}") if len(rep.notes) < 40 else None
                rep.uncover(f"K3 case not evaluable exactly: {lab}: {outcomes[0]}"[:200])
                continue
            rep.bounded_case(("K3", lab))
            ok = all(o == ("rejected" if must_reject else "accepted") for o in outcomes)
            if not ok:
                rep.violation("K3:exact-verdict", lab, f"{lab}: outcomes over 3 draws {outcomes}; contract: {'rejected' if must_reject else 'accepted'} for every draw (exact arithmetic, no tolerance)",
                              replay=dict(module="contracts.checker", k3=lab, tier=tier), witness=True)


def replay(spec):
    from vlib.common import Report
    if "close" in spec:
        ok, d = _replay_close(spec["close"], spec.get("a") or 0.0, spec.get("b") or 0.0)
        return ok, d, "scalar_close contract (see contracts/checker.py K1)"
    r = Report("replay", spec.get("tier", "quick"), "other", "replay")
    r.known = {"findings": []}
    if "k4" in spec:
        run_float(r, spec.get("tier", "quick"))
        bad = [v for v in r.violations if v["case"] == spec["k4"]]
    elif "k3" in spec:
        run_exact(r, spec.get("tier", "quick"))
        bad = [v for v in r.violations if v["case"] == spec["k3"]]
    else:
        run_structure(r, "quick")
        bad = [v for v in r.violations if spec.get("obligation", "").split(":")[1:2] == [v["case"]]]
    return (not bad), (bad[0]["what"] if bad else "holds"), "see contracts/checker.py"
