"""Contracts of autograd.builtins (DESIGN §5 C12): container_take/untake, sequence_extend_left/right, make_sequence,
_make_dict, SequenceBox/DictBox protocol, ContainerVSpace and subclasses; plus bounded exact runs on nested containers.

Part A (E1b, ground): the real functions / registered rules are executed on containers of Opaque leaves for EVERY structure
up to the stated bound (lengths, index/slice forms, argnums, key orders); values are opaque, so each run decides its clause
for all leaf values.  Clauses (each is the adjoint/inverse of the primal's own index arithmetic, stated independently):
   CT-untake-int/slice   dense(container_untake(x, idx, vs)) applied to an accumulator A returns A with x added at exactly the
                         positions A[idx] selects (Python index/slice semantics incl. negative and stepped), others untouched
   CT-take-vjp           VJP of container_take = container_untake with the argument's vspace; VJP of untake = take
   SE-right / SE-left    VJP of sequence_extend_right/left: argnum 0 gets the slice of g covering seq, argnum k>=1 gets the one
                         entry of g where elt k landed  (projections adjoint to the concatenation actually performed)
   MS-vjp / MS-jvp       make_sequence: argnum k gets g[k-1]; forward: tangent placed at k-1 of zeros(ans space)
   MD-vjp                _make_dict: cotangent dict g -> [g[k] for k in keys] in the order of `keys`, whatever g's own key order
   CV-*                  ContainerVSpace: zeros/_add/_mut_add/_scalar_mul/_covector map leaf-wise and preserve structure and key
                         order; _mut_add writes only into its FIRST argument's leaves; _inner_prod = sum of leaf inner products;
                         size = sum of leaf sizes; standard_basis has `size` members, one per (leaf, leaf-basis) in order
   BX-*                  SequenceBox/DictBox protocol methods answer as the underlying container does
Part B (E4, bounded): gradient of functions of nested tuples/lists/dicts of exact symbolic arrays: same nesting, each leaf = exact
derivative wrt that leaf; flatten/unflatten round trip and commutation with grad.
"""
import itertools

from vlib import stubs
from vlib.stubs import Opaque, ovs

FN = "autograd.builtins"


def _leaf(t):
    return Opaque(t, owned=False)


def _terms(c):
    if isinstance(c, Opaque):
        return c.term
    if isinstance(c, dict):
        return {k: _terms(v) for k, v in c.items()}
    if isinstance(c, (list, tuple)):
        return type(c)(_terms(v) for v in c)
    return c


def run_ground(rep, tier):
    import autograd.builtins as B
    import autograd.core as C

    ovs()
    for q in ("container_take", "container_untake", "grad_container_take", "sequence_extend_right", "grad_sequence_extend_right", "sequence_extend_left",
              "grad_sequence_extend_left", "make_sequence", "fwd_grad_make_sequence", "_make_dict", "ContainerVSpace", "SequenceVSpace", "DictVSpace",
              "SequenceBox", "DictBox"):
        rep.function(f"autograd.builtins.{q}", getattr(B, q, None))
    N = 4 if tier == "quick" else 5
    rep.bound(f"{FN}: sequence lengths 0..{N}, every int index incl. negative, slices from start/stop/step in {{None,-3..3}}, every argnum, "
              "dict key orders - enumerated exhaustively; leaves opaque")

    def out(name, ok, detail):
        rep.obligation(name, ok, "symexec(ground)", 0.0, "E1b", sample=detail if len(rep.samples) < 4 else None)
        if not ok:
            fn, case, cl = name.split(":")
            rep.violation(f"{fn}:{cl}", case, detail, replay=dict(module="contracts.containers", obligation=name, tier=tier), witness=True)

    vj = C.primitive_vjps
    # ---- container_untake / take -------------------------------------------------------------------------------
    svals = [None, -3, -2, -1, 0, 1, 2, 3]
    for seq_type in (tuple, list):
        for n in range(0, N + 1):
            proto = seq_type(_leaf(("p", i)) for i in range(n))
            vs = C.vspace(proto)
            idxs = list(range(-n, n)) + [slice(a, b, c) for a in svals for b in svals for c in (None, 1, 2, -1, -2) if not (tier == "quick" and (a in (-3, 3) or b in (-3, 3)))]
            for idx in idxs:
                sel = list(range(n))[idx]
                sel = sel if isinstance(sel, list) else [sel]
                if isinstance(idx, slice):
                    x = seq_type(_leaf(("x", j)) for j in range(len(sel)))
                else:
                    x = _leaf(("x", 0))
                del stubs.WRITES[:]
                A = seq_type(Opaque(("a", i), owned=True) for i in range(n))
                so = B.container_untake(x, idx, vs)
                ok = type(so) is C.SparseObject and so.vs is vs
                res = so.mut_add(A) if ok else None
                exp = [("a", i) for i in range(n)]
                xs = list(x) if isinstance(idx, slice) else [x]
                for pos, xx in zip(sel, xs):
                    exp[pos] = ("+", exp[pos], xx.term)
                case = f"{seq_type.__name__}{n}[{idx}]".replace(" ", "")
                okv = ok and type(res) is seq_type and [r.term for r in res] == exp
                okw = all(owned is True for _, owned in stubs.WRITES) and all(xx.term[0] == "x" for xx in xs)
                out(f"{FN}.container_untake:{case}:CT-untake-{'slice' if isinstance(idx, slice) else 'int'}", okv and okw,
                    f"{case}: scatter-add of x at {sel}: got {[getattr(r, 'term', r) for r in res] if res is not None else res}, expected {exp}; writes owned: {okw}")
                # VJP of take is untake with the argument's vspace; VJP of untake is take
                g = x
                so2 = vj[B.container_take]((0,), None, (proto, idx), {})(g)[0]
                r2 = so2.mut_add(seq_type(Opaque(("a", i), owned=True) for i in range(n)))
                out(f"{FN}.container_take:{case}:CT-take-vjp", type(so2) is C.SparseObject and so2.vs == vs and [r.term for r in r2] == exp, f"{case}: VJP of take")
                gg = seq_type(_leaf(("g", i)) for i in range(n))
                r3 = vj[B.container_untake]((0,), None, (x, idx, vs), {})(gg)[0]
                e3 = gg[idx]
                out(f"{FN}.container_untake:{case}:CT-untake-vjp", _terms(r3) == _terms(e3) and type(r3) is type(e3), f"{case}: VJP of untake is take")
    # dict take/untake
    for keys in (("a",), ("b", "a"), ("k1", "k0", "k2")):
        proto = {k: _leaf(("p", k)) for k in keys}
        vs = C.vspace(proto)
        for k in keys:
            x = _leaf(("x", k))
            A = {kk: Opaque(("a", kk), owned=True) for kk in keys}
            res = B.container_untake(x, k, vs).mut_add(A)
            exp = {kk: (("+", ("a", kk), ("x", k)) if kk == k else ("a", kk)) for kk in keys}
            out(f"{FN}.container_untake:dict{''.join(keys)}[{k}]:CT-untake-dict", _terms(res) == exp and list(res) == list(keys), f"dict scatter at {k}: {_terms(res)}")
    # ---- sequence_extend_right / left --------------------------------------------------------------------------
    for seq_type in (tuple, list):
        for n in range(0, N):
            for m in range(0, N):
                seq = seq_type(_leaf(("s", i)) for i in range(n))
                elts = tuple(_leaf(("e", j)) for j in range(m))
                for side, prim in (("right", B.sequence_extend_right), ("left", B.sequence_extend_left)):
                    ans = prim(seq, *elts)
                    want = ([("s", i) for i in range(n)] + [("e", j) for j in range(m)]) if side == "right" else ([("e", j) for j in range(m)] + [("s", i) for i in range(n)])
                    case = f"{seq_type.__name__}.n{n}.m{m}"
                    out(f"{FN}.sequence_extend_{side}:{case}:SE-{side}-primal", type(ans) is seq_type and [a.term for a in ans] == want, f"{case}: primal {side}")
                    g = seq_type(_leaf(("g", i)) for i in range(n + m))
                    pos = {t: i for i, t in enumerate(want)}
                    for argnum in range(0, m + 1):
                        r = vj[prim]((argnum,), ans, (seq,) + elts, {})(g)
                        r = list(r)[0]
                        if argnum == 0:
                            exp = [("g", pos[("s", i)]) for i in range(n)]
                            ok = type(r) is seq_type and [x.term for x in r] == exp
                        else:
                            exp = ("g", pos[("e", argnum - 1)])
                            ok = isinstance(r, Opaque) and r.term == exp
                        out(f"{FN}.sequence_extend_{side}:{case}.arg{argnum}:SE-{side}", ok, f"{case} argnum {argnum}: got {_terms(r)}, expected {exp}")
    # ---- make_sequence ---------------------------------------------------------------------------------------------
    for seq_type in (tuple, list):
        for n in range(1, N + 1):
            args = tuple(_leaf(("a", i)) for i in range(n))
            ans = B.make_sequence(seq_type, *args)
            out(f"{FN}.make_sequence:{seq_type.__name__}{n}:MS-primal", type(ans) is seq_type and [a.term for a in ans] == [("a", i) for i in range(n)], "primal")
            g = seq_type(_leaf(("g", i)) for i in range(n))
            for argnum in range(1, n + 1):
                r = list(vj[B.make_sequence]((argnum,), ans, (seq_type,) + args, {})(g))[0]
                out(f"{FN}.make_sequence:{seq_type.__name__}{n}.arg{argnum}:MS-vjp", isinstance(r, Opaque) and r.term == ("g", argnum - 1), f"argnum {argnum} gets g[{argnum - 1}]")
                t = _leaf(("t",))
                so = C.primitive_jvps[B.make_sequence]((argnum,), [t], ans, (seq_type,) + args, {})
                dense = so.mut_add(C.vspace(ans).zeros()) if type(so) is C.SparseObject else so
                exp = [("zeros", ("a", i)) if i != argnum - 1 else ("+", ("zeros", ("a", i)), ("t",)) for i in range(n)]
                out(f"{FN}.make_sequence:{seq_type.__name__}{n}.arg{argnum}:MS-jvp", type(dense) is seq_type and [d.term for d in dense] == exp, f"forward: tangent at {argnum - 1}: {_terms(dense)}")
    # ---- _make_dict -------------------------------------------------------------------------------------------------
    for keys in (("a",), ("a", "b"), ("b", "a", "c"), ("z", "y", "x", "w")):
        vals = [_leaf(("v", k)) for k in keys]
        ans = B._make_dict(keys, vals)
        out(f"{FN}._make_dict:{''.join(keys)}:MD-primal", type(ans) is dict and list(ans) == list(keys) and [ans[k].term for k in keys] == [("v", k) for k in keys], "primal")
        for perm in itertools.islice(itertools.permutations(keys), 6):
            g = {k: _leaf(("g", k)) for k in perm}  # cotangent with ANOTHER key insertion order
            r = vj[B._make_dict]((1,), ans, (keys, vals), {})(g)[0]
            out(f"{FN}._make_dict:{''.join(keys)}.g{''.join(perm)}:MD-vjp", isinstance(r, list) and [x.term for x in r] == [("g", k) for k in keys], f"keys {keys}, g order {perm}: {_terms(r)}")
    # ---- ContainerVSpace ---------------------------------------------------------------------------------------------
    protos = [(), (1,), (1, 2), [1], [1, 2, 3], {"a": 1}, {"b": 1, "a": 2}, (1, [2, {"k": 3}]), {"x": (1, 2), "y": [3]}, [(), {}, (1,)]]
    cnt = itertools.count()

    def mk(p, tag, owned=False):
        if isinstance(p, dict):
            return {k: mk(v, tag, owned) for k, v in p.items()}
        if isinstance(p, (list, tuple)):
            return type(p)(mk(v, tag, owned) for v in p)
        return Opaque((tag, next(cnt)), owned=owned, size=1, nbasis=1)

    def leaves(c):
        if isinstance(c, dict):
            return [l for v in c.values() for l in leaves(v)]
        if isinstance(c, (list, tuple)):
            return [l for v in c for l in leaves(v)]
        return [c]

    def same_struct(a, b):
        if isinstance(a, dict):
            return isinstance(b, dict) and list(a) == list(b) and all(same_struct(a[k], b[k]) for k in a)
        if isinstance(a, (list, tuple)):
            return type(a) is type(b) and len(a) == len(b) and all(same_struct(x, y) for x, y in zip(a, b))
        return isinstance(b, Opaque)

    for pi, p in enumerate(protos):
        x, y = mk(p, "x"), mk(p, "y")
        vs = C.vspace(x)
        case = f"proto{pi}"
        z = vs.zeros()
        out(f"{FN}.ContainerVSpace.zeros:{case}:CV-zeros", same_struct(x, z) and [l.term for l in leaves(z)] == [("zeros", l.term) for l in leaves(x)], f"zeros leaf-wise: {_terms(z)}")
        def reorder(c):   # same vector, dict keys inserted in REVERSED order: a vector of the same space
            if isinstance(c, dict):
                return {k_: reorder(c[k_]) for k_ in reversed(list(c))}
            if isinstance(c, (list, tuple)):
                return type(c)(reorder(v) for v in c)
            return c
        yr = reorder(y)
        sr = vs._add(x, yr)
        out(f"{FN}.ContainerVSpace._add:{case}:CV-add-key-order", same_struct(x, sr) and [l.term for l in leaves(sr)] == [("+", a.term, b.term) for a, b in zip(leaves(x), leaves(y))],
            "add pairs leaves BY KEY: a dict vector with another key insertion order is the same vector")
        ipr = None
        s = vs._add(x, y)
        out(f"{FN}.ContainerVSpace._add:{case}:CV-add", same_struct(x, s) and [l.term for l in leaves(s)] == [("+", a.term, b.term) for a, b in zip(leaves(x), leaves(y))], "add leaf-wise")
        xo = mk(p, "xo", owned=True)
        xo_terms = [l.term for l in leaves(xo)]
        y_terms = [l.term for l in leaves(y)]
        del stubs.WRITES[:]
        m = vs._mut_add(xo, y)
        okm = (same_struct(x, m) and [l.term for l in leaves(m)] == [("+", a, b) for a, b in zip(xo_terms, y_terms)]
               and all(owned is True for _, owned in stubs.WRITES) and [l.term for l in leaves(y)] == y_terms)
        out(f"{FN}.ContainerVSpace._mut_add:{case}:CV-mut_add", okm, "in-place add leaf-wise, writing only into the FIRST argument's leaves")
        a = Opaque(("alpha",))
        sm = vs._scalar_mul(x, a)
        out(f"{FN}.ContainerVSpace._scalar_mul:{case}:CV-scalar_mul", same_struct(x, sm) and [l.term for l in leaves(sm)] == [("*", l0.term, ("alpha",)) for l0 in leaves(x)], "scalar_mul leaf-wise")
        cv = vs._covector(x)
        out(f"{FN}.ContainerVSpace._covector:{case}:CV-covector", same_struct(x, cv) and all(c is l for c, l in zip(leaves(cv), leaves(x))), "covector leaf-wise (identity for real leaves)")
        try:
            sz = vs.size
            oks = sz == len(leaves(x))
        except Exception as e:
            oks, sz = False, repr(e)
        out(f"{FN}.ContainerVSpace.size:{case}:CV-size", oks, f"size = sum of leaf sizes: {sz} vs {len(leaves(x))}")
        basis = list(vs.standard_basis())
        okb = len(basis) == len(leaves(x)) and all(same_struct(x, b) for b in basis)
        for i, b in enumerate(basis):
            lt = [l.term for l in leaves(b)]
            okb = okb and all((t[0] == "e") == (j == i) for j, t in enumerate(lt))
        out(f"{FN}.ContainerVSpace.standard_basis:{case}:CV-basis", okb, f"{len(basis)} basis members, one per leaf basis element, in leaf order")
    # ---- Box protocol ------------------------------------------------------------------------------------------------
    sb = B.SequenceBox((1.0, 2.0, 3.0), 0, None)
    db = B.DictBox({"b": 1.0, "a": 2.0}, 0, None)
    out(f"{FN}.SequenceBox:protocol:BX-seq", len(sb) == 3 and (2.0 in sb) and (5.0 not in sb) and sb.index(3.0) == 2, "len / in / index delegate to the value")
    out(f"{FN}.DictBox:protocol:BX-dict", len(db) == 2 and list(iter(db)) == ["b", "a"] and ("a" in db) and ("z" not in db) and list(db.iterkeys()) == ["b", "a"] and db.keys() == ["b", "a"]
        and db.get("zz", 7) == 7, "len / iter / in / keys / get-default delegate to the value in its own key order")


# ---------------------------------------------------------------------------------------------------------------------
CONTAINER_CASES = [
    ("tuple-index", "lambda B, anp, p: p[0] * p[1] + anp.sum(p[2])", "(S(2), S(2), S(3))"),
    ("tuple-neg-index", "lambda B, anp, p: p[-1] * 3 + p[-3] * p[-2]", "(S(), S(), S())"),
    ("list-slice", "lambda B, anp, p: sum(anp.sum(q) * (i + 2) for i, q in enumerate(p[1:3]))", "[S(2), S(2), S(), S(2)]"),
    ("list-slice-step", "lambda B, anp, p: sum(anp.sum(q) * (i + 2) for i, q in enumerate(p[::2]))", "[S(2), S(2), S(), S(2)]"),
    ("list-slice-rev", "lambda B, anp, p: sum(anp.sum(q) * (i + 2) for i, q in enumerate(p[::-1]))", "[S(2), S(), S(2)]"),
    ("list-slice-rev-from", "lambda B, anp, p: sum(anp.sum(q) * (i + 2) for i, q in enumerate(p[1::-1]))", "[S(2), S(), S(2)]"),
    ("list-slice-neg", "lambda B, anp, p: sum(anp.sum(q) * (i + 2) for i, q in enumerate(p[-2:]))", "[S(2), S(), S(2)]"),
    ("tuple+tuple", "lambda B, anp, p: (lambda q: q[0] * 2 + q[1] * 3 + q[2] * 5 + q[3] * 7)(p + (p[0] * p[1], Kc(4)))", "(S(), S())"),
    ("tuple+empty", "lambda B, anp, p: (lambda q: q[0] * 2 + q[1] * 3)(p + ())", "(S(), S())"),
    ("plain+tuple", "lambda B, anp, p: (lambda q: q[0] * 2 + q[1] * 3 + q[2] * 5 + q[3] * 7 + q[4] * 11)((Kc(10), Kc(20), Kc(30)) + p)", "(S(), S())"),
    ("plain1+tuple", "lambda B, anp, p: (lambda q: q[0] * 2 + q[1] * 3 + q[2] * 5 + q[3] * 7)((Kc(10),) + p)", "(S(), S(), S())"),
    ("list+list", "lambda B, anp, p: (lambda q: q[0] * 2 + q[1] * 3 + q[2] * 5)(p + [p[0] * p[0]])", "[S(), S()]"),
    ("iterate-unpack", "lambda B, anp, p: (lambda a, b, c: a * b + anp.sum(c) * a)(*p)", "(S(), S(), S(2))"),
    ("len-membership", "lambda B, anp, p: p[0] * len(p) + p[1]", "[S(), S(), S()]"),
    ("dict-access", "lambda B, anp, p: p['a'] * p['b'] + anp.sum(p['c']['d'])", "{'b': S(), 'a': S(), 'c': {'d': S(2)}}"),
    ("dict-methods", "lambda B, anp, p: sum(v * (i + 2) for i, v in enumerate(p.values())) + sum(p[k] * 7 for k in p.keys()) + sum(v * len(k) for k, v in p.items()) + p.get('a', 0.0) + p.get('zz', 1.0)", "{'bb': S(), 'a': S()}"),
    ("dict-iter", "lambda B, anp, p: sum(p[k] * (i + 2) for i, k in enumerate(p))", "{'b': S(), 'a': S(), 'c': S()}"),
    ("nested", "lambda B, anp, p: p[0]['w'][1] * p[1][0] + anp.sum(p[0]['w'][0] ** 2) * p[1][1][0]", "({'w': [S(2), S()]}, [S(), (S(),)])"),
    ("B.tuple-ctor", "lambda B, anp, p: (lambda q: q[0] * q[1] + q[1] * 5)(B.tuple((p[0] * 2, p[1] * p[0])))", "(S(), S())"),
    ("B.list-ctor", "lambda B, anp, p: (lambda q: q[0] * q[1] + q[2])(B.list([p[0], p[1] * p[0], p[1]]))", "[S(), S()]"),
    ("B.dict-ctor", "lambda B, anp, p: (lambda d: d['u'] * d['v'] + d['v'])(B.dict({'v': p[0] * 2, 'u': p[1]}))", "(S(), S())"),
    ("B.dict-ctor-kwargs", "lambda B, anp, p: (lambda d: d['u'] * d['v'] + d['v'])(B.dict(v=p[0] * 2, u=p[1]))", "(S(), S())"),
    ("B.dict-ctor-pairs", "lambda B, anp, p: (lambda d: d['u'] * d['v'] + d['v'] * 3)(B.dict([('v', p[0] * 2), ('u', p[1])]))", "(S(), S())"),
    ("unused-leaf", "lambda B, anp, p: p[0] * 3", "(S(), S(2), {'k': S()})"),
    ("returns-container", "lambda B, anp, p: B.tuple((p[0] * p[1], [p[1] * 2]))[1][0] * p[0]", "(S(), S())"),
    # constructors given traced AND constant entries (the result is still one traced container)
    ("B.dict-ctor mixed const", "lambda B, anp, p: (lambda d: d['u'] * d['c'] + d['u'] * d['u'])(B.dict({'c': Kc(3), 'u': p[0] * p[1]}))", "(S(), S())"),
    ("B.dict-ctor mixed returned", "lambda B, anp, p: sum(v * (i + 2) for i, v in enumerate(B.dict({'a': p[0] * 2, 'k': Kc(5), 'b': p[1]}).values()))", "(S(), S())"),
    ("B.list-ctor mixed const", "lambda B, anp, p: (lambda q: q[0] * q[1] + q[2] * q[0])(B.list([p[0], Kc(4), p[1] * p[0]]))", "[S(), S()]"),
    ("B.tuple-ctor mixed const", "lambda B, anp, p: (lambda q: q[0] * q[1] + q[2])(B.tuple((Kc(2), p[0] * p[1], p[1])))", "(S(), S())"),
    ("dict.get present/absent", "lambda B, anp, p: p.get('a', Kc(7)) * 3 + p.get('zz', Kc(5)) * p['b'] + p.get('b') * p.get('b')", "{'a': S(), 'b': S()}"),
    # dict keys that are integers (not positions): negative, >= len, non-contiguous
    ("dict-int-keys", "lambda B, anp, p: p[1] * 2 + p[3] * p[1] * 5", "{1: S(), 3: S()}"),
    ("dict-negative-int-keys", "lambda B, anp, p: p[-1] * 2 + p[0] * 3 + p[-1] * p[0]", "{-1: S(), 0: S()}"),
    ("dict-int-keys-order", "lambda B, anp, p: p[2] * 2 + p[0] * 3 + p[1] * 5", "{2: S(), 0: S(), 1: S()}"),
    ("dict-tuple-keys", "lambda B, anp, p: p[(0, 1)] * 2 + p[(1, 0)] * p[(0, 1)]", "{(0, 1): S(), (1, 0): S()}"),
    # the same container concatenated twice / a concatenation used twice / lists are never extended in place
    ("list+list twice", "lambda B, anp, p: (lambda q, r: q[2] * 2 + r[2] * 3 + len(q) * q[0] + len(r) * r[1] + len(p) * p[0])(p + [p[0] * 2], p + [p[1] * 3])", "[S(), S()]"),
    ("list concat chain", "lambda B, anp, p: (lambda q: (lambda r: r[0] * 2 + r[2] * 3 + r[3] * 5 + len(q) * q[1])(q + [p[1] * 7]))(p + [p[0] * 2])", "[S(), S()]"),
    ("tuple used three times", "lambda B, anp, p: (lambda t: t[0] * 100 + t[1] * 9)(p) + (lambda t: t[0] * 10 + t[1] * 9)(p) + (lambda t: t[0] + t[1] * 9)(p)", "(S(), S())"),
    ("tuple concatenated three times (three dense container cotangents)", "lambda B, anp, p: (lambda q, r, s: q[0] * 100 + q[1] * 9 + q[2] + r[0] * 10 + r[1] * 9 + r[2] + s[0] + s[1] * 9 + s[2])(p + (p[0] * 2,), p + (p[1] * 3,), p + (Kc(5),))", "(S(), S())"),
    ("list concatenated four times, nested leaves", "lambda B, anp, p: sum((i + 2) * (q[0][0] * 3 + q[0][1] + anp.sum(q[1]) + q[2]) for i, q in enumerate([p + [p[0][0]], p + [p[0][1]], p + [Kc(1)], p + [p[0][0] * 2]]))", "[(S(), S()), S(2)]"),
    ("nested tuple used three times", "lambda B, anp, p: p[0][0] * 100 + p[0][1] * 9 + p[0][0] * 10 + p[1] * p[0][1] + p[0][0] + p[0][1] * 9", "((S(), S()), S())"),
]


def _exact_worker(case):
    import warnings
    warnings.simplefilter("ignore")
    import numpy as onp
    from vlib import symrun as Sx
    import autograd.builtins as B
    import autograd.numpy as anp
    from autograd.core import make_jvp, make_vjp
    from autograd.misc.flatten import flatten
    Sx.register()
    label, src, proto_src = case
    out = []
    try:
        ctr = itertools.count()

        def S(*shape):
            n = int(onp.prod(shape)) if shape else 1
            start = next(ctr) * 3
            return Sx.symarray("x", tuple(shape), start)[0]
        p = eval(proto_src, {"S": S})
        f0 = eval(src, {"Kc": lambda v: Sx.Sym(Sx.K(v))})
        f = lambda q: f0(B, anp, q)

        def leaves(c, path=()):
            if isinstance(c, dict):
                return [l for k, v in c.items() for l in leaves(v, path + (k,))]
            if isinstance(c, (list, tuple)):
                return [l for i, v in enumerate(c) for l in leaves(v, path + (i,))]
            return [(path, c)]

        def same_struct(a, b):
            if isinstance(a, dict):
                return type(b) is dict and list(a) == list(b) and all(same_struct(a[k], b[k]) for k in a)
            if isinstance(a, (list, tuple)):
                return type(a) is type(b) and len(a) == len(b) and all(same_struct(x, y) for x, y in zip(a, b))
            return Sx.shape_of(a) == Sx.shape_of(b)
        plain = f(p)
        pe = Sx.entries(plain)
        vjp, val = make_vjp(f, p)
        out.append(("K-value", all(x == y for x, y in zip(Sx.entries(val), pe)) and Sx.shape_of(val) == Sx.shape_of(plain), "primal under tracing equals plain evaluation"))
        G = Sx.symarray("g", Sx.shape_of(plain))[0]
        ge = Sx.entries(G)
        r = vjp(G)
        ok_s = same_struct(p, r)
        out.append(("K-structure", ok_s, f"gradient has the argument's nesting/keys/shapes: {type(r).__name__}"))
        if ok_s:
            bad = None
            for (path, leaf), (_, rl) in zip(leaves(p), leaves(r)):
                for xe, re_ in zip(Sx.entries(leaf), Sx.entries(rl)):
                    name = str(xe.e)
                    exp = sum((g * o.diff(name) for g, o in zip(ge, pe)), Sx.Sym(Sx.K(0)))
                    if not (re_ == exp) and bad is None:
                        bad = f"leaf {path}: got {re_}, exact {exp}"
            out.append(("K-leafwise", bad is None, bad or "every leaf holds the exact derivative wrt that leaf"))
        # forward mode on the same function (where rules exist)
        try:
            V = jax_like_tangent(Sx, p)
            val2, tang = make_jvp(f, p)(V)
            exp = []
            vl = [e for _, leaf in leaves(V) for e in Sx.entries(leaf)]
            xl = [e for _, leaf in leaves(p) for e in Sx.entries(leaf)]
            for o in pe:
                exp.append(sum((o.diff(str(x.e)) * v for x, v in zip(xl, vl)), Sx.Sym(Sx.K(0))))
            te = Sx.entries(tang)
            out.append(("K-jvp", len(te) == len(exp) and all(a == b for a, b in zip(te, exp)), "forward mode equals J v"))
        except Exception as e:
            out.append(("K-jvp-raises", True, f"{type(e).__name__}: {str(e)[:80]}"))
        # flatten / unflatten: mutually inverse linear maps commuting with grad
        flat, unflatten = flatten(p)
        fe = Sx.entries(flat)
        xl = [e for _, leaf in leaves(p) for e in Sx.entries(leaf)]
        if isinstance(p, dict) or any(isinstance(l, dict) for l in ([p] + [v for v in (p.values() if isinstance(p, dict) else p)] if not isinstance(p, dict) else [])):
            pass
        back = unflatten(flat)
        ok_rt = same_struct(p, back) and all(a == b for (_, l1), (_, l2) in zip(leaves(p), leaves(back)) for a, b in zip(Sx.entries(l1), Sx.entries(l2)))
        out.append(("K-flatten-roundtrip", ok_rt and sorted(map(str, fe)) == sorted(map(str, xl)), "unflatten(flatten(p)) == p and flatten is a bijective gather"))
        gflat = make_vjp(lambda z: f(unflatten(z)), flat)[0](G)
        gf2 = flatten(r)[0] if ok_s else None
        out.append(("K-flatten-commutes", gf2 is not None and all(a == b for a, b in zip(Sx.entries(gflat), Sx.entries(gf2))), "grad of f o unflatten at flatten(p) == flatten(grad f(p))"))
    except Sx.SymLimit as e:
        out.append(("K-skip", True, str(e)[:100]))
    except Exception as e:
        import traceback
        tb = traceback.format_exc().strip().splitlines()
        out.append(("K-error", False, f"{type(e).__name__}: {str(e)[:160]} @ {tb[-3].strip() if len(tb) > 2 else ''}"))
    return label, out


def jax_like_tangent(Sx, p):
    ctr = itertools.count()

    def mk(c):
        if isinstance(c, dict):
            return {k: mk(v) for k, v in c.items()}
        if isinstance(c, (list, tuple)):
            return type(c)(mk(v) for v in c)
        shp = Sx.shape_of(c)
        n = 1
        for d in shp:
            n *= d
        start = next(ctr) * 3
        return Sx.symarray("v", shp, start)[0]
    return mk(p)


def run_float_leaves(rep):
    """container programs in floats at SPECIAL leaf values (exactly 0.0, -0.0, nan-free): value and gradient must not depend on the truth value of a leaf"""
    import numpy as onp

    import autograd.numpy as anp
    from autograd import grad
    from autograd.core import make_vjp
    progs = {
        "dict.get zero leaf": (lambda p: p.get("a", 7.0) * 3.0 + p["b"], {"a": 0.0, "b": 2.0}, {"a": 3.0, "b": 1.0}, 2.0),
        "dict.get zero array leaf": (lambda p: anp.sum(p.get("a", onp.ones(2)) * onp.array([3.0, 5.0])) + p["b"], {"a": onp.zeros(2), "b": 2.0}, {"a": onp.array([3.0, 5.0]), "b": 1.0}, 2.0),
        "dict.get default used": (lambda p: p.get("zz", 7.0) * p["b"], {"a": 0.0, "b": 2.0}, {"a": 0.0, "b": 7.0}, 14.0),
        "list zero leaf": (lambda p: p[0] * 3.0 + p[1] * p[1], [0.0, 2.0], [3.0, 4.0], 4.0),
        "tuple in-test on leaf": (lambda p: (p[0] if len(p) == 2 else p[1]) * 5.0, (0.0, 1.0), (5.0, 0.0), 0.0),
        "dict items zero leaf": (lambda p: sum(v * (i + 2.0) for i, (k, v) in enumerate(sorted(p.items()))), {"a": 0.0, "b": 0.0}, {"a": 2.0, "b": 3.0}, 0.0),
    }
    # container-VALUED functions built by the traced constructors from traced AND constant entries: the value handed back is a plain container
    # without tracer objects, the VJP routes each cotangent leaf to the entry it belongs to, the JVP has the output's structure
    import autograd.builtins as B
    from autograd.core import make_jvp
    from autograd.tracer import isbox
    outs = {
        "dict ctor mixed -> dict": (lambda x: B.dict({"a": x * 2.0, "k": 5.0, "b": x * x}), 3.0, {"a": 1.0, "k": 100.0, "b": 10.0}, 2.0 + 60.0),
        "dict ctor kwargs mixed -> dict": (lambda x: B.dict(a=x * 2.0, k=5.0), 3.0, {"a": 1.0, "k": 100.0}, 2.0),
        "list ctor mixed -> list": (lambda x: B.list([x * 2.0, 5.0, x * x]), 3.0, [1.0, 100.0, 10.0], 62.0),
        "tuple ctor mixed -> tuple": (lambda x: B.tuple((5.0, x * 3.0)), 3.0, (100.0, 1.0), 3.0),
        "dict ctor all const but one nested": (lambda x: B.dict({"c": 1.0, "n": B.list([2.0, x * 4.0])}), 3.0, {"c": 7.0, "n": [9.0, 1.0]}, 4.0),
    }
    for lab, (f, x, g, dexp) in outs.items():
        rep.bounded_case((lab, "K-container-output"))
        try:
            vjp, val = make_vjp(f, x)

            def leaves(c):
                if isinstance(c, dict):
                    return [l for k_ in c for l in leaves(c[k_])]
                if isinstance(c, (list, tuple)):
                    return [l for e_ in c for l in leaves(e_)]
                return [c]
            leak = any(isbox(l) for l in leaves(val))
            d = vjp(g)
            try:
                _, tang = make_jvp(f, x)(1.0)
                okt = type(tang) is type(val) and len(leaves(tang)) == len(leaves(val))
            except NotImplementedError:      # no forward rule for this constructor: a loud failure is allowed
                tang, okt = "raises NotImplementedError", True
            ok = (not leak) and abs(float(d) - dexp) < 1e-12 and okt
            det = f"value {val!r}{' CONTAINS TRACER OBJECTS' if leak else ''}; vjp(g) = {d!r} (expected {dexp}); tangent {tang!r}"
        except Exception as e:
            ok, det = False, f"raised {type(e).__name__}: {str(e)[:100]}"
        if not ok:
            rep.violation("E4:K-container-output", lab, f"{lab}: {det}", replay=dict(module="contracts.containers", label="float-leaves:" + lab), witness=True)
    for lab, (f, x, gexp, vexp) in progs.items():
        rep.bounded_case((lab, "K-float-leaves"))
        try:
            vjp, val = make_vjp(f, x)
            g = grad(f)(x)

            def same(a, b):
                if isinstance(b, dict):
                    return isinstance(a, dict) and set(a) == set(b) and all(same(a[k], b[k]) for k in b)
                if isinstance(b, (list, tuple)):
                    return type(a) is type(b) and len(a) == len(b) and all(same(p_, q_) for p_, q_ in zip(a, b))
                return onp.shape(a) == onp.shape(b) and onp.allclose(a, b, rtol=0, atol=1e-12)
            ok = abs(float(val) - vexp) < 1e-12 and same(g, gexp)
            det = f"value {val!r} (expected {vexp}), gradient {g!r} (expected {gexp!r})"
        except Exception as e:
            ok, det = False, f"raised {type(e).__name__}: {str(e)[:100]}"
        if not ok:
            rep.violation("E4:K-float-leaves", lab, f"{lab}: {det}", replay=dict(module="contracts.containers", label="float-leaves:" + lab), witness=True)


def run_flatten_layout(rep):
    """flatten/unflatten are mutually inverse and commute with grad whatever the MEMORY layout of the leaves (C, Fortran, transposed views, strided)."""
    import numpy as onp

    import autograd.numpy as anp
    from autograd import grad
    from autograd.misc.flatten import flatten
    W = onp.arange(6.0).reshape(2, 3) * 0.5 + 0.25
    vals = {"C": W, "F": onp.asfortranarray(W), "T": onp.arange(6.0).reshape(3, 2).T * 0.5 + 0.25, "strided": onp.arange(24.0).reshape(4, 6)[::2, ::2] * 0.5}
    for lay, leaf in vals.items():
        v = {"w": leaf, "b": [onp.array([1.0, 2.0]), 3.0]}
        flat, unflatten = flatten(v)
        back = unflatten(flat)
        exp_flat = onp.concatenate([onp.array([1.0, 2.0]), onp.array([3.0]), onp.asarray(leaf).ravel()])   # keys sorted: b, w; C order
        ok1 = onp.array_equal(back["w"], leaf) and onp.array_equal(flat, exp_flat)
        f = lambda p: anp.sum(p["w"] * onp.arange(1.0, 7.0).reshape(2, 3)) + p["b"][0][1] * 2 + p["b"][1]
        g1 = flatten(grad(f)(v))[0]
        g2 = grad(lambda z: f(unflatten(z)))(flat)
        ok2 = onp.array_equal(g1, g2)
        for cl, ok in (("K-flatten-roundtrip", ok1), ("K-flatten-commutes", ok2)):
            rep.bounded_case((f"flatten-layout-{lay}", cl))
            if not ok:
                rep.violation(f"E4:{cl}", f"flatten-layout-{lay}", f"leaf with {lay} memory layout: flatten gives {flat}, unflatten(flatten)['w'] = {back['w'].tolist()}, grad commutes: {ok2}",
                              replay=dict(module="contracts.containers", label=f"flatten-layout-{lay}"), witness=True)


def run_optimizer_wrapper(rep):
    """K-optimizer-wrapper: misc.optimizers.unflatten_optimizer(opt) (the container front-end of sgd / rmsprop / adam, built on flatten): the flat optimizer
    receives flatten(x0) and a gradient function that is flatten o grad o unflatten; the callback sees containers; the result is unflatten(flat result);
    extra positional / keyword options are handed on unchanged.  The flat optimizer is a recording stub; the three shipped optimizers are then run for
    two steps on a nested container against their flat selves."""
    import numpy as onp

    from autograd.misc import optimizers as O
    from autograd.misc.flatten import flatten
    x0 = {"w": onp.array([[1.0, 2.0], [3.0, 4.0]]), "b": (onp.array([0.5]), 2.0)}
    flat0, unfl = flatten(x0)
    log = {}

    def flat_opt(grad, x, callback=None, *args, **kwargs):
        log["x"], log["args"], log["kwargs"] = x.copy(), args, kwargs
        log["g"] = grad(x, 7)
        if callback:
            callback(x + 1.0, 3, log["g"])
        return x * 2.0
    seen = []
    cgrad = lambda p, i: {"w": p["w"] * 3.0, "b": (p["b"][0] * 5.0, p["b"][1] * 7.0 + i)}
    cb = lambda p, i, g: seen.append((p, i, g))
    res = O.unflatten_optimizer(flat_opt)(cgrad, x0, cb, 11, step=0.5)
    exp_g = flatten(cgrad(x0, 7))[0]
    checks = [
        ("flat start", onp.array_equal(log.get("x"), flat0)),
        ("options handed on", log.get("args") == (11,) and log.get("kwargs") == {"step": 0.5}),
        ("flat gradient = flatten(grad(unflatten(x), i))", onp.array_equal(log.get("g"), exp_g)),
        ("callback sees containers", len(seen) == 1 and isinstance(seen[0][0], dict) and onp.array_equal(seen[0][0]["w"], x0["w"] + 1.0) and seen[0][1] == 3
         and isinstance(seen[0][2], dict) and onp.array_equal(flatten(seen[0][2])[0], exp_g)),
        ("result = unflatten(flat result)", isinstance(res, dict) and onp.array_equal(flatten(res)[0], flat0 * 2.0) and onp.array_equal(res["w"], x0["w"] * 2.0) and isinstance(res["b"], tuple)),
        ("no callback", onp.array_equal(flatten(O.unflatten_optimizer(flat_opt)(cgrad, x0))[0], flat0 * 2.0)),
    ]
    for name in ("sgd", "rmsprop", "adam"):
        opt = getattr(O, name)
        r_c = opt(cgrad, x0, num_iters=2)
        r_f = opt(lambda z, i: flatten(cgrad(unfl(z), i))[0], flat0, num_iters=2)
        checks.append((f"{name}: container run == flat run", onp.allclose(flatten(r_c)[0], r_f, rtol=0, atol=0)))
    for lab, ok in checks:
        rep.bounded_case(("K-optimizer-wrapper", lab))
        if not ok:
            rep.violation("E4:K-optimizer-wrapper", lab, f"unflatten_optimizer: {lab} does not hold", replay=dict(module="contracts.containers", label=f"optimizer-wrapper:{lab}"), witness=True)


def run_exact(rep, tier, clauses=("K-value", "K-structure", "K-leafwise", "K-jvp", "K-flatten-roundtrip", "K-flatten-commutes")):
    import multiprocessing as mp
    rep.bound(f"container exact runs: {len(CONTAINER_CASES)} programs over nested tuples/lists/dicts (depth <= 3) of exact symbolic scalars and small arrays")
    with mp.get_context("fork").Pool(8) as pool:
        results = pool.map(_exact_worker, CONTAINER_CASES)
    for label, res in results:
        for cl, ok, detail in res:
            if cl in ("K-skip",) or cl.endswith("-raises"):
                rep.note(f"{label}: {cl}: {detail}")
                continue
            if cl != "K-error" and cl not in clauses:
                continue
            rep.bounded_case((label, cl), sample=dict(case=label, clause=cl, result=detail) if ok else None)
            if not ok:
                rep.violation(f"E4:{cl}", label, f"{label}: {detail}", replay=dict(module="contracts.containers", label=label), witness=True)


def replay(spec):
    if "label" in spec and spec["label"].startswith("float-leaves:"):
        from vlib.common import Report
        r = Report("replay", "quick", "other", "replay")
        r.known = {"findings": []}
        run_float_leaves(r)
        bad = [v for v in r.violations if "float-leaves:" + v["case"] == spec["label"]]
        return (not bad), (bad[0]["what"] if bad else "holds"), "value and leaf-wise gradient of the container program"
    if "label" in spec and spec["label"].startswith("optimizer-wrapper:"):
        from vlib.common import Report
        r = Report("replay", "quick", "other", "replay")
        r.known = {"findings": []}
        run_optimizer_wrapper(r)
        bad = [v for v in r.violations if "optimizer-wrapper:" + v["case"] == spec["label"]]
        return (not bad), (bad[0]["what"] if bad else "holds"), "the flat optimizer (a recording stub) and flatten/unflatten"
    if "label" in spec and spec["label"].startswith("flatten-layout"):
        from vlib.common import Report
        r = Report("replay", "quick", "other", "replay")
        r.known = {"findings": []}
        run_flatten_layout(r)
        bad = [v for v in r.violations if v["case"] == spec["label"]]
        return (not bad), (bad[0]["what"] if bad else "holds"), "flatten is a C-order gather of every leaf, inverse to unflatten"
    if "label" in spec:
        for c in CONTAINER_CASES:
            if c[0] == spec["label"]:
                _, res = _exact_worker(c)
                bad = [(cl, d) for cl, ok, d in res if not ok]
                return (not bad), (str(bad) if bad else "holds"), "leaf-wise exact gradient with the argument's structure"
        return True, "case removed", ""

    class R:
        samples = []
        res = {}

        def function(self, *a): pass
        def bound(self, *a): pass
        def obligation(self, name, ok, *a, **k): self.res[name] = ok
        def violation(self, *a, **k): pass
    r = R()
    run_ground(r, spec.get("tier", "quick"))
    ok = r.res.get(spec["obligation"], True)
    return ok, "clause holds" if ok else "clause violated natively", spec["obligation"]
