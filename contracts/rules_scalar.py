"""E2 obligations: every element-wise VJP/JVP rule of numpy_vjps.py / numpy_jvps.py equals g * df/dx_a  (DESIGN §2.2, §5 C01/C02/C04).

The rule modules are shadow-loaded (imports replaced, nothing else) and the REAL rule lambdas are called on symbolic real
scalars (`ans` bound to the spec term), with unbroadcast / match_complex / balanced_eq / replace_zero running for real.
"""
import random

import z3

from vlib import rulecalc as rc
from vlib import shadow
from vlib.common import CheckerError, seed
from vlib.rulecalc import Ex, NotScalar

_cache = {}


def scalar_anp():
    E = rc._ex
    impls = dict(
        exp=rc.exp, log=rc.log, sin=rc.sin, cos=rc.cos, sinh=rc.sinh, cosh=rc.cosh, sqrt=rc.sqrt, tan=rc.tan, tanh=rc.tanh,
        conj=lambda x: x, conjugate=lambda x: x, real=lambda x: x, sign=rc.sign, floor=rc.floor, abs=rc.absf, absolute=rc.absf,
        where=lambda c, a, b: rc.where(c, a, b), isfinite=lambda x: rc.fn("isfinite", x),
        logical_and=lambda a, b: Ex("and", E(a), E(b)), iscomplexobj=lambda x: False, ndim=lambda x: 0, shape=lambda x: (),
        sum=lambda x, axis=None, keepdims=False: E(x), metadata=lambda x: ((), 0, "float64", False),
        zeros=lambda shape, dtype=None: rc.const(0), isscalar=lambda x: True,
        square=lambda x: E(x) * E(x), negative=lambda x: -E(x), reciprocal=lambda x: 1 / E(x),
    )
    return shadow.Namespace("anp", impls, consts=dict(pi=rc.PI, newaxis=None))


def load():
    """Shadow-loads both rule tables once per process.  Returns (vjp recorder, jvp recorder, dropped import lines)."""
    if "rec" in _cache:
        return _cache["rec"]
    import numpy as onp
    from functools import partial
    anp = scalar_anp()
    rv = shadow.Recorder()

    class ArrayBoxStub:
        __getitem__ = shadow.Prim("ArrayBox.__getitem__")

    common = dict(onp=onp, anp=anp, ArrayBox=ArrayBoxStub, func=lambda f: f, partial=partial,
                  SparseObject=object, VJPNode=type("VJPNode", (), {}), JVPNode=type("JVPNode", (), {}),
                  vspace=lambda x: None)
    ns_v, dropped_v = shadow.load("autograd/numpy/numpy_vjps.py", dict(common, defvjp=rv.defvjp, defvjp_argnum=rv.defvjp_argnum,
                                                                        primitive=rv.primitive, register_notrace=rv.register_notrace))
    rj = shadow.Recorder()
    names = ["balanced_eq", "dot_adjoint_0", "dot_adjoint_1", "match_complex", "nograd_functions", "replace_zero",
             "tensordot_adjoint_0", "tensordot_adjoint_1", "untake"]
    ns_j, dropped_j = shadow.load("autograd/numpy/numpy_jvps.py", dict(common, defjvp=rj.defjvp, defjvp_argnum=rj.defjvp_argnum,
                                                                        def_linear=rj.def_linear, register_notrace=rj.register_notrace,
                                                                        **{n: ns_v[n] for n in names if n in ns_v}))
    _cache["rec"] = (rv, rj, dropped_v + dropped_j)
    return _cache["rec"]


VARS = {1: ["x"], 2: ["x", "y"], 3: ["x", "y", "z"]}
CASES = {"power": [[("ne", "y", 0)], [("eq", "y", 0)]]}
# C04 holds wherever both modes are defined, ties and kinks included: domain of the adjoint obligation = existence only
ADJ_DOM = {n: (lambda *v: []) for n in ("maximum", "minimum", "fmax", "fmin", "abs", "absolute", "fabs")}
ADJ_DOM["clip"] = lambda x, lo, hi: [lo < hi]
ADJ_DOM["mod"] = ADJ_DOM["remainder"] = lambda x, y: [y != 0]


def spec_of(name):
    nargs, f, dom = rc.SPEC[name]
    vs = [rc.var(v) for v in VARS[nargs]]
    return nargs, vs, f(*vs), dom(*vs)


def eval_rule(kind, rec, name, a, vs, ans, g):
    """Runs the real rule on symbolic scalars. kind: 'vjp' | 'jvp'.  Returns Ex or raises."""
    if kind == "vjp":
        maker = rec.vjps.get((name, a))
        if maker is None:
            return None
        return rc._ex(maker(ans, *vs)(g))
    if name in rec.linear:
        rule = "same"
    else:
        if (name, a) not in rec.jvps:
            return None
        rule = rec.jvps[(name, a)]
    if rule is None:
        return rc.const(0)
    if isinstance(rule, str) and rule == "same":
        nargs, f, dom = rc.SPEC[name]
        return f(*[g if i == a else v for i, v in enumerate(vs)])
    return rc._ex(rule(g, ans, *vs))


def native_rule(kind, name, a, xs, g):
    """The registered rule of the real, unmodified autograd evaluated on floats."""
    import autograd.numpy as anp
    from autograd.core import primitive_jvps, primitive_vjps
    f = getattr(anp, name)
    ans = f(*xs)
    if kind == "vjp":
        return float(primitive_vjps[f]((a,), ans, tuple(xs), {})(g)[0])
    return float(primitive_jvps[f]((a,), [g], ans, tuple(xs), {}))


def witness_search(kind, name, a, expected_ex, dom_ex, model_env=None, n=300):
    """Looks for a concrete input on which the REAL rule disagrees with the mpmath value of g*df/dx."""
    import mpmath as mp
    mp.mp.dps = 40
    rng = random.Random(seed() + 17)
    nargs = rc.SPEC[name][0]
    cands = []
    if model_env:
        cands.append(model_env)
    for _ in range(n):
        env = {v: rng.choice([rng.uniform(-3, 3), rng.uniform(0.05, 0.95), rng.uniform(1.1, 4), float(rng.randint(-3, 3))]) for v in VARS[nargs]}
        env["g"] = rng.uniform(-2, 2)
        cands.append(env)
    for env in cands:
        try:
            if not all(rc.evalf(c, env, mp) != 0 for c in dom_ex):
                continue
            exp = rc.evalf(expected_ex, env, mp)
            xs = [float(env[v]) for v in VARS[nargs]]
            got = native_rule(kind, name, a, xs, float(env["g"]))
        except Exception:
            continue
        if not (abs(got - float(exp)) <= 1e-6 * (1 + abs(float(exp)))):
            return dict(env={k: float(v) for k, v in env.items()}, got=got, expected=float(exp))
    return None


def _cond(c, vs):
    op, v, k = c
    x = {q.a[0]: q for q in vs}[v]
    return (x != k) if op == "ne" else (x == k)


SECOND_SKIP = {"arctanh": "z3/cvc5 leave d/dx of the rule vs d/dx of g/(1-x^2) undecided within the budget (nonlinear real arithmetic with 1/(1-x^2)^2); the bounded N-hess / X-hess runs cover it"}


def run(rep, tier, kinds=("vjp", "jvp"), adjoint=False, names=None, second=False):
    rv, rj, dropped = load()
    rep.extra["shadow_import_lines_replaced"] = dropped
    rep.extra["shadow_registrations"] = dict(vjp=len(rv.vjps) + len(rv.vjp_argnum), jvp=len(rj.jvps) + len(rj.jvp_argnum) + len(rj.linear))
    rep.function("autograd/numpy/numpy_vjps.py (element-wise rule lambdas, unbroadcast, match_complex, balanced_eq, replace_zero)",
                 rc.__file__ and __import__("os").path.join(__import__("vlib.common").common.REPO, "autograd/numpy/numpy_vjps.py"))
    rep.function("autograd/numpy/numpy_jvps.py (element-wise rule lambdas)", __import__("os").path.join(__import__("vlib.common").common.REPO, "autograd/numpy/numpy_jvps.py"))
    rep.assume("floats treated as mathematical reals", "calculus basis table: " + "; ".join(rc.BASIS_TABLE),
               "a NumPy ufunc applies its scalar function point-wise to broadcast operands; the scalar function of each ufunc is the SPEC entry of vlib/rulecalc.py",
               "principal real branches; transcendental functions as uninterpreted symbols with the instance axioms listed in vlib/rulecalc.py (sound: every axiom is a true identity)")
    g = rc.var("g")
    for name in sorted(rc.SPEC):
        if names and name not in names:
            continue
        nargs, vs, spec, dom = spec_of(name)
        argnums = rc.SPEC_ARGNUMS.get(name, tuple(range(nargs)))
        if not rc.domain_satisfiable(dom):
            rep.error(f"vacuous domain for {name}")
            continue
        for a in argnums:
            expected = g * rc.D(spec, VARS[nargs][a])
            got = {}
            for kind in kinds:
                rec = rv if kind == "vjp" else rj
                oname = f"{kind}:{name}:arg{a}"
                try:
                    r = eval_rule(kind, rec, name, a, vs, spec, g)
                except (NotScalar, shadow.NotModelled, TypeError, AttributeError, ValueError) as e:
                    r = e
                if r is None:
                    rep.note(f"{oname}: no rule registered (a differentiation request raises - allowed by 'or raises')")
                    continue
                got[kind] = r
                subcases = CASES.get(name, [[]])
                for ci, extra in enumerate(subcases):
                    cname = oname + (f":case{ci}" if len(subcases) > 1 else "") + ":rule-equals-g-times-derivative"
                    if isinstance(r, Exception):
                        verdict, m, backend, secs = "unknown", None, "-", 0.0
                        reason = f"rule body left the scalar abstraction: {type(r).__name__}: {r}"
                    else:
                        d2 = list(dom) + [_cond(c, vs) for c in extra]
                        verdict, m, backend, secs, zz = rc.identity_obligation(r, expected, d2)
                        reason = f"{verdict} by {backend}"
                    rep.obligation(cname, verdict == "proved", backend, secs, "E2",
                                   sample=(f"forall {VARS[nargs]}, g in dom: {r!r} == {expected!r}"[:600] if len(rep.samples) < 6 else None))
                    if verdict != "proved":
                        env = None
                        if m is not None:
                            env = {v: rc.model_value(m, z3.Real(v), 0.5) for v in VARS[nargs] + ["g"]}
                        d2 = list(dom) + [_cond(c, vs) for c in extra]
                        w = witness_search(kind, name, a, expected, d2, env)
                        spec_r = dict(module="contracts.rules_scalar", kind=kind, name=name, argnum=a, witness=w)
                        if w:
                            rep.violation(f"E2:{kind}:{name}", f"arg{a}", f"real {kind} rule of {name} wrt arg {a} at {w['env']} returned {w['got']}, "
                                          f"g*df/dx = {w['expected']}", replay=spec_r, witness=True, solver_output=str(m)[:400])
                        else:
                            rep.violation(f"E2:{kind}:{name}", f"arg{a}", f"obligation {cname} not discharged ({reason})", replay=spec_r,
                                          witness=False, solver_output=(str(m)[:400] if m is not None else reason))
            if second:
                # C07: the rule agrees with g * df/dx also as a DIFFERENTIABLE function of every primal argument: d rule / d b == d (g * df/dx) / d b,
                # `where` differentiated branch-wise exactly as autograd does at the next order (a select that freezes an argument at a special point shows here)
                for kind in kinds:
                    r = got.get(kind)
                    if r is None or isinstance(r, Exception):
                        continue
                    for b in VARS[nargs]:
                      subcases2 = CASES.get(name, [[]])
                      for ci, extra in enumerate(subcases2):
                        cname = f"second:{kind}:{name}:arg{a}:d-rule-d{b}-equals-d-spec-d{b}" + (f":case{ci}" if len(subcases2) > 1 else "")
                        if name in SECOND_SKIP:
                            rep.uncover(f"E2 {cname}: {SECOND_SKIP[name]}") if kind == "vjp" and b == VARS[nargs][0] else None
                            continue
                        d2 = list(dom) + [_cond(c, vs) for c in extra]
                        try:
                            verdict, m, backend, secs, zz = rc.identity_obligation(rc.D(r, b), rc.D(expected, b), d2)
                        except (NotScalar, TypeError, ValueError, AttributeError) as e:
                            verdict, m, backend, secs = "unknown", None, "-", 0.0
                        if verdict == "unknown":
                            # nonlinear real arithmetic: an undecided instance of this SUPPLEMENTARY family is listed as uncovered, never reported (the solver's
                            # "unknown" depends on timing); only a refutation with a model is a violation
                            rep.uncover(f"E2 {cname}: undecided by z3/cvc5 within the budget")
                            continue
                        rep.obligation(cname, verdict == "proved", backend, secs, "E2")
                        if verdict != "proved":
                            env = {v: rc.model_value(m, z3.Real(v), 0.5) for v in VARS[nargs] + ["g"]} if m is not None else None
                            rep.violation(f"E2:second:{kind}:{name}", f"arg{a}:d{b}" + (f":case{ci}" if len(subcases2) > 1 else ""),
                                          (f"{cname}: at {env} the derivative of the real rule with respect to {b} differs from that of g*df/d{VARS[nargs][a]} "
                                           "(second-order derivatives through this rule are wrong there)") if env else f"{cname} not discharged", witness=False, solver_output=str(m)[:300])
            if adjoint and "vjp" in got and "jvp" in got and not any(isinstance(x, Exception) for x in got.values()):
                # C04: the two independently written tables describe the same linear map (no calculus table involved)
                adom = ADJ_DOM[name](*vs) if name in ADJ_DOM else dom + ([_cond(c, vs) for c in CASES.get(name, [[]])[0]])
                verdict, m, backend, secs, zz = rc.identity_obligation(got["vjp"], got["jvp"], adom)
                cname = f"adjoint:{name}:arg{a}:vjp-factor-equals-jvp-factor"
                rep.obligation(cname, verdict == "proved", backend, secs, "E2")
                if verdict != "proved":
                    w = adjoint_witness(name, a, adom)
                    rep.violation(f"E2:adjoint:{name}", f"arg{a}", (f"<g,JVP v> != <VJP g,v> at {w}" if w else f"{cname} not discharged"),
                                  replay=dict(module="contracts.rules_scalar", kind="adjoint", name=name, argnum=a, witness=w), witness=bool(w), solver_output=str(m)[:300])
                # adjointness also at the explicitly handled kink x = 0 of power (both modes are defined there)
                if name == "power":
                    for ci, extra in enumerate(([vs[0] == 0, vs[1] == 0], [vs[0] == 0, vs[1] == 1], [vs[0] == 0, vs[1] > 1])):
                        verdict, m, backend, secs, zz = rc.identity_obligation(got["vjp"], got["jvp"], extra, check_defined=True)
                        cname = f"adjoint:{name}:arg{a}:kink{ci}:vjp-factor-equals-jvp-factor"
                        rep.obligation(cname, verdict == "proved", backend, secs, "E2")
                        if verdict != "proved":
                            pt = [0.0, [0.0, 1.0, 2.0][ci]]
                            try:
                                lhs, rhs = native_rule("jvp", name, a, pt, 1.0), native_rule("vjp", name, a, pt, 1.0)
                            except Exception as e:
                                lhs, rhs = repr(e), None
                            bad = not (lhs == rhs)
                            rep.violation(f"E2:adjoint:{name}", f"arg{a}:kink{ci}", f"at x=0, y={pt[1]}: JVP factor {lhs}, VJP factor {rhs}",
                                          replay=dict(module="contracts.rules_scalar", kind="adjoint", name=name, argnum=a, witness=dict(x=pt, g=1.0, v=1.0)), witness=bad, solver_output=str(m)[:200])
                for kind in ("vjp", "jvp"):
                    # the rule must be differentiable as a LINEAR function of g: d rule/d g == rule(1) for every g (incl. g = 0),
                    # where(c, a, b) differentiated branch-wise exactly as autograd does at the next order
                    dg = rc.D(got[kind], "g")
                    rec = rv if kind == "vjp" else rj
                    one_ = eval_rule(kind, rec, name, a, vs, spec, rc.const(1))
                    verdict, m, backend, secs, zz = rc.identity_obligation(dg, one_, dom + ([_cond(c, vs) for c in CASES.get(name, [[]])[0]]))
                    cname = f"linear:{kind}:{name}:arg{a}:derivative-in-g-is-the-factor"
                    rep.obligation(cname, verdict == "proved", backend, secs, "E2")
                    if verdict != "proved":
                        rep.violation(f"E2:linear-d:{kind}:{name}", f"arg{a}", f"{cname}: d/dg of the rule is {dg!r}"[:400] + f" which is not the factor {one_!r}"[:300] +
                                      " - the next-order derivative through this rule is wrong for such g", witness=False, solver_output=str(m)[:300])
                for kind in ("vjp", "jvp"):
                    # linear in the (co)tangent: rule(g) = g * rule(1)
                    rec = rv if kind == "vjp" else rj
                    one = eval_rule(kind, rec, name, a, vs, spec, rc.const(1))
                    verdict, m, backend, secs, zz = rc.identity_obligation(got[kind], g * one, dom)
                    cname = f"linear:{kind}:{name}:arg{a}:homogeneous-additive-in-g"
                    rep.obligation(cname, verdict == "proved", backend, secs, "E2")
                    if verdict != "proved":
                        rep.violation(f"E2:linear:{kind}:{name}", f"arg{a}", f"{cname} not discharged", witness=False, solver_output=str(m)[:300])
    # canary: a sign-flipped cos rule must be refuted
    x = rc.var("x")
    v, m, _, _, _ = rc.identity_obligation(g * rc.sin(x), g * rc.D(rc.cos(x), "x"), [])
    rep.canary("E2:canary-cos-rule-with-wrong-sign", v == "refuted")


KINKS = [
    # (primitive, kink domain as lambda vars -> [Ex], kind)   kinds: tie2 (max-like), tie2min, interval(lo, hi) for 1-D kinks
    ("maximum", lambda x, y: [x == y], "tie-max"), ("fmax", lambda x, y: [x == y], "tie-max"),
    ("minimum", lambda x, y: [x == y], "tie-min"), ("fmin", lambda x, y: [x == y], "tie-min"),
    ("abs", lambda x: [x == 0], ("interval", -1, 1)), ("absolute", lambda x: [x == 0], ("interval", -1, 1)),
    ("fabs", lambda x: [x == 0], ("interval", -1, 1)),
    ("clip", lambda x, lo, hi: [lo < hi, x == lo], ("interval", 0, 1)), ("clip", lambda x, lo, hi: [lo < hi, x == hi], ("interval", 0, 1)),
    ("power", lambda x, y: [x == 0, y == 0], ("value0", 0)), ("power", lambda x, y: [x == 0, y == 1], ("value0", 1)),
    ("power", lambda x, y: [x == 0, y > 1], ("value0", 0)), ("power", lambda x, y: [x == 0, y > 0], ("value1", 0)),
]


def native_grads(name, xs):
    import warnings

    import autograd.numpy as anp
    from autograd.core import primitive_vjps
    f = getattr(anp, name)
    with warnings.catch_warnings():
        warnings.simplefilter("ignore")
        ans = f(*xs)
        out = []
        for a in range(len(xs)):
            try:
                out.append(float(primitive_vjps[f]((a,), ans, tuple(xs), {})(1.0)[0]))
            except Exception as e:
                out.append(repr(e))
    return out


def run_kinks(rep, tier):
    """C01's non-smooth clause: at the kinks the rules handle explicitly the VJP is finite and a valid generalised gradient:
    <rule, d> lies between the two one-sided directional derivatives for EVERY direction d."""
    rv, rj, dropped = load()
    for idx, (name, domf, kind) in enumerate(KINKS):
        nargs, vs, spec, _ = spec_of(name)
        dom = domf(*vs)
        one = rc.const(1)
        rules = []
        ok_eval = True
        for a in (range(nargs) if kind in ("tie-max", "tie-min") else ([1] if kind[0] == "value1" else [0])):
            try:
                rules.append(eval_rule("vjp", rv, name, a, vs, spec, one))
            except Exception as e:
                ok_eval = False
        cname = f"kink:{name}:{idx}:finite-generalised-gradient"
        if not ok_eval or any(r is None for r in rules):
            rep.obligation(cname, False, "-", 0, "E2")
            rep.violation(f"E2:kink:{name}", str(idx), f"{cname}: rule could not be evaluated symbolically", witness=False)
            continue

        def build(z, rules=rules, kind=kind):
            if kind in ("tie-max", "tie-min"):
                rx, ry = z.t(rules[0]), z.t(rules[1])
                dx, dy = z3.Real("dx"), z3.Real("dy")
                lo = z3.If(dx <= dy, dx, dy)
                hi = z3.If(dx >= dy, dx, dy)
                p = rx * dx + ry * dy
                return z3.And(lo <= p, p <= hi)
            r = z.t(rules[0])
            if kind[0] == "interval":
                return z3.And(r >= kind[1], r <= kind[2])
            return r == kind[1]
        verdict, m, backend, secs = rc.prove_condition(dom, build)
        rep.obligation(cname, verdict == "proved", backend, secs, "E2", sample=f"{name} at {dom!r}: {kind}")
        if verdict != "proved":
            pts = {"maximum": [1.5, 1.5], "minimum": [1.5, 1.5], "fmax": [1.5, 1.5], "fmin": [1.5, 1.5], "abs": [0.0], "absolute": [0.0], "fabs": [0.0]}
            xs = pts.get(name)
            if name == "clip":
                xs = [0.0, 0.0, 1.0] if idx % 2 == 0 else [1.0, 0.0, 1.0]
            if name == "power":
                xs = [0.0, {0: 0.0, 1: 1.0}.get(kind[1] if kind[0] == "value0" and idx < 11 else 2, 2.0)]
                xs = [0.0, [0.0, 1.0, 2.0, 2.0][idx - 9]]
            gr = native_grads(name, xs)
            bad = _kink_bad(kind, gr)
            rep.violation(f"E2:kink:{name}", str(idx), f"at {xs} the real rules return {gr}" + ("" if bad else " (natively within the allowed set)"),
                          replay=dict(module="contracts.rules_scalar", kind="kink", name=name, xs=xs, kinkkind=list(kind) if isinstance(kind, tuple) else kind),
                          witness=bad, solver_output=str(m)[:300])


def _kink_bad(kind, gr):
    import math
    vals = [g for g in gr if isinstance(g, float)]
    if len(vals) != len(gr) or any(math.isnan(v) or math.isinf(v) for v in vals):
        return True
    if kind in ("tie-max", "tie-min"):
        return not (all(v >= -1e-12 for v in vals) and abs(sum(vals) - 1) < 1e-9)
    if kind[0] == "interval":
        return not (kind[1] - 1e-12 <= vals[0] <= kind[2] + 1e-12)
    if kind[0] == "value0":
        return abs(vals[0] - kind[1]) > 1e-9
    return abs(vals[1] - kind[1]) > 1e-9


def adjoint_witness(name, a, dom):
    import mpmath as mp
    rng = random.Random(seed() + 5)
    nargs = rc.SPEC[name][0]
    for _ in range(200):
        env = {v: rng.uniform(0.1, 2.5) for v in VARS[nargs]}
        if _ % 3 == 0:  # ties / kinks
            t = rng.choice([0.0, 1.5])
            env = {v: t for v in VARS[nargs]}
        try:
            if not all(rc.evalf(c, env, mp) != 0 for c in dom):
                continue
            xs = [env[v] for v in VARS[nargs]]
            gv, vv = rng.uniform(-2, 2), rng.uniform(-2, 2)
            l = gv * native_rule("jvp", name, a, xs, vv)
            r = native_rule("vjp", name, a, xs, gv) * vv
        except Exception:
            continue
        if abs(l - r) > 1e-9 * (1 + abs(l)):
            return dict(x=xs, g=gv, v=vv, lhs=l, rhs=r)
    return None


def replay(spec):
    if spec.get("kind") == "kink":
        gr = native_grads(spec["name"], spec["xs"])
        k = spec["kinkkind"]
        k = tuple(k) if isinstance(k, list) else k
        return (not _kink_bad(k, gr)), f"real rules at {spec['xs']} return {gr}", f"finite and inside the generalised gradient ({k})"
    w = spec.get("witness")
    if not w:
        return False, "no concrete input was found; the obligation is undischarged on this tree", "rule == g * df/dx for all points of the domain"
    if spec["kind"] == "adjoint":
        xs, gv, vv = w["x"], w["g"], w["v"]
        l = gv * native_rule("jvp", spec["name"], spec["argnum"], xs, vv)
        r = native_rule("vjp", spec["name"], spec["argnum"], xs, gv) * vv
        return abs(l - r) <= 1e-9 * (1 + abs(l)), f"<g,JVP v>={l}  <VJP g,v>={r}", "equal"
    nargs = rc.SPEC[spec["name"]][0]
    xs = [w["env"][v] for v in VARS[nargs]]
    got = native_rule(spec["kind"], spec["name"], spec["argnum"], xs, w["env"]["g"])
    ok = abs(got - w["expected"]) <= 1e-6 * (1 + abs(w["expected"]))
    return ok, f"{spec['kind']} rule returned {got} at {w['env']}", f"g*df/dx = {w['expected']} (mpmath, 40 digits)"
