"""C09 obligations (E2 with complex numbers as pairs of reals, DESIGN §5 C09).

For a primitive f with complex argument z = a + ib and output w = u + iv, cotangent g = p + iq and tangent t = s + ir:
    reverse mode must return   conj(J_R^T conj g) = (u_a p - v_a q) + i (v_b q - u_b p)      [real part only for a real argument]
    forward mode must return   J_R t            = (u_a s + u_b r) + i (v_a s + v_b r)
where J_R is obtained by differentiating the real and imaginary parts of the spec (the same function written over pairs with the
textbook complex definitions) with the real differentiator.  The REAL rule lambdas of the shadow-loaded modules run on Cx values
(pairs of Ex); match_complex / unbroadcast run for real.  Each obligation is a pair of real identities discharged by z3.
"""
import cmath
import random

import z3

from vlib import rulecalc as rc
from vlib import shadow
from vlib.common import seed
from vlib.rulecalc import Ex, NotScalar

from . import rules_scalar


class Cx:
    __slots__ = ["re", "im"]
    shape = ()
    ndim = 0

    def __init__(self, re, im=0):
        self.re, self.im = rc._ex(re), rc._ex(im)

    @staticmethod
    def lift(o):
        if isinstance(o, Cx):
            return o
        if isinstance(o, complex):
            return Cx(o.real, o.imag)
        return Cx(o, 0)

    def __add__(self, o): o = Cx.lift(o); return Cx(self.re + o.re, self.im + o.im)
    __radd__ = __add__
    def __sub__(self, o): o = Cx.lift(o); return Cx(self.re - o.re, self.im - o.im)
    def __rsub__(self, o): o = Cx.lift(o); return Cx(o.re - self.re, o.im - self.im)
    def __neg__(self): return Cx(-self.re, -self.im)
    def __mul__(self, o): o = Cx.lift(o); return Cx(self.re * o.re - self.im * o.im, self.re * o.im + self.im * o.re)
    __rmul__ = __mul__

    def __truediv__(self, o):
        o = Cx.lift(o)
        d = o.re * o.re + o.im * o.im
        return Cx((self.re * o.re + self.im * o.im) / d, (self.im * o.re - self.re * o.im) / d)

    def __rtruediv__(self, o): return Cx.lift(o) / self

    def __pow__(self, n):
        if isinstance(n, Ex) and n.op == "const":
            n = n.a[0]
        if isinstance(n, (int, float)) or hasattr(n, "denominator"):
            if float(n) == int(n):
                n = int(n)
                r = Cx(1, 0)
                for _ in range(abs(n)):
                    r = r * self
                return r if n >= 0 else Cx(1, 0) / r
        raise NotScalar("complex power with non-integer exponent")

    def __bool__(self):
        raise NotScalar("branch on a complex symbolic value")

    def conj(self): return Cx(self.re, -self.im)


rc.COMPLEX_LIFT[0] = Cx.lift


def is_c(x): return isinstance(x, Cx)
def _lift2(x): return x if isinstance(x, Cx) else Cx(x, 0)


def c_exp(z): z = _lift2(z); e = rc.exp(z.re); return Cx(e * rc.cos(z.im), e * rc.sin(z.im))
def c_sin(z): z = _lift2(z); return Cx(rc.sin(z.re) * rc.cosh(z.im), rc.cos(z.re) * rc.sinh(z.im))
def c_cos(z): z = _lift2(z); return Cx(rc.cos(z.re) * rc.cosh(z.im), -(rc.sin(z.re) * rc.sinh(z.im)))
def c_sinh(z): z = _lift2(z); return Cx(rc.sinh(z.re) * rc.cos(z.im), rc.cosh(z.re) * rc.sin(z.im))
def c_cosh(z): z = _lift2(z); return Cx(rc.cosh(z.re) * rc.cos(z.im), rc.sinh(z.re) * rc.sin(z.im))
def c_log(z): z = _lift2(z); return Cx(rc.log(z.re * z.re + z.im * z.im) / 2, rc.fn("atan2", z.im, z.re))
def c_abs(z): z = _lift2(z); return rc.sqrt(z.re * z.re + z.im * z.im)


def complex_anp():
    def dispatch(fr, fc):
        return lambda x, *a: (fc(x) if is_c(x) else fr(x))
    impls = dict(
        exp=dispatch(rc.exp, c_exp), sin=dispatch(rc.sin, c_sin), cos=dispatch(rc.cos, c_cos), sinh=dispatch(rc.sinh, c_sinh), cosh=dispatch(rc.cosh, c_cosh),
        log=dispatch(rc.log, c_log), abs=dispatch(rc.absf, c_abs), absolute=dispatch(rc.absf, c_abs), sqrt=dispatch(rc.sqrt, lambda z: (_ for _ in ()).throw(NotScalar("complex sqrt"))),
        conj=lambda x: x.conj() if is_c(x) else x, conjugate=lambda x: x.conj() if is_c(x) else x,
        real=lambda x: x.re if is_c(x) else x, imag=lambda x: x.im if is_c(x) else rc.const(0),
        iscomplexobj=lambda x: is_c(x) or isinstance(x, complex), ndim=lambda x: 0, shape=lambda x: (),
        sum=lambda x, axis=None, keepdims=False: x, metadata=lambda x: ((), 0, "complex128" if is_c(x) else "float64", is_c(x)),
        where=lambda c, a, b: (lambda cc: (Cx(rc.where(cc, _lift2(a).re, _lift2(b).re), rc.where(cc, _lift2(a).im, _lift2(b).im)) if (is_c(a) or is_c(b)) else rc.where(cc, a, b)))(
            (c.re * c.re + c.im * c.im != 0) if is_c(c) else c),
        zeros=lambda shape, dtype=None: rc.const(0), sign=rc.sign, floor=rc.floor, isfinite=lambda x: rc.fn("isfinite", x),
        logical_and=lambda a, b: Ex("and", rc._ex(a), rc._ex(b)),
    )
    return shadow.Namespace("anp", impls, consts=dict(pi=rc.PI))


_cache = {}


def load():
    if "rec" in _cache:
        return _cache["rec"]
    import numpy as onp
    from functools import partial
    anp = complex_anp()
    rv, rj = shadow.Recorder(), shadow.Recorder()

    class ArrayBoxStub:
        __getitem__ = shadow.Prim("ArrayBox.__getitem__")
    common = dict(onp=onp, anp=anp, ArrayBox=ArrayBoxStub, func=lambda f: f, partial=partial, SparseObject=object, VJPNode=type("VJPNode", (), {}),
                  JVPNode=type("JVPNode", (), {}), vspace=lambda x: None)
    ns_v, d1 = shadow.load("autograd/numpy/numpy_vjps.py", dict(common, defvjp=rv.defvjp, defvjp_argnum=rv.defvjp_argnum, primitive=rv.primitive, register_notrace=rv.register_notrace))
    names = ["balanced_eq", "dot_adjoint_0", "dot_adjoint_1", "match_complex", "nograd_functions", "replace_zero", "tensordot_adjoint_0", "tensordot_adjoint_1", "untake"]
    ns_j, d2 = shadow.load("autograd/numpy/numpy_jvps.py", dict(common, defjvp=rj.defjvp, defjvp_argnum=rj.defjvp_argnum, def_linear=rj.def_linear, register_notrace=rj.register_notrace,
                                                                 **{n: ns_v[n] for n in names if n in ns_v}))
    _cache["rec"] = (rv, rj, d1 + d2)
    return _cache["rec"]


# spec over pairs: name -> (nargs, f(*Cx or Ex) -> Cx or Ex, domain(list of (re, im) var pairs) -> [Ex])
def _nz(z): return [z.re * z.re + z.im * z.im != 0] if is_c(z) else [z != 0]


CSPEC = {
    "negative": (1, lambda z: -z, lambda z: []),
    "reciprocal": (1, lambda z: 1 / z, lambda z: _nz(z)),
    "square": (1, lambda z: z * z, lambda z: []),
    "exp": (1, c_exp, lambda z: []),
    "sin": (1, c_sin, lambda z: []),
    "cos": (1, c_cos, lambda z: []),
    "sinh": (1, c_sinh, lambda z: []),
    "cosh": (1, c_cosh, lambda z: []),
    "log": (1, c_log, lambda z: _nz(z)),
    "abs": (1, c_abs, lambda z: _nz(z)),
    "absolute": (1, c_abs, lambda z: _nz(z)),
    "real": (1, lambda z: _lift2(z).re, lambda z: []),
    "real_if_close": (1, lambda z: z, lambda z: []),
    "imag": (1, lambda z: _lift2(z).im, lambda z: []),
    "conj": (1, lambda z: z.conj() if is_c(z) else z, lambda z: []),
    "conjugate": (1, lambda z: z.conj() if is_c(z) else z, lambda z: []),
    "angle": (1, lambda z: rc.fn("atan2", _lift2(z).im, _lift2(z).re), lambda z: _nz(z)),
    "add": (2, lambda x, y: _lift2(x) + _lift2(y), lambda x, y: []),
    "subtract": (2, lambda x, y: _lift2(x) - _lift2(y), lambda x, y: []),
    "multiply": (2, lambda x, y: _lift2(x) * _lift2(y), lambda x, y: []),
    "divide": (2, lambda x, y: _lift2(x) / _lift2(y), lambda x, y: _nz(y)),
    "true_divide": (2, lambda x, y: _lift2(x) / _lift2(y), lambda x, y: _nz(y)),
}
REAL_ARG_OK = {"real", "imag", "conj", "conjugate", "angle", "real_if_close", "abs", "absolute"}  # real argument variants worth checking too


def _args(nargs, kinds):
    out = []
    for i, k in enumerate(kinds):
        n = "xyz"[i]
        out.append(Cx(rc.var(n + "r"), rc.var(n + "i")) if k == "C" else rc.var(n + "r"))
    return out


def expected(spec_val, arg, g, kind):
    """(re, im) of conj(J_R^T conj g) (vjp) / J_R t (jvp) for argument `arg` (Cx or Ex)."""
    w = _lift2(spec_val)
    out_c = is_c(spec_val)
    p, q = (g.re, g.im) if is_c(g) else (g, rc.const(0))
    a = arg.re.a[0] if is_c(arg) else arg.a[0]
    u_a, v_a = rc.D(w.re, a), rc.D(w.im, a)
    if kind == "vjp":
        re = u_a * p - v_a * q
        if is_c(arg):
            b = arg.im.a[0]
            u_b, v_b = rc.D(w.re, b), rc.D(w.im, b)
            return re, v_b * q - u_b * p
        return re, None
    s, r = (g.re, g.im) if is_c(g) else (g, rc.const(0))
    if is_c(arg):
        b = arg.im.a[0]
        u_b, v_b = rc.D(w.re, b), rc.D(w.im, b)
    else:
        u_b = v_b = rc.const(0)
        r = rc.const(0)
    return u_a * s + u_b * r, (v_a * s + v_b * r) if out_c else None


def native(kind, name, a, xs, g):
    import autograd.numpy as anp
    from autograd.core import primitive_jvps, primitive_vjps
    f = getattr(anp, name)
    ans = f(*xs)
    if kind == "vjp":
        return complex(primitive_vjps[f]((a,), ans, tuple(xs), {})(g)[0])
    return complex(primitive_jvps[f]((a,), [g], ans, tuple(xs), {}))


def numeric_expected(kind, name, a, xs, g):
    """J_R by central differences on NumPy itself (replay oracle)."""
    import numpy as onp
    f = getattr(onp, name)
    h = 1e-6

    def F(z):
        args = list(xs)
        args[a] = z
        return complex(f(*args))
    x0 = xs[a]
    da = (F(x0 + h) - F(x0 - h)) / (2 * h)
    u_a, v_a = da.real, da.imag
    if isinstance(x0, complex):
        db = (F(x0 + 1j * h) - F(x0 - 1j * h)) / (2 * h)
        u_b, v_b = db.real, db.imag
    else:
        u_b = v_b = 0.0
    g = complex(g)
    if kind == "vjp":
        re, im = u_a * g.real - v_a * g.imag, v_b * g.imag - u_b * g.real
        return complex(re, im if isinstance(x0, complex) else 0.0)
    return complex(u_a * g.real + u_b * g.imag, v_a * g.real + v_b * g.imag)


def witness(kind, name, a, kinds, out_is_c):
    rng = random.Random(seed() + 3)
    for _ in range(60):
        xs = [complex(rng.uniform(0.3, 2), rng.uniform(-2, 2)) if k == "C" else rng.uniform(0.3, 2) for k in kinds]
        gc = (kind == "vjp" and out_is_c) or (kind == "jvp" and kinds[a] == "C")
        g = complex(rng.uniform(-2, 2), rng.uniform(-2, 2)) if gc else rng.uniform(-2, 2)
        try:
            got = native(kind, name, a, xs, g)
            exp = numeric_expected(kind, name, a, xs, g)
        except Exception:
            continue
        if abs(got - exp) > 1e-4 * (1 + abs(exp)):
            return dict(x=[str(v) for v in xs], g=str(g), got=str(got), expected=str(exp))
    return None


def run(rep, tier, kinds_run=("vjp", "jvp")):
    rv, rj, dropped = load()
    rep.assume("complex numbers as pairs of reals; complex exp/sin/cos/sinh/cosh/log/abs by their textbook definitions (principal branch of log = atan2)",
               "documented convention: vjp(g) = conj(J_R^T conj g), jvp(t) = J_R t")
    for name in sorted(CSPEC):
        nargs, f, dom = CSPEC[name]
        mixes = [("C",)] + ([("R",)] if name in REAL_ARG_OK else []) if nargs == 1 else [("C", "C"), ("R", "C"), ("C", "R")]
        for kinds in mixes:
            args = _args(nargs, kinds)
            spec_val = f(*args)
            out_c = is_c(spec_val)
            domain = dom(*args)
            for a in range(nargs):
                for kind in kinds_run:
                    rec = rv if kind == "vjp" else rj
                    gc = (kind == "vjp" and out_c) or (kind == "jvp" and kinds[a] == "C")
                    g = Cx(rc.var("gr"), rc.var("gi")) if gc else rc.var("gr")
                    oname = f"complex:{kind}:{name}:{''.join(kinds)}:arg{a}"
                    try:
                        if kind == "vjp":
                            mk = rec.vjps.get((name, a))
                            if mk is None:
                                continue
                            r = mk(spec_val, *args)(g)
                        else:
                            rule = "same" if name in rec.linear else rec.jvps.get((name, a), "absent")
                            if rule == "absent":
                                continue
                            if rule is None:
                                r = rc.const(0)
                            elif isinstance(rule, str):
                                r = f(*[g if i == a else v for i, v in enumerate(args)])
                            else:
                                r = rule(g, spec_val, *args)
                        err = None
                    except (NotScalar, shadow.NotModelled, TypeError, AttributeError, ValueError, ZeroDivisionError) as e:
                        r, err = None, e
                    ere, eim = expected(spec_val, args[a], g, kind)
                    parts = [("re", (_lift2(r).re if r is not None else None), ere)]
                    if eim is not None:
                        parts.append(("im", (_lift2(r).im if r is not None else None), eim))
                    elif r is not None and is_c(r):
                        parts.append(("im", r.im, rc.const(0)))  # a real argument / real output must get a real result
                    failed = None
                    for pn, got, exp in parts:
                        if err is not None:
                            verdict, m, backend, secs = "unknown", None, "-", 0.0
                        else:
                            verdict, m, backend, secs, _ = rc.identity_obligation(got, exp, domain)
                        rep.obligation(f"{oname}:{pn}", verdict == "proved", backend, secs, "E2",
                                       sample=(f"{got!r} == {exp!r}"[:500] if len(rep.samples) < 5 else None))
                        if verdict != "proved":
                            failed = failed or (pn, m, err)
                    if failed:
                        w = witness(kind, name, a, kinds, out_c)
                        spec_r = dict(module="contracts.rules_complex", kind=kind, name=name, argnum=a, kinds="".join(kinds), witness=w)
                        if w:
                            rep.violation(f"E2c:{kind}:{name}", f"{''.join(kinds)}:arg{a}", f"real {kind} rule of {name} ({''.join(kinds)}) wrt arg {a} at x={w['x']}, g={w['g']} returned {w['got']}; "
                                          f"convention requires {w['expected']}", replay=spec_r, witness=True, solver_output=str(failed[1])[:300])
                        else:
                            rep.violation(f"E2c:{kind}:{name}", f"{''.join(kinds)}:arg{a}", f"obligation {oname}:{failed[0]} not discharged ({failed[2] or 'solver'})", replay=spec_r, witness=False,
                                          solver_output=str(failed[1])[:300])
    # canary: a VJP of conj without the conjugation must be refuted
    z, g = Cx(rc.var("xr"), rc.var("xi")), Cx(rc.var("gr"), rc.var("gi"))
    ere, eim = expected(z.conj(), z, g, "vjp")
    v, *_ = rc.identity_obligation(g.im, eim, [])
    rep.canary("E2c:canary-conj-rule-without-conjugation", v == "refuted")


def replay(spec):
    w = spec.get("witness")
    if not w:
        return False, "no concrete input found; obligation undischarged on this tree", "convention identity"
    xs = [complex(v) if "j" in v else float(v) for v in w["x"]]
    g = complex(w["g"]) if "j" in w["g"] else float(w["g"])
    got = native(spec["kind"], spec["name"], spec["argnum"], xs, g)
    exp = numeric_expected(spec["kind"], spec["name"], spec["argnum"], xs, g)
    return abs(got - exp) <= 1e-4 * (1 + abs(exp)), f"rule returned {got}", f"convention (central differences on NumPy): {exp}"
