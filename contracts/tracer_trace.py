"""Contracts of autograd.tracer.trace / TraceStack.new_trace / new_box (DESIGN §4), discharged by E1b.

The real `trace` runs on the real `trace_stack` object whose state is made symbolic:
  * an int attribute (e.g. `top`) gets a symbolic value >= the value a fresh TraceStack() has,
  * an itertools.count attribute is replaced by a counter stub with a symbolic next value >= a fresh one's.
Any other kind of state is outside the abstraction -> failed obligation `state-abstraction`.

The user callback is a havoc stub constrained only by the rely: it may run any number of nested traces (completed,
failed, caught or not), i.e. move the state anywhere *upwards* (justified by TS-monotone, which is proved for every
outcome), then return a box of this trace / a box with another id / a plain value, or raise.

ensures  TR-id-nonneg           the id of the new trace is >= 0
         TR-fresh-above-enclosing  in any nesting (with arbitrary havoc in between, incl. failed inner traces caught by
                                the enclosing level) an inner trace's id is > the enclosing trace's id
         TS-monotone            on normal AND exceptional exit no int attribute is below its entry value; a counter is
                                never rewound  (=> the reachable-state abstraction is inductive; C19: a fault at any
                                point leaves a state from which TR-fresh-above-enclosing still holds)
         TR-start-box           fun receives a box with _value is x, _node is start_node, _trace = the new id
         TR-result              returns (end_box._value, end_box._node) iff isbox(end_box) and end_box._trace == id,
                                else (end_box, None) after the 'independent' warning (which may be promoted to an error)
         TR-exception           an exception of fun / of the promoted warning propagates unchanged
         NB-typeerror           new_box raises TypeError iff type(x) has no registered box type
Interference mode (C20): every READ of an int attribute returns a fresh arbitrary value (another thread may have written
between any two of my accesses); the counter stub hands out strictly increasing values with arbitrary gaps (atomic next()).
"""
import itertools
import warnings

import z3

from vlib import concolic as cx
from vlib.common import CheckerError

from .tracer_primitive import Opaque, obox

FN = "autograd.tracer.trace"
_count_type = type(itertools.count())


class Boom(Exception):
    pass


class Unregistered:
    pass


class CounterStub:
    """Contract of itertools.count under the GIL: next() is atomic, values strictly increase."""

    def __init__(self, L, start, interfere, tag):
        self.L, self.cur, self.interfere, self.tag, self.n = L, start, interfere, tag, 0
        self.handed = []

    def __iter__(self):
        return self

    def __next__(self):
        v = self.cur
        if self.interfere:  # other threads may have drawn values in between
            self.n += 1
            f = self.L.int(f"{self.tag}_gap{self.n}")
            if self.L.model is None:
                cx.assume(f >= v)
            v = f
        self.cur = v + 1
        self.handed.append(v)
        return v

    def advance(self, name):
        f = self.L.int(name)
        if self.L.model is None:
            cx.assume(f >= self.cur)
        self.cur = f


class StateModel:
    """Symbolic over-approximation of the reachable states of the real trace_stack object."""

    def __init__(self, T, L, interfere=False):
        self.T, self.L, self.interfere = T, L, interfere
        ts = T.trace_stack
        self.ts = ts
        self.saved = dict(vars(ts))
        self.saved_cls = ts.__class__
        fresh = type(ts)()
        self.ints, self.counters = {}, {}
        self.kind_error = None
        self.reads = 0
        for name, v in vars(fresh).items():
            if isinstance(v, bool):
                self.kind_error = f"bool attribute {name}"
            elif isinstance(v, int):
                s = L.int(f"s_{name}")
                if L.model is None:
                    cx.assume(s >= v)
                self.ints[name] = v
                object.__setattr__(ts, name, s)
            elif isinstance(v, _count_type):
                v0 = next(v)
                c = L.int(f"c_{name}")
                if L.model is None:
                    cx.assume(c >= v0)
                self.counters[name] = CounterStub(L, c, interfere, name)
                object.__setattr__(ts, name, self.counters[name])
            else:
                self.kind_error = f"attribute {name} of type {type(v).__name__}"
        if not self.ints and not self.counters:
            self.kind_error = "trace_stack has no int/counter state"
        if interfere and self.ints:
            sm = self

            class Havoc(type(ts)):
                def __getattribute__(s, name):
                    if name in sm.ints:
                        sm.reads += 1
                        f = sm.L.int(f"rd_{name}_{sm.reads}")
                        if sm.L.model is None:
                            cx.assume(f >= sm.ints[name])
                        return f
                    return object.__getattribute__(s, name)

            ts.__class__ = Havoc

    def snapshot(self):
        d = {n: vars(self.ts)[n] for n in self.ints}
        d.update({n: c.cur for n, c in self.counters.items()})
        return d

    def havoc(self, tag):
        """Arbitrary nested traces of this thread (completed or failed) may have happened: state moves upwards."""
        for n in self.ints:
            f = self.L.int(f"h_{tag}_{n}")
            if self.L.model is None:
                cx.assume(f >= vars(self.ts)[n])
            object.__setattr__(self.ts, n, f)
        for n, c in self.counters.items():
            c.advance(f"h_{tag}_{n}")

    def restore(self):
        self.ts.__class__ = self.saved_cls
        for n in list(vars(self.ts)):
            if n not in self.saved:
                object.__delattr__(self.ts, n)
        for n, v in self.saved.items():
            object.__setattr__(self.ts, n, v)


def _callback(sm, outcome, L, tag, seen, nested=None):
    OBox = obox()

    def fun(start_box):
        seen.append(start_box)
        if nested is not None:
            nested(start_box)
        sm.havoc(tag)
        if outcome == "box_this":
            return OBox(Opaque(("end", tag)), start_box._trace, ("endnode", tag))
        if outcome == "box_other":
            e = L.int(f"e_{tag}")
            return OBox(Opaque(("end", tag)), e, ("endnode", tag))
        if outcome == "plain":
            return Opaque(("plainend", tag))
        if outcome == "raise":
            raise Boom(tag)
        raise CheckerError(outcome)

    return fun


def one_trace(T, sm, L, tag, outcome, warnmode, xkind, nested=None):
    """Runs the real trace once; returns observation dict."""
    x = Opaque(("x", tag)) if xkind == "reg" else Unregistered()
    start_node = ("startnode", tag)
    seen = []
    fun = _callback(sm, outcome, L, tag, seen, nested)
    pre = sm.snapshot()
    res, exc = None, None
    with warnings.catch_warnings(record=(warnmode == "silent")) as w:
        if warnmode == "error":
            warnings.simplefilter("error")
        else:
            warnings.simplefilter("always")
        try:
            res = T.trace(start_node, fun, x)
        except (Boom, TypeError, UserWarning) as e:
            exc = e
        nwarn = len(w) if w is not None else None
    post = sm.snapshot()
    return dict(tag=tag, x=x, start_node=start_node, seen=seen, res=res, exc=exc, pre=pre, post=post, nwarn=nwarn,
                outcome=outcome, warnmode=warnmode, xkind=xkind)


def trace_clauses(T, o, L):
    B = z3.BoolVal
    out = []
    tag = o["tag"]
    # TS-monotone on every outcome
    out.append(("TS-monotone", z3.And([cx.term(o["post"][n]) >= cx.term(o["pre"][n]) for n in o["pre"]] + [B(True)])))
    if o["xkind"] == "unreg":
        out.append(("NB-typeerror", B(isinstance(o["exc"], TypeError) and not o["seen"])))
        return out
    if len(o["seen"]) != 1:
        out.append(("TR-start-box", B(False)))
        return out
    sb = o["seen"][0]
    okb = T.isbox(sb) and sb._value is o["x"] and sb._node is o["start_node"]
    out.append(("TR-start-box", B(bool(okb))))
    if not okb:
        return out
    t = cx.term(sb._trace)
    out.append(("TR-id-nonneg", t >= 0))
    oc = o["outcome"]
    if oc == "raise":
        out.append(("TR-exception", B(isinstance(o["exc"], Boom) and o["exc"].args == (tag,) and o["res"] is None)))
        return out
    is_this = B(True) if oc == "box_this" else (cx.term(L.int(f"e_{tag}")) == t if oc == "box_other" else B(False))
    if o["exc"] is not None:
        # only legal source: the promoted 'independent' warning, i.e. not a box of this trace
        out.append(("TR-exception", z3.And(B(isinstance(o["exc"], UserWarning) and o["warnmode"] == "error"), z3.Not(is_this))))
        return out
    res = o["res"]
    if not (isinstance(res, tuple) and len(res) == 2):
        out.append(("TR-result", B(False)))
        return out
    if res[1] is None:
        good = isinstance(res[0], Opaque) and res[0].term == ("plainend", tag) if oc == "plain" else (
            T.isbox(res[0]) and res[0]._value.term == ("end", tag))
        warned = o["nwarn"] == 1 if o["warnmode"] == "silent" else False
        out.append(("TR-result", z3.And(B(bool(good) and warned), z3.Not(is_this))))
    else:
        good = oc != "plain" and isinstance(res[0], Opaque) and res[0].term == ("end", tag) and res[1] == ("endnode", tag) and o["nwarn"] in (0, None)
        out.append(("TR-result", z3.And(B(bool(good)), is_this)))
    return out


OUTCOMES = ("box_this", "box_other", "plain", "raise")


def programs(tier):
    # P1: one trace
    for oc in OUTCOMES:
        for wm in ("silent", "error"):
            if wm == "error" and oc in ("box_this", "raise"):
                continue
            yield ("P1", oc, wm, "reg")
    yield ("P1", "plain", "silent", "unreg")
    # P2: outer trace whose callback runs an inner trace (any outcome, exception caught by the outer callback or not),
    #     then a sibling inner trace
    for oc_in in OUTCOMES:
        for wm in ("silent", "error"):
            if wm == "error" and oc_in in ("box_this", "raise"):
                continue
            for caught in (True, False):
                yield ("P2", oc_in, wm, caught)


def run_program(T, L, prog, interfere):
    sm = StateModel(T, L, interfere)
    try:
        if sm.kind_error:
            return dict(kind_error=sm.kind_error)
        obs = []
        if prog[0] == "P1":
            _, oc, wm, xk = prog
            sm.havoc("pre")
            obs.append(one_trace(T, sm, L, "a", oc, wm, xk))
            return dict(obs=obs, nest=[])
        _, oc_in, wm, caught = prog
        nest = []

        def nested(outer_box):
            sm.havoc("n0")
            o1 = one_trace(T, sm, L, "b", oc_in, wm, "reg")
            obs.append(o1)
            nest.append((outer_box, o1))
            if o1["exc"] is not None and not caught:
                raise o1["exc"]
            sm.havoc("n1")
            o2 = one_trace(T, sm, L, "c", "box_this", "silent", "reg")
            obs.append(o2)
            nest.append((outer_box, o2))

        o0 = one_trace(T, sm, L, "a", "box_this", "silent", "reg", nested=nested)
        # when the inner exception is not caught it reaches the outer trace as fun's exception
        if o0["exc"] is not None and not (isinstance(o0["exc"], Boom) and o0["exc"].args == ("a",)):
            o0 = dict(o0, outcome="raise_foreign")
        obs.append(o0)
        return dict(obs=obs, nest=nest)
    finally:
        sm.restore()


def run(rep, tier, interfere=False, only=None, label=None):
    import autograd.tracer as T

    fn = f"{FN}[interference]" if interfere else FN
    rep.function(FN, T.trace)
    rep.function("autograd.tracer.TraceStack.new_trace", T.TraceStack)
    rep.function("autograd.tracer.new_box", T.new_box)
    rep.bound(f"{fn}: programs P1 (one trace) and P2 (outer trace, havoc, inner trace, havoc, sibling inner trace) x callback outcome "
              "{box of this trace, box with any other id, plain value, raises} x warning {silent, promoted to error} x inner exception "
              "{caught by the enclosing level, not caught} enumerated; the state of trace_stack, all havoc steps and ids symbolic")
    kinds = set()
    n = 0
    for prog in programs(tier):
        case = ".".join(str(p) for p in prog)

        def harness(L):
            return run_program(T, L, prog, interfere)

        results, _ = cx.explore(harness)
        for r in results:
            n += 1
            if r.exc is not None:
                rep.obligation(f"{fn}:{case}:no-unexpected-exception", False, "z3", 0, "E1b")
                rep.violation(f"{fn}:no-unexpected-exception", case, f"{type(r.exc).__name__}: {r.exc}",
                              replay=dict(module="contracts.tracer_trace", prog=list(prog), interfere=interfere, model={}))
                continue
            v = r.value
            if "kind_error" in v:
                rep.obligation(f"{fn}:state-abstraction", False, "-", 0, "E1b")
                rep.violation(f"{fn}:state-abstraction", "trace_stack", f"state of trace_stack is outside the abstraction: {v['kind_error']}",
                              witness=False, solver_output=v["kind_error"])
                return
            goals = []
            LL = cx.Leaf()
            for o in v["obs"]:
                if o["outcome"] == "raise_foreign":
                    goals.append((f"{o['tag']}:TS-monotone", z3.And([cx.term(o["post"][k]) >= cx.term(o["pre"][k]) for k in o["pre"]] + [z3.BoolVal(True)])))
                    goals.append((f"{o['tag']}:TR-exception", z3.BoolVal(o["res"] is None and o["exc"] is not None)))
                    continue
                for cl, g in trace_clauses(T, o, LL):
                    goals.append((f"{o['tag']}:{cl}", g))
            for outer_box, oi in v["nest"]:
                if oi["seen"]:
                    goals.append((f"{oi['tag']}:TR-fresh-above-enclosing", cx.term(oi["seen"][0]._trace) > cx.term(outer_box._trace)))
            for cl, g in goals:
                if only and not any(cl.split(":")[1].startswith(p) for p in only):
                    continue
                verdict, m = cx.check_clause(rep, f"{fn}:{case}:{cl}", r.pc, g, tier,
                                             sample=(f"pc={r.pc} |- {z3.simplify(g)}" if n % 9 == 1 and "fresh" in cl else None))
                if verdict != "proved":
                    m = m or cx.path_model(r.pc)
                    mv = {str(d): str(m[d]) for d in m.decls()} if m is not None else {}
                    spec = dict(module="contracts.tracer_trace", prog=list(prog), interfere=interfere, model=mv, clause=cl)
                    ok, obs, exp = replay(spec)
                    rep.violation(f"{fn}:{cl.split(':')[1]}", case, f"{obs}", replay=spec, witness=not ok, solver_output=str(m))
    rep.extra[f"trace_paths{'_interference' if interfere else ''}"] = n


class _DictLeaf:
    def __init__(self, d):
        self.d, self.model = d, True

    def int(self, name):
        return int(self.d.get(name, 0))


def replay(spec):
    """Native replay.  Without interference: the same program with the model's concrete state/havoc values on the real
    code.  With interference: the deterministic two-thread schedule of DESIGN §5 C20 on the real code."""
    import autograd.tracer as T

    if spec.get("interfere"):
        return replay_threads()
    L = _DictLeaf(spec.get("model", {}))
    try:
        v = run_program(T, L, tuple(spec["prog"]), False)
    except Exception as e:
        return False, f"raised {type(e).__name__}: {e}", "no unexpected exception"
    bad = []
    for o in v.get("obs", []):
        if o["outcome"] == "raise_foreign":
            continue
        for cl, g in trace_clauses(T, o, L):
            if not z3.is_true(z3.simplify(g)):
                bad.append(f"{o['tag']}:{cl}")
    for outer_box, oi in v.get("nest", []):
        if oi["seen"] and not (oi["seen"][0]._trace > outer_box._trace):
            bad.append(f"{oi['tag']}:TR-fresh-above-enclosing (inner id {oi['seen'][0]._trace} <= outer id {outer_box._trace})")
    return (not bad), (f"clauses violated natively: {bad}" if bad else "all clauses hold natively"), "contracts/tracer_trace.py"


def replay_threads():
    """T2 enters a trace; T1 enters its outer trace; T2 exits; T1 runs the inner derivative.  Expected 24.0."""
    import threading

    from autograd import grad

    e_t2_in, e_t1_outer, e_t2_out = threading.Event(), threading.Event(), threading.Event()
    out = {}

    def t2():
        def f(y):
            e_t2_in.set()
            e_t1_outer.wait(5)
            return y * y

        out["t2"] = grad(f)(1.0)
        e_t2_out.set()

    def t1():
        e_t2_in.wait(5)

        def outer(x):
            e_t1_outer.set()
            e_t2_out.wait(5)
            return x * grad(lambda y: x * y * y)(2.0)

        out["t1"] = grad(outer)(3.0)

    a, b = threading.Thread(target=t2), threading.Thread(target=t1)
    a.start(); b.start(); a.join(10); b.join(10)
    ok = out.get("t1") == 24.0 and out.get("t2") == 2.0
    return ok, f"thread results under the schedule: {out}", "{'t1': 24.0, 't2': 2.0} (what each thread computes alone)"
