"""Unbounded-length obligations for the offset arithmetic of autograd.builtins (DESIGN §5 C12, E1a on one-line expressions).

The expression returned by grad_sequence_extend_right / grad_sequence_extend_left (`lambda g: <expr>`) is taken from the CURRENT AST and
translated to arrays-with-length over symbolic lengths n = len(seq) >= 0, m = len(elts) >= 0 and a symbolic argnum:
     g[:e]  g[e:]  g[e]  len(x)  +  -  int literals  `a if argnum == 0 else b`
Python index semantics are made explicit: an index expression must be proved to lie in [0, len(g)) (a negative value would silently wrap
around), a slice bound in [0, len(g)].  Spec (adjoint of the concatenation the primal performs):
     right:  ans = seq ++ elts,  g = gs ++ ge   =>  argnum 0 gets gs (all of it, nothing more), argnum k in 1..m gets ge[k-1]
     left :  ans = elts ++ seq,  g = ge ++ gs   =>  same
for ALL n, m and k.  The first statement must be the unpacking `<a>, <b> = args[0], args[1:]` (roles seq/elts by position); after it any nest of `if` statements
over argnum/lengths with `return lambda g: <expr>` leaves is accepted (an if-statement around the lambda and a conditional expression inside it are the same).
"""
import ast
import inspect
import textwrap

import z3

from vlib.smt import check_sat

V = z3.DeclareSort("Leaf")
I = z3.IntSort()
FN = "autograd.builtins"


class Unsupported(Exception):
    pass


def extract(fn):
    tree = ast.parse(textwrap.dedent(inspect.getsource(fn))).body[0]
    params = [a.arg for a in tree.args.args]
    if len(params) != 4:
        raise Unsupported(f"signature {params}")
    body = [s for s in tree.body if not (isinstance(s, ast.Expr) and isinstance(s.value, ast.Constant))]
    if len(body) < 2 or not isinstance(body[0], ast.Assign):
        raise Unsupported("body does not start with `<seq>, <elts> = args[0], args[1:]`")
    tgt, val = body[0].targets[0], body[0].value
    ok = (isinstance(tgt, ast.Tuple) and len(tgt.elts) == 2 and isinstance(val, ast.Tuple) and len(val.elts) == 2
          and ast.unparse(val.elts[0]) == f"{params[2]}[0]" and ast.unparse(val.elts[1]) == f"{params[2]}[1:]")
    if not ok:
        raise Unsupported("first statement is not the unpacking of args[0], args[1:]")
    # the rest: any nest of `if <condition on argnum/lengths>:` ... whose leaves are `return lambda g: <expr>` (conditional expressions inside the
    # lambda and if-statements around it are the same thing for the contract)
    lams = [n for st in body[1:] for n in ast.walk(st) if isinstance(n, ast.Lambda)]
    if not lams:
        raise Unsupported("no `return lambda g: <expr>`")
    gname = lams[0].args.args[0].arg
    if any(len(l.args.args) != 1 for l in lams):
        raise Unsupported("the returned function does not take exactly the cotangent")
    return dict(argnum=params[0], seq=tgt.elts[0].id, elts=tgt.elts[1].id, g=gname, gnames={l.args.args[0].arg for l in lams}, stmts=body[1:])


class Tr:
    """translation of the expression; collects index-safety obligations"""

    def __init__(self, names, n, m, k, G, glen):
        self.names, self.n, self.m, self.k, self.G, self.glen = names, n, m, k, G, glen
        self.safety = []

    def int_(self, e):
        if isinstance(e, ast.Constant) and isinstance(e.value, int):
            return z3.IntVal(e.value)
        if isinstance(e, ast.Name) and e.id == self.names["argnum"]:
            return self.k
        if isinstance(e, ast.Call) and isinstance(e.func, ast.Name) and e.func.id == "len" and len(e.args) == 1 and isinstance(e.args[0], ast.Name):
            a = e.args[0].id
            if a == self.names["seq"]:
                return self.n
            if a == self.names["elts"]:
                return self.m
            if a in self.names["gnames"]:
                return self.glen
        if isinstance(e, ast.BinOp) and isinstance(e.op, (ast.Add, ast.Sub)):
            l, r = self.int_(e.left), self.int_(e.right)
            return l + r if isinstance(e.op, ast.Add) else l - r
        if isinstance(e, ast.UnaryOp) and isinstance(e.op, ast.USub):
            return -self.int_(e.operand)
        raise Unsupported(f"integer expression {ast.unparse(e)}")

    def test(self, t):
        if isinstance(t, ast.UnaryOp) and isinstance(t.op, ast.Not):
            return z3.Not(self.test(t.operand))
        if isinstance(t, ast.BoolOp):
            vs = [self.test(v) for v in t.values]
            return z3.And(*vs) if isinstance(t.op, ast.And) else z3.Or(*vs)
        if not (isinstance(t, ast.Compare) and len(t.ops) == 1 and isinstance(t.ops[0], (ast.Eq, ast.NotEq, ast.Lt, ast.Gt, ast.LtE, ast.GtE))):
            raise Unsupported("condition")
        l, r = self.int_(t.left), self.int_(t.comparators[0])
        return {ast.Eq: l == r, ast.NotEq: l != r, ast.Lt: l < r, ast.Gt: l > r, ast.LtE: l <= r, ast.GtE: l >= r}[type(t.ops[0])]

    def stmts(self, body, pc):
        """-> (leaves, fallthrough path conditions).  Leaves as in val()."""
        leaves, live = [], [list(pc)]
        for st in body:
            nxt = []
            for cur in live:
                if isinstance(st, ast.Return) and isinstance(st.value, ast.Lambda):
                    leaves += self.val(st.value.body, cur)
                elif isinstance(st, ast.If):
                    c = self.test(st.test)
                    l1, f1 = self.stmts(st.body, cur + [c])
                    l2, f2 = self.stmts(st.orelse, cur + [z3.Not(c)])
                    leaves += l1 + l2
                    nxt += f1 + f2
                elif isinstance(st, ast.Pass):
                    nxt.append(cur)
                else:
                    raise Unsupported(f"statement {ast.unparse(st)[:50]}")
            live = nxt
        return leaves, live

    def val(self, e, pc):
        """returns list of (path condition, kind, payload): kind 'elem' -> z3 Leaf term; 'slice' -> (offset, length)"""
        if isinstance(e, ast.IfExp):
            c = self.test(e.test)
            return self.val(e.body, pc + [c]) + self.val(e.orelse, pc + [z3.Not(c)])
        if isinstance(e, ast.Subscript) and isinstance(e.value, ast.Name) and e.value.id in self.names["gnames"]:
            sl = e.slice
            if isinstance(sl, ast.Slice):
                if sl.step is not None:
                    raise Unsupported("stepped slice")
                lo = self.int_(sl.lower) if sl.lower is not None else z3.IntVal(0)
                hi = self.int_(sl.upper) if sl.upper is not None else self.glen
                self.safety.append((list(pc), z3.And(0 <= lo, lo <= self.glen, 0 <= hi, hi <= self.glen), f"slice bounds of {ast.unparse(e)} are non-negative and within len(g) (no wrap-around / clipping)"))
                return [(pc, "slice", (lo, z3.If(hi >= lo, hi - lo, 0)))]
            idx = self.int_(sl)
            self.safety.append((list(pc), z3.And(0 <= idx, idx < self.glen), f"index of {ast.unparse(e)} lies in [0, len(g)) (a negative index would wrap around)"))
            return [(pc, "elem", z3.Select(self.G, idx))]
        raise Unsupported(f"expression {ast.unparse(e)}")


def run(rep, tier):
    import autograd.builtins as B

    rep.assume("Python sequence semantics for g[a:b], g[i], len() on tuples/lists as encoded in contracts/containers_unbounded.py (arrays with length; index/slice bounds made explicit)")
    n, m, k = z3.Ints("n m k")
    i = z3.Int("i")
    gs, ge = z3.Array("gs", I, V), z3.Array("ge", I, V)
    for side, fn in (("right", B.grad_sequence_extend_right), ("left", B.grad_sequence_extend_left)):
        name = f"{FN}.grad_sequence_extend_{side}"
        rep.function(name, fn)
        try:
            ex = extract(fn)
            G = z3.Array(f"g_{side}", I, V)
            glen = n + m
            # the cotangent of ans: right: gs ++ ge ; left: ge ++ gs
            if side == "right":
                gdef = z3.ForAll([i], z3.Select(G, i) == z3.If(i < n, z3.Select(gs, i), z3.Select(ge, i - n)))
                seq_off = z3.IntVal(0)
                elt_at = lambda j: z3.Select(ge, j)
            else:
                gdef = z3.ForAll([i], z3.Select(G, i) == z3.If(i < m, z3.Select(ge, i), z3.Select(gs, i - m)))
                seq_off = m
                elt_at = lambda j: z3.Select(ge, j)
            base = [n >= 0, m >= 0, k >= 0, k <= m, gdef]
            tr = Tr(ex, n, m, k, G, glen)
            leaves, fall = tr.stmts(ex["stmts"], [])
            if fall:   # a path that returns no function at all (falls off the end): must be infeasible for 0 <= argnum <= m
                for fpc in fall:
                    st_, _, _, _ = check_sat(base + fpc, 10000)
                    if st_ != "unsat":
                        raise Unsupported("some argnum reaches the end of the rule without a returned function")
        except Unsupported as e:
            rep.obligation(f"{name}:extract", False, "-", 0, "E1a")
            rep.violation(f"{name}:extract", "extract", f"the rule no longer has the shape the unbounded contract is stated for ({e}); the enumerated contract SE-{side} (lengths 0..4) still decides it",
                          witness=False, solver_output=str(e))
            continue
        obl = []
        for pc, why, goal in [(p, w, g_) for p, g_, w in tr.safety]:
            obl.append((f"index-safety:{why[:60]}", base + pc, goal))
        for pc, kind, payload in leaves:
            # which argnum class does this branch serve?  decide by validity under its path condition
            if kind == "slice":
                off, ln = payload
                obl.append((f"argnum0-gets-exactly-the-seq-part:length", base + pc + [k == 0], ln == n))
                obl.append((f"argnum0-gets-exactly-the-seq-part:entries", base + pc + [k == 0, 0 <= i, i < n], z3.Select(G, off + i) == z3.Select(gs, i)))
                obl.append((f"slice-branch-serves-only-argnum0", base + pc, k == 0))
            else:
                obl.append((f"argnum-k-gets-the-entry-where-elt-k-landed", base + pc + [k >= 1], payload == elt_at(k - 1)))
                obl.append((f"element-branch-serves-only-argnum>=1", base + pc, k >= 1))
        if not obl:
            rep.error(f"{name}: no obligation generated")
        for oname, hyps, goal in obl:
            st, mdl, backend, secs = check_sat(hyps + [z3.Not(goal)], 10000, both=(tier == "thorough"))
            ok = st == "unsat"
            rep.obligation(f"{name}:{oname}", ok, backend, secs, "E1a", sample=(f"forall n,m>=0, 0<=k<=m: {oname}" if len(rep.samples) < 3 else None))
            if not ok:
                vals = {}
                if mdl is not None:
                    for v_ in (n, m, k):
                        try:
                            vals[str(v_)] = mdl.eval(v_, model_completion=True).as_long()
                        except Exception:
                            pass
                w = _replay_native(side, vals)
                rep.violation(f"{name}:{oname.split(':')[0]}", oname, f"{oname} fails for len(seq)={vals.get('n')}, len(elts)={vals.get('m')}, argnum={vals.get('k')}: {w[1]}",
                              replay=dict(module="contracts.containers_unbounded", side=side, vals=vals), witness=not w[0], solver_output=str(mdl)[:200])


def _replay_native(side, vals):
    import autograd.builtins as B
    nn, mm, kk = int(vals.get("n", 0)), int(vals.get("m", 0)), int(vals.get("k", 0))
    seq = tuple(("s", j) for j in range(nn))
    elts = tuple(("e", j) for j in range(mm))
    ans = seq + elts if side == "right" else elts + seq
    g = tuple(("g",) + t for t in ans)
    fn = B.grad_sequence_extend_right if side == "right" else B.grad_sequence_extend_left
    try:
        r = fn(kk, ans, (seq,) + elts, {})(g)
    except Exception as e:
        return False, f"raised {type(e).__name__}: {e}"
    exp = tuple(("g", "s", j) for j in range(nn)) if kk == 0 else ("g", "e", kk - 1)
    return r == exp, f"rule returned {r}, adjoint of the concatenation is {exp}"


def replay(spec):
    ok, d = _replay_native(spec["side"], spec.get("vals", {}))
    return ok, d, "projection adjoint to the concatenation"
