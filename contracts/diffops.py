"""Contracts of autograd.wrap_util.unary_to_nary and of the operators of autograd.differential_operators (DESIGN §4, §5 C16).

unary_to_nary(op)(fun, argnum, *oa, **ok)(*args, **kwargs)
   UN-x      op receives x = args[argnum] (int) / tuple(args[i] for i in argnum) (tuple or list), and oa, ok unchanged
   UN-subst  the unary function it receives satisfies, for every z:  u(z) = fun(*args[argnum := z], **kwargs)
             resp. fun(*args[i_k := z[k] for all k], **kwargs); all other positions and kwargs untouched
   UN-result the operator's result is returned unchanged; args / kwargs are not modified
   UN-type   argnum of another type is rejected
   UN-alias  the same object in several slots: substitution by position only
   UN-reentrant  a call's unary function keeps that call's args/kwargs after later calls of the same operator instance (no per-operator shared state)
Operators (their unary bodies, with core.make_vjp / make_jvp replaced by contract stubs; vspace attributes symbolic):
   grad / value_and_grad:  raise TypeError iff vspace(ans).size != 1, else vjp(vspace(ans).ones()) (and ans untouched)
   elementwise_grad:       raise TypeError iff output complex, else vjp(ones)
   deriv:                  make_jvp(fun, x)(vspace(x).ones())[1]
   jacobian:               reshape(stack([vjp(e) for e in standard_basis(ans)]), ans.shape + x.shape)
   make_hvp, make_jvp_reversemode, make_ggnvp, grad_and_aux: stated compositions
   checkpoint(fun):        primitive(fun) whose VJP rule for argnum a is make_vjp(fun, a)(*args, **kwargs)[0]
"""
import itertools
import types

import z3

from vlib import concolic as cx
from vlib.stubs import Opaque, ovs

from .core_make import rebind

FN = "autograd.wrap_util.unary_to_nary"


def _out(rep, module):
    def out(name, ok, detail, backend="symexec(ground)"):
        rep.obligation(name, ok, backend, 0.0, "E1b", sample=detail if len(rep.samples) < 3 else None)
        if not ok:
            fn, case, cl = name.split(":")
            rep.violation(f"{fn}:{cl}", case, detail, replay=dict(module=module, obligation=name), witness=True)
    return out


def run_nary(rep, tier, clauses=None):
    import autograd.wrap_util as W

    rep.function(FN, W.unary_to_nary)
    out_ = _out(rep, "contracts.diffops")

    def out(name, ok, detail, **kw):
        if clauses is None or name.rsplit(":", 1)[-1] in clauses:
            out_(name, ok, detail, **kw)
    N = 4
    rep.bound(f"{FN}: argument count 1..{N}; every int argnum incl. negative; every ordered selection of <=3 distinct positions as tuple and "
              "as list; extra operator args/kwargs present - enumerated; all values opaque")
    for n in range(1, N + 1):
        sels = [("int", a) for a in range(-n, n)]
        for k in range(1, min(n, 3) + 1):
            for sel in itertools.permutations(range(n), k):
                sels.append(("tuple", tuple(sel)))
                sels.append(("list", list(sel)))
        sels.append(("tuple", ()))
        for kind, argnum in sels:
            log = {}

            def op(unary_f, x, *oa, **ok):
                log["op"] = (unary_f, x, oa, ok)
                return "RESULT"

            def fun(*a, **k):
                log.setdefault("fun", []).append((a, k))
                return "FUNRES"
            fun.__name__ = "fun"
            args = tuple(Opaque(("arg", i)) for i in range(n))
            kwargs = {"kw": Opaque(("kw",))}
            oa, ok_ = (Opaque(("oa",)),), {"okw": Opaque(("okw",))}
            nary = W.unary_to_nary(op)
            res = nary(fun, argnum, *oa, **ok_)(*args, **dict(kwargs))
            case = f"n{n}.{kind}{argnum}".replace(" ", "")
            uf, x, goa, gok = log["op"]
            if kind == "int":
                okx = x is args[argnum]
            else:
                okx = isinstance(x, tuple) and len(x) == len(argnum) and all(a is args[i] for a, i in zip(x, argnum))
            out(f"{FN}:{case}:UN-x", okx and goa == oa and gok == ok_, f"{case}: x passed to the operator")
            z = Opaque(("z",)) if kind == "int" else tuple(Opaque(("z", k)) for k in range(len(argnum)))
            r = uf(z)
            a, k = log["fun"][-1]
            exp = list(args)
            if kind == "int":
                exp[argnum] = z
            else:
                for i, zz in zip(argnum, z):
                    exp[i] = zz
            oks = r == "FUNRES" and len(a) == n and all(p is q for p, q in zip(a, exp)) and k == kwargs
            out(f"{FN}:{case}:UN-subst", oks, f"{case}: u(z) called fun with {[getattr(p, 'term', p) for p in a]}")
            out(f"{FN}:{case}:UN-result", res == "RESULT" and all(p.term == ("arg", i) for i, p in enumerate(args)), case)
            # UN-alias: the SAME object in every positional slot - substitution is by position, never by identity/equality of values
            if n >= 2:
                A = Opaque(("same",))
                log.clear()
                nary(fun, argnum, *oa, **ok_)(*([A] * n), **dict(kwargs))
                uf_a = log["op"][0]
                uf_a(z)
                a, k = log["fun"][-1]
                exp = [A] * n
                if kind == "int":
                    exp[argnum] = z
                else:
                    for i, zz in zip(argnum, z):
                        exp[i] = zz
                out(f"{FN}:{case}:UN-alias", len(a) == n and all(p is q for p, q in zip(a, exp)) and k == kwargs,
                    f"{case}: the same object passed in all {n} slots; u(z) called fun with {[getattr(p, 'term', p) for p in a]}, expected z only at {argnum}")
            # UN-reentrant: the unary function handed to the operator by ONE call keeps that call's arguments when the same n-ary operator
            # instance is called again (lazy operators such as make_jvp / make_vjp evaluate it later; two threads share one operator)
            log.clear()
            nf = nary(fun, argnum, *oa, **ok_)
            args1 = tuple(Opaque(("call1", i)) for i in range(n))
            args2 = tuple(Opaque(("call2", i)) for i in range(n))
            kw1, kw2 = {"kw": Opaque(("kw1",))}, {"kw": Opaque(("kw2",)), "kwb": Opaque(("kwb",))}
            nf(*args1, **dict(kw1))
            uf1 = log["op"][0]
            nf(*args2, **dict(kw2))
            uf2 = log["op"][0]
            okr = True
            for uf_, args_, kw_ in ((uf1, args1, kw1), (uf2, args2, kw2), (uf1, args1, kw1)):
                uf_(z)
                a, k = log["fun"][-1]
                exp = list(args_)
                if kind == "int":
                    exp[argnum] = z
                else:
                    for i, zz in zip(argnum, z):
                        exp[i] = zz
                okr = okr and len(a) == n and all(p is q for p, q in zip(a, exp)) and k == kw_
            out(f"{FN}:{case}:UN-reentrant", okr, f"{case}: after a second call of the same operator instance the first call's unary function called fun with {[getattr(p, 'term', p) for p in a]} / {sorted(k)}")
    try:
        W.unary_to_nary(lambda f, x: None)(lambda x: x, 1.0)
        bad = False
    except Exception:
        bad = True
    out(f"{FN}:float-argnum:UN-type", bad, "argnum=1.0 must be rejected")


def _unary(op):
    """The unary body of an operator built with @unary_to_nary (closure cell `unary_operator`)."""
    for name, cell in zip(op.__code__.co_freevars, op.__closure__ or ()):
        if name == "unary_operator":
            return cell.cell_contents
    return None


def run_ops(rep, tier):
    import autograd.differential_operators as D

    out = _out(rep, "contracts.diffops")
    ovs()
    names = ["grad", "value_and_grad", "elementwise_grad", "deriv", "jacobian", "make_hvp", "make_jvp_reversemode", "grad_and_aux", "checkpoint",
             "tensor_jacobian_product", "hessian_tensor_product", "hessian", "grad_named", "holomorphic_grad"]
    for nm in names:
        rep.function(f"autograd.differential_operators.{nm}", getattr(D, nm, None))
    rep.bound("differential operators: vspace(ans).size / iscomplex symbolic (z3); jacobian output/input ranks 0..2 with basis sizes 0..3")
    # ---- grad / value_and_grad / elementwise_grad: symbolic size / iscomplex
    for nm in ("grad", "value_and_grad", "elementwise_grad"):
        body = _unary(getattr(D, nm))
        if body is None:
            out(f"autograd.differential_operators.{nm}:extract:OP-extract", False, "operator no longer built with unary_to_nary")
            continue

        def harness(L, body=body):
            size = L.int("size")
            isc = L.bool("iscomplex")
            if L.model is None:
                cx.assume(size >= 0)
            ans = Opaque(("ans",), size=size, iscomplex=isc)
            vlog = []

            def vjp(g):
                vlog.append(g)
                return Opaque(("vjp", g.term))

            def mk(fun, x):
                return vjp, ans
            b = rebind(body, _make_vjp=mk)
            try:
                r = b(object(), Opaque(("x",)))
                exc = None
            except TypeError as e:
                r, exc = None, e
            return size, isc, ans, r, exc, vlog

        results, _ = cx.explore(harness)
        for i, r in enumerate(results):
            if r.exc is not None:
                out(f"autograd.differential_operators.{nm}:path{i}:OP-no-exception", False, f"{type(r.exc).__name__}: {r.exc}")
                continue
            size, isc, ans, res, exc, vlog = r.value
            if nm == "elementwise_grad":
                cond_raise = isc.t
            else:
                cond_raise = cx.term(size) != 1
            if exc is not None:
                goal = cond_raise
                cl = "OP-raises-only-when-unsupported"
            else:
                val = res[1] if nm == "value_and_grad" and isinstance(res, tuple) else res
                okv = (isinstance(val, Opaque) and val.term == ("vjp", ("ones", ("ans",))) and len(vlog) == 1
                       and (nm != "value_and_grad" or (isinstance(res, tuple) and res[0] is ans)))
                goal = z3.And(z3.Not(cond_raise), z3.BoolVal(bool(okv)))
                cl = "OP-result-and-guard"
            v, m = cx.check_clause(rep, f"autograd.differential_operators.{nm}:path{i}:{cl}", r.pc, goal, tier, sample=f"pc={r.pc} |- {z3.simplify(goal)}")
            if v != "proved":
                mv = {str(d): str(m[d]) for d in m.decls()} if m is not None else {}
                rep.violation(f"autograd.differential_operators.{nm}:{cl}", f"path{i}",
                              f"vspace(ans) with {mv}: {'raised ' + type(exc).__name__ if exc else 'returned ' + repr(res)}",
                              replay=dict(module="contracts.diffops", obligation=f"{nm}:{cl}", model=mv), witness=True, solver_output=str(m))
    def _guard(title, thunk):
        try:
            thunk()
        except Exception as e:  # the operator body (code under contract) failed on the contract stubs: an undischarged obligation, not a checker crash
            out(f"autograd.differential_operators:{title.replace(':', ' ')}:OP-executes", False, f"operator body raised {type(e).__name__}: {str(e)[:100]} on contract stubs")
    # ---- deriv
    def _blk_deriv():
        body = _unary(D.deriv)
        jl = []

        def mkj(fun, x):
            def jvp(v):
                jl.append(v)
                return Opaque(("primal",)), Opaque(("jvp", getattr(v, "term", repr(v))))
            return jvp
        r = rebind(body, _make_jvp=mkj)(object(), Opaque(("x",)))
        out("autograd.differential_operators.deriv:ground:OP-deriv", isinstance(r, Opaque) and r.term == ("jvp", ("ones", ("x",))), f"deriv = jvp(ones of x)[1]; got {getattr(r, 'term', r)}")

    _guard("deriv", _blk_deriv)
    # ---- jacobian
    def _blk_jacobian():
        body = _unary(D.jacobian)
        for oshape, ishape in itertools.product([(), (1,), (1, 1), (2,), (3, 1), (0,)], [(), (2,), (1, 2)]):
            nb = 1
            for d in oshape:
                nb *= d
            ans = Opaque(("ans",), shape=oshape, nbasis=nb, size=nb, iscomplex=False)
            x = Opaque(("x",), shape=ishape)
            rec = {}

            class NP:
                @staticmethod
                def stack(gs):
                    rec["stack"] = [g.term for g in gs]
                    return Opaque(("stack", tuple(rec["stack"])))

                @staticmethod
                def reshape(a, shape):
                    rec["reshape"] = (a.term, shape)
                    return Opaque(("reshape", a.term, tuple(shape)))

            def mk(fun, x_):
                return (lambda g: Opaque(("vjp", g.term))), ans
            res = rebind(body, _make_vjp=mk, np=NP)(object(), x)
            exp = ("reshape", ("stack", tuple(("vjp", ("e", ("ans",), k)) for k in range(nb))), tuple(oshape) + tuple(ishape))
            out(f"autograd.differential_operators.jacobian:o{oshape}i{ishape}:OP-jacobian".replace(" ", ""), getattr(res, "term", None) == exp,
                f"jacobian = reshape(stack(vjp(e_o) in basis order), out+in); got {getattr(res, 'term', res)}")

    _guard("jacobian", _blk_jacobian)
    # ---- make_hvp / make_jvp_reversemode / grad_and_aux
    def _blk_make_hvp___make_jvp_reversemod():
        body = _unary(D.make_hvp)
        rec = {}

        def gradstub(fun, *a):
            rec["grad_of"] = fun
            return "GRADFUN"

        def mk(fun, x_):
            rec["mk"] = (fun, x_)
            return "VJP", "VAL"
        fun, x = object(), Opaque(("x",))
        r = rebind(body, _make_vjp=mk, grad=gradstub)(fun, x)
        out("autograd.differential_operators.make_hvp:ground:OP-hvp", r == ("VJP", "VAL") and rec.get("grad_of") is fun and rec["mk"] == ("GRADFUN", x), "make_hvp = make_vjp(grad(fun), x)")
        body = _unary(D.make_jvp_reversemode)
        calls = []

        def mk2(f, x_):
            calls.append((f, x_))
            if len(calls) == 1:
                return "VJP1", Opaque(("y",))
            return "VJPVJP", None
        r = rebind(body, _make_vjp=mk2)(fun, x)
        ok = (r == "VJPVJP" and calls[0] == (fun, x) and calls[1][0] == "VJP1" and isinstance(calls[1][1], Opaque) and calls[1][1].term == ("zeros", ("y",)))
        out("autograd.differential_operators.make_jvp_reversemode:ground:OP-double-vjp", ok, "vjp of the vjp at zeros of the output space")
        body = _unary(D.grad_and_aux)
        ans, aux = Opaque(("ans",)), Opaque(("aux",))
        rec = {}

        def mk3(f, x_):
            rec["f"] = f
            return (lambda g: ("VJP", tuple(getattr(t, "term", t) for t in g))), (ans, aux)
        r = rebind(body, _make_vjp=mk3, atuple=lambda t: ("atuple", t))(lambda x_: ("pair", x_), x)
        ok = r[1] is aux and r[0] == ("VJP", (("ones", ("ans",)), ("zeros", ("aux",)))) and rec["f"]("q") == ("atuple", ("pair", "q"))
        out("autograd.differential_operators.grad_and_aux:ground:OP-aux-untouched", ok, "gradient seeded with (ones(ans), zeros(aux)); aux returned untouched")

    _guard("make_hvp / make_jvp_reversemode / grad_a", _blk_make_hvp___make_jvp_reversemod)
    # ---- tensor_jacobian_product / hessian_tensor_product / hessian / grad_named: compositions of the operators above
    def _blk_products():
        class NP:
            @staticmethod
            def ndim(v):
                return ("ndim", v.term)

            @staticmethod
            def tensordot(a, b, axes=None):
                return Opaque(("tensordot", getattr(a, "term", a), getattr(b, "term", b), axes))
        args = (Opaque(("a", 0)), Opaque(("a", 1)))
        vec = Opaque(("vector",))
        kw = {"k": Opaque(("k",)), "k2": Opaque(("k2",))}
        for argnum in (0, 1, (0, 1)):
            # tensor_jacobian_product(fun, argnum) = jacobian(lambda *args, V, **kw: tensordot(V, fun(*args, **kw), axes=ndim(V)), argnum)
            rec = {}

            def jac(f, an=0):
                rec["jac"] = (f, an)
                return "JACFUN"
            flog = []

            def fun(*a, **k):
                flog.append((a, k))
                return Opaque(("fun-result",))
            r = rebind(D.tensor_jacobian_product, jacobian=jac, np=NP)(fun, argnum)
            vdf, an = rec["jac"]
            res = vdf(*args, vec, **dict(kw))
            ok = (r == "JACFUN" and an == argnum and len(flog) == 1 and len(flog[0][0]) == 2 and all(p is q for p, q in zip(flog[0][0], args)) and flog[0][1] == kw
                  and isinstance(res, Opaque) and res.term == ("tensordot", ("vector",), ("fun-result",), ("ndim", ("vector",))))
            out(f"autograd.differential_operators.tensor_jacobian_product:argnum{argnum}:OP-tjp".replace(" ", ""), ok,
                f"TJP = jacobian of (args, V, kwargs) -> tensordot(V, fun(*args, **kwargs), ndim(V)) wrt argnum; fun saw {[(tuple(getattr(x, 'term', x) for x in a), sorted(k)) for a, k in flog]}, result {getattr(res, 'term', res)}")
            # hessian_tensor_product(fun, argnum) = grad(lambda *args, V, **kw: tensordot(grad(fun, argnum)(*args, **kw), V, ndim(V)), argnum)
            glog, calls = [], []

            def gradstub(f, an=0):
                glog.append((f, an))
                if len(glog) == 1:
                    def fun_grad(*a, **k):
                        calls.append((a, k))
                        return Opaque(("grad-result",))
                    return fun_grad
                return "GRAD2"
            r = rebind(D.hessian_tensor_product, grad=gradstub, np=NP)(fun, argnum)
            ok = r == "GRAD2" and len(glog) == 2 and glog[0] == (fun, argnum) and glog[1][1] == argnum
            if ok:
                res = glog[1][0](*args, vec, **dict(kw))
                ok = (len(calls) == 1 and all(p is q for p, q in zip(calls[0][0], args)) and len(calls[0][0]) == 2 and calls[0][1] == kw
                      and isinstance(res, Opaque) and res.term == ("tensordot", ("grad-result",), ("vector",), ("ndim", ("vector",))))
            out(f"autograd.differential_operators.hessian_tensor_product:argnum{argnum}:OP-htp".replace(" ", ""), ok,
                "HTP = grad of (args, V, kwargs) -> tensordot(grad(fun, argnum)(*args, **kwargs), V, ndim(V)) wrt argnum")
        out("autograd.differential_operators.hessian_vector_product:alias:OP-alias", D.hessian_vector_product is D.hessian_tensor_product and D.vector_jacobian_product is D.tensor_jacobian_product,
            "hessian_vector_product / vector_jacobian_product are the tensor versions")
        # hessian = jacobian(jacobian(fun))(x)
        body = _unary(D.hessian)
        jl = []

        def jac2(f, an=0):
            jl.append((f, an))
            return (lambda x_, _k=len(jl): Opaque(("jac", _k, getattr(x_, "term", x_))))
        fun2, x = object(), Opaque(("x",))
        r = rebind(body, jacobian=jac2)(fun2, x)
        ok = len(jl) == 2 and jl[0] == (fun2, 0) and jl[1][1] == 0 and callable(jl[1][0]) and isinstance(r, Opaque) and r.term == ("jac", 2, ("x",)) and jl[1][0](Opaque(("q",))).term == ("jac", 1, ("q",))
        out("autograd.differential_operators.hessian:ground:OP-hessian", ok, "hessian = jacobian(jacobian(fun))(x)")
        # grad_named(fun, name) = grad(fun, position of name)
        rec = {}
        r = rebind(D.grad_named, grad=lambda f, an=0: rec.setdefault("g", (f, an)) and "G")(lambda p_, q_, r_=1: None, "q_")
        out("autograd.differential_operators.grad_named:ground:OP-named", r == "G" and rec["g"][1] == 1, "grad_named = grad at the positional index of the name")
        # holomorphic_grad = grad(real o fun)(x)
        body = _unary(D.holomorphic_grad)
        rec = {}

        class NP2:
            @staticmethod
            def real(v):
                return Opaque(("real", getattr(v, "term", v)))

        def gradh(f, an=0):
            rec["f"] = f
            return lambda x_: Opaque(("grad-at", getattr(x_, "term", x_)))
        xh = Opaque(("x",), iscomplex=True)
        r = rebind(body, grad=gradh, np=NP2)(lambda x_: Opaque(("f", getattr(x_, "term", x_))), xh)
        ok = isinstance(r, Opaque) and r.term == ("grad-at", ("x",)) and rec["f"](Opaque(("q",))).term == ("real", ("f", ("q",)))
        out("autograd.differential_operators.holomorphic_grad:ground:OP-holomorphic", ok, "holomorphic_grad = grad(real(fun))(x)")

    _guard("tensor_jacobian_product / hessian_tensor_product / hessian / grad_named / holomorphic_grad", _blk_products)
    # ---- checkpoint: primitive(fun) + defvjp_argnum whose rule re-runs make_vjp(fun, argnum) on the ORIGINAL args/kwargs
    def _blk_checkpoint__primitive_fun____d():
        import autograd.core as C
        rec = {}

        def primitive(f):
            w = lambda *a, **k: f(*a, **k)
            w.wrapped_fun = f
            return w

        def defvjp_argnum(p, maker):
            rec["prim"], rec["maker"] = p, maker

        def make_vjp(f, argnum):
            rec.setdefault("mv", []).append((f, argnum))
            return lambda *a, **k: (("VJPFUN", argnum, a, k), "VAL")
        f = lambda *a, **k: "F"
        w = rebind(D.checkpoint, primitive=primitive, defvjp_argnum=defvjp_argnum, make_vjp=make_vjp)(f)
        okc = rec.get("prim") is w and getattr(w, "wrapped_fun", None) is f
        for argnum in range(3):
            from vlib.stubs import obox
            OBox = obox()
            # arguments that are still boxes of ENCLOSING traces must reach make_vjp as they are (higher-order derivatives)
            args, kwargs = (OBox(Opaque(("a", 0)), 0, object()), Opaque(("a", 1)), OBox(Opaque(("a", 2)), 1, object())), {"k": OBox(Opaque(("k",)), 0, object())}
            got = rec["maker"](argnum, Opaque(("ans",)), args, kwargs)
            okc = (okc and isinstance(got, tuple) and got[:2] == ("VJPFUN", argnum) and len(got[2]) == 3 and all(p is q for p, q in zip(got[2], args))
                   and set(got[3]) == {"k"} and got[3]["k"] is kwargs["k"] and rec["mv"][-1] == (f, argnum))
        out("autograd.differential_operators.checkpoint:ground:OP-checkpoint", okc,
            "checkpoint(fun) = primitive(fun) with rule(argnum, ans, args, kwargs) = make_vjp(fun, argnum)(*args, **kwargs)[0] (traced args, so every order)")



    _guard("checkpoint: primitive(fun) + defvjp_argn", _blk_checkpoint__primitive_fun____d)


def run_index_algebra(rep, tier):
    """L3 (mixed-radix index identity) behind `jacobian`: with ndindex / stack / reshape in C order (npspec), the element at multi-index o ++ i of
    reshape(stack([vjp(e_o) for o in ndindex(out)]), out + in) is vjp(e_o)[i].  In flat positions: flat_{out+in}(o ++ i) = flat_out(o) * prod(in) + flat_in(i),
    for all dimension sizes and all in-range indices - a polynomial identity discharged by z3 for every rank pair 0..3 x 0..3."""
    import z3

    from vlib.smt import check_sat

    def flat(idx, shape):
        r = z3.IntVal(0)
        for i_, d_ in zip(idx, shape):
            r = r * d_ + i_
        return r
    for ro in range(0, 4):
        for ri in range(0, 4):
            od = [z3.Int(f"od{k}") for k in range(ro)]
            idd = [z3.Int(f"id{k}") for k in range(ri)]
            oi = [z3.Int(f"o{k}") for k in range(ro)]
            ii = [z3.Int(f"i{k}") for k in range(ri)]
            hyps = [d > 0 for d in od + idd] + [z3.And(0 <= a, a < d) for a, d in zip(oi + ii, od + idd)]
            pin = z3.IntVal(1)
            for d in idd:
                pin = pin * d
            goal = flat(oi + ii, od + idd) == flat(oi, od) * pin + flat(ii, idd)
            st, m, backend, secs = check_sat(hyps + [z3.Not(goal)], 20000, want_model=False)
            name = f"autograd.differential_operators.jacobian:rank{ro}x{ri}:OP-index-algebra"
            rep.obligation(name, st == "unsat", backend, secs, "E1a", sample=f"flat(o++i) = flat(o)*prod(in)+flat(i), out rank {ro}, in rank {ri}" if len(rep.samples) < 4 else None)
            if st != "unsat":
                rep.violation("autograd.differential_operators.jacobian:OP-index-algebra", f"rank{ro}x{ri}", f"index identity not discharged ({st})", witness=False, solver_output=st)
    rep.assume("NumPy: ndindex, stack(axis=0) and reshape use C (row-major) order")


def replay(spec):
    class R:
        samples = []
        res = {}

        def function(self, *a):
            pass

        def bound(self, *a):
            pass

        def obligation(self, name, ok, *a, **k):
            self.res[name] = ok

        def violation(self, *a, **k):
            pass

    r = R()
    run_nary(r, "quick")
    run_ops(r, "quick")
    bad = [k for k, v in r.res.items() if not v and spec["obligation"].split(":")[-1] in k]
    return (not bad), (f"violated natively: {bad[:3]}" if bad else "holds"), spec["obligation"]
