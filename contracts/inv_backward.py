"""Sidecar contract of autograd.core.backward_pass for the E1a VC generator (specification only).

Callee contracts used at the call sites (modular: the callee's body is not looked at here)
   toposort(end_node)            its ensures T1-T4 (proved separately from its own source): the sequence S
   node.vjp(x)                   yields exactly len(node.parents) cotangents  VJP(node, x, k)   (supplied by the defvjp* contracts)
   add_outgrads(prev, g)         value clause AO-value: first component = g if prev is None else PLUS(prev[0], g)   (proved by E1b)
   dict.get / dict.pop / zip     Python semantics
requires  trace graph: DAG under end_node (rank), R = reach(end_node), every reachable node except end_node has a reachable consumer
ensures   B1  node.vjp is applied exactly once to every reachable node and to no other
          B2  its argument is G(node): G(end) = g;  otherwise the left fold (in arrival order) of PLUS over the contributions
              VJP(m, G(m), k) of ALL edges (m, k) with m reachable and parents(m)[k] is node - and only those
              (ghost bijection between these edges and [0, cnt(node)) : slotB / cs)
          B3  the k-th ingrad of m goes to the k-th parent of m (built into the bijection: cs[n][c] = (m, k) => par(m, k) = n)
          B4  no KeyError at outgrads.pop(node)           (safety obligation emitted by the translator)
          B5  returns G of the last node of S
"""
import z3

from .inv_toposort import END, I, B, Node, R, npar, par, rank

V = z3.DeclareSort("V")
Pair = z3.Datatype("Pair")
Pair.declare("mk", ("v", V), ("flag", B))
Pair = Pair.create()
VJP = z3.Function("VJP", Node, V, I, V)
PLUS = z3.Function("PLUS", V, V, V)
G0 = z3.Const("g", V)
cm = z3.Function("cons_m", Node, Node)   # a reachable consumer of every reachable non-end node (witness functions)
ck = z3.Function("cons_k", Node, I)
idx = z3.Function("idx", Node, I)
owned = z3.Function("owned", V, B)      # ghost: the buffer was allocated by this backward pass (may be written in place)
xv = z3.Const("xv", V)
S = z3.Array("S", I, Node)
SL = z3.Int("SL")
m, n = z3.Consts("m n", Node)
i, k, c, t = z3.Ints("i k c t")

FUNCTION = "autograd.core.backward_pass"
PARENTS_FUN = set()
ELEM_KIND = "node"
DICT_SORTS = {"*": (Node, Pair)}
DICT_VAL = {"D1": "pair"}
EXPECT = dict(loops=2)

AXIOMS = [
    z3.ForAll([m], npar(m) >= 0),
    z3.ForAll([m, i], z3.Implies(z3.And(0 <= i, i < npar(m)), rank(par(m, i)) > rank(m))),
    R(END),
    z3.ForAll([m, i], z3.Implies(z3.And(R(m), 0 <= i, i < npar(m)), R(par(m, i)))),
    # least fixpoint: a reachable node other than end_node is the parent of some reachable node
    z3.ForAll([n], z3.Implies(z3.And(R(n), n != END), z3.And(R(cm(n)), 0 <= ck(n), ck(n) < npar(cm(n)), par(cm(n), ck(n)) == n))),
    # ---- ensures of toposort(end_node) (callee contract): S, SL, idx
    SL >= 1, z3.Select(S, 0) == END,
    z3.ForAll([t], z3.Implies(z3.And(0 <= t, t < SL), z3.And(R(z3.Select(S, t)), idx(z3.Select(S, t)) == t))),
    z3.ForAll([n], z3.Implies(R(n), z3.And(0 <= idx(n), idx(n) < SL, z3.Select(S, idx(n)) == n))),
    z3.ForAll([m, i], z3.Implies(z3.And(R(m), 0 <= i, i < npar(m)), idx(m) < idx(par(m, i)))),
    # ownership (B6): the caller's cotangent and whatever a rule returns are foreign memory
    z3.Not(owned(G0)),
    z3.ForAll([m, xv, i], z3.Not(owned(VJP(m, xv, i)))),
]


def init(gen, st, tree):
    import ast
    from vlib.pyvc import ExtractError
    args = [a.arg for a in tree.args.args]
    if len(args) != 2 or tree.args.defaults or tree.args.vararg or tree.args.kwarg or tree.args.kwonlyargs:
        raise ExtractError(f"signature changed: {args} (two positional parameters without defaults expected: cotangent, end node)")
    st.v[args[0]] = ("val", G0)      # parameters are bound by position
    st.v[args[1]] = ("node", END)
    # the variable that receives <dict>.pop(<node>) is read after the loop: bind it now (role DP1) so the loop-head havoc covers it
    pops = [n_ for n_ in ast.walk(tree) if isinstance(n_, ast.Assign) and isinstance(n_.value, ast.Call) and isinstance(n_.value.func, ast.Attribute) and n_.value.func.attr == "pop"
            and len(n_.value.args) == 1 and (isinstance(n_.targets[0], ast.Name) or (isinstance(n_.targets[0], ast.Tuple) and len(n_.targets[0].elts) == 2
                                                                                      and all(isinstance(e_, ast.Name) for e_ in n_.targets[0].elts)))]
    if len(pops) != 1:
        raise ExtractError("expected exactly one `<x> = <dict>.pop(<node>)` (or `<v>, <flag> = <dict>.pop(<node>)`)")
    tg = pops[0].targets[0]
    init_pair = gen.fresh("popped_init", Pair)
    if isinstance(tg, ast.Name):
        gen.roles["DP1"] = tg.id
        st.v[tg.id] = ("pair", init_pair)
    else:   # the pair itself is the synthetic local $popped; the two targets name its components (re-tied after every loop-head havoc, see for_havoc)
        gen.roles["DP1"] = "$popped"
        st.v["$popped"] = ("pair", init_pair)
        gen.unpack_names = (tg.elts[0].id, tg.elts[1].id)
        st.v[tg.elts[0].id], st.v[tg.elts[1].id] = project(init_pair, 0), project(init_pair, 1)
    g = st.g
    g["OUT"], g["OUTLEN"] = z3.Array("OUT0", I, Node), z3.IntVal(0)
    g["t"], g["j"] = z3.IntVal(0), z3.IntVal(0)
    g["Garg"] = z3.Array("Garg0", Node, V)
    g["app"] = z3.K(Node, z3.IntVal(0))
    g["cnt"] = z3.K(Node, z3.IntVal(0))
    g["csS"] = z3.Array("csS0", Node, I, Node)
    g["csK"] = z3.Array("csK0", Node, I, I)
    g["slotB"] = z3.Array("slotB0", Node, I, I)
    g["Fold"] = z3.Array("Fold0", Node, I, V)


class X:
    def __init__(self, gen, st):
        # roles: D1 = the dict initialised with {end_node: (g, False)} (outgrads); IT1 = target of the outer for (node); DP1 = target of the dict pop (outgrad)
        v, g = st.v, st.g
        og = gen.var(st, "D1")
        self.has = lambda a: z3.Select(og[1], a)
        self.val = lambda a: Pair.v(z3.Select(og[2], a))
        self.flag = lambda a: Pair.flag(z3.Select(og[2], a))
        self.t, self.j = g["t"], g["j"]
        self.Garg = lambda a: z3.Select(g["Garg"], a)
        self.app = lambda a: z3.Select(g["app"], a)
        self.cnt = lambda a: z3.Select(g["cnt"], a)
        self.csS = lambda a, b: z3.Select(g["csS"], a, b)
        self.csK = lambda a, b: z3.Select(g["csK"], a, b)
        self.slotB = lambda a, b: z3.Select(g["slotB"], a, b)
        self.Fold = lambda a, b: z3.Select(g["Fold"], a, b)
        it1 = gen.roles.get("IT1")
        self.node = v[it1[0]][1] if it1 and it1[0] in v else None
        dp = gen.var(st, "DP1")
        self.outgrad = dp[1] if dp else None


def contr(x, a, b):
    return VJP(a, x.Garg(a), b)


def inv_common(x, inner):
    t, j, node = x.t, x.j, x.node
    done = (lambda a, b: z3.Or(idx(a) < t, z3.And(a == node, b < j))) if inner else (lambda a, b: idx(a) < t)
    lim = (lambda a: idx(a) > t) if inner else (lambda a: idx(a) >= t)
    cl = [
        ("index-range", z3.And(0 <= t, t <= SL) if not inner else z3.And(0 <= t, t < SL)),
        ("domain-of-outgrads", z3.ForAll([n], x.has(n) == z3.And(R(n), lim(n), z3.Or(x.cnt(n) >= 1, z3.And(n == END, t == 0) if not inner else z3.BoolVal(False))))),
        ("accumulated-value-is-the-fold", z3.ForAll([n], z3.Implies(x.has(n), x.val(n) == z3.If(n == END, G0, x.Fold(n, x.cnt(n)))))),
        ("B1-applied-once-to-processed-nodes", z3.ForAll([n], x.app(n) == z3.If(z3.And(R(n), (idx(n) <= t) if inner else (idx(n) < t)), 1, 0))),
        ("argument-of-processed-node-is-its-fold", z3.ForAll([n], z3.Implies(z3.And(R(n), (idx(n) <= t) if inner else (idx(n) < t)),
                                                                            x.Garg(n) == z3.If(n == END, G0, x.Fold(n, x.cnt(n)))))),
        ("every-processed-edge-has-contributed", z3.ForAll([m, k], z3.Implies(z3.And(R(m), 0 <= k, k < npar(m), done(m, k)), z3.And(
            0 <= x.slotB(m, k), x.slotB(m, k) < x.cnt(par(m, k)), x.csS(par(m, k), x.slotB(m, k)) == m, x.csK(par(m, k), x.slotB(m, k)) == k)))),
        ("only-processed-edges-have-contributed", z3.ForAll([n, c], z3.Implies(z3.And(0 <= c, c < x.cnt(n)), z3.And(
            R(x.csS(n, c)), 0 <= x.csK(n, c), x.csK(n, c) < npar(x.csS(n, c)), done(x.csS(n, c), x.csK(n, c)), par(x.csS(n, c), x.csK(n, c)) == n,
            x.slotB(x.csS(n, c), x.csK(n, c)) == c)))),
        ("B6-mutable-flag-only-on-owned-buffers", z3.ForAll([n], z3.Implies(z3.And(x.has(n), x.flag(n)), owned(x.val(n))))),
        ("counts-nonnegative", z3.ForAll([n], z3.And(x.cnt(n) >= 0, z3.Implies(x.cnt(n) >= 1, R(n))))),
        ("fold-recurrence", z3.ForAll([n, c], z3.Implies(z3.And(1 <= c, c <= x.cnt(n)), x.Fold(n, c) == z3.If(
            c == 1, contr(x, x.csS(n, 0), x.csK(n, 0)), PLUS(x.Fold(n, c - 1), contr(x, x.csS(n, c - 1), x.csK(n, c - 1))))))),
    ]
    if inner:
        cl += [("current-node", z3.And(node == z3.Select(S, t), 0 <= j, j <= npar(node), z3.Not(x.has(node)), x.Garg(node) == Pair.v(x.outgrad)))]
    else:
        cl += [("B5-last-popped", z3.Implies(t >= 1, Pair.v(x.outgrad) == x.Garg(z3.Select(S, t - 1)))) if x.outgrad is not None else ("B5-last-popped", z3.BoolVal(True))]
    return cl


def inv1(gen, st):
    return inv_common(X(gen, st), inner=False)


def inv2(gen, st):
    return inv_common(X(gen, st), inner=True)


LOOPS = {
    1: dict(invariant=inv1, ghost_modified=["t", "j", "Garg", "app", "cnt", "csS", "csK", "slotB", "Fold"]),
    2: dict(invariant=inv2, ghost_modified=["j", "cnt", "csS", "csK", "slotB", "Fold"]),
}


# ---- ghost updates ---------------------------------------------------------------------------------------------------
def h_newdict(gen, st, name):
    pass


def h_setsub(gen, st, key, contribution):
    g = st.g
    node, j = st.v[gen.roles["IT1"][0]][1], g["j"]
    c0 = z3.Select(g["cnt"], key)
    g["csS"] = z3.Store(g["csS"], key, c0, node)
    g["csK"] = z3.Store(g["csK"], key, c0, j)
    g["slotB"] = z3.Store(g["slotB"], node, j, c0)
    g["Fold"] = z3.Store(g["Fold"], key, c0 + 1, z3.If(c0 == 0, contribution, PLUS(z3.Select(g["Fold"], key, c0), contribution)))
    g["cnt"] = z3.Store(g["cnt"], key, c0 + 1)


HOOKS = {"newdict#1": h_newdict}


def pack(gen, st, e):
    """value expression of a dict literal entry: (g, False)"""
    import ast
    if isinstance(e, ast.Tuple) and len(e.elts) == 2 and isinstance(e.elts[1], ast.Constant) and isinstance(e.elts[1].value, bool):
        return Pair.mk(gen.expr(e.elts[0], st)[1], z3.BoolVal(e.elts[1].value))
    from vlib.pyvc import ExtractError
    raise ExtractError("unsupported dict value")


def project(term, index):
    return ("val", Pair.v(term)) if index == 0 else ("bool", Pair.flag(term))


def unpack(term):
    return ("pair", term)


def call(gen, st, name, v):
    """x = node.vjp(outgrad[0])  -> the sequence of ingrads as an abstract value; records the application (B1/B2)"""
    import ast
    if isinstance(v.func, ast.Attribute) and v.func.attr == "vjp" and len(v.args) == 1:
        nd = gen.expr(v.func.value, st)[1]
        a = v.args[0]
        arg = None
        if isinstance(a, ast.Subscript) and isinstance(a.slice, ast.Constant) and a.slice.value == 0 and isinstance(a.value, ast.Name) and st.v.get(a.value.id, ("",))[0] == "pair":
            arg = Pair.v(st.v[a.value.id][1])
        elif isinstance(a, ast.Name) and st.v.get(a.id, ("",))[0] == "val":
            arg = st.v[a.id][1]          # a local naming the cotangent (e.g. from `g, flag = outgrads.pop(node)`)
        if arg is not None:
            st.v[name] = ("ingrads", nd, arg)
            g = st.g
            g["app"] = z3.Store(g["app"], nd, z3.Select(g["app"], nd) + 1)
            g["Garg"] = z3.Store(g["Garg"], nd, arg)
            st.trace.append("vjp-call")
            return [st]
    return None


def setsub_call(gen, st, dname, key, callnode, event):
    """outgrads[parent] = add_outgrads(outgrads.get(parent), ingrad)   - callee contract AO-value"""
    import ast
    from vlib.pyvc import ExtractError
    if not (isinstance(callnode.func, ast.Name) and callnode.func.id == "add_outgrads" and len(callnode.args) == 2):
        raise ExtractError("unexpected call in dict store")
    a0, a1 = callnode.args
    _, has, val = st.v[dname]
    if isinstance(a0, ast.Call) and isinstance(a0.func, ast.Attribute) and a0.func.attr == "get" and isinstance(a0.func.value, ast.Name) and a0.func.value.id == dname and len(a0.args) in (1, 2) \
            and (len(a0.args) == 1 or (isinstance(a0.args[1], ast.Constant) and a0.args[1].value is None)):
        k2 = gen.expr(a0.args[0], st)[1]
        prev_has, prev_pair = z3.Select(has, k2), z3.Select(val, k2)
    elif isinstance(a0, ast.Name) and st.v.get(a0.id, ("",))[0] == "opt" and len(st.v[a0.id]) == 6 and st.v[a0.id][4] == dname:
        _, prev_has, _, prev_pair, _, k2 = st.v[a0.id]      # a local holding outgrads.get(<key>) / `outgrads[k] if k in outgrads else None` (snapshot at the read)
    else:
        raise ExtractError("first argument of add_outgrads is not outgrads.get(<key>) (directly or through a local)")
    ing = gen.expr(a1, st)
    prev_v = Pair.v(prev_pair)
    newv = z3.If(prev_has, PLUS(prev_v, ing[1]), ing[1])
    fl = gen.fresh("flag", B)
    # callee contract of add_outgrads (AO-own / AO-share, proved by E1b); its requires `flag => owned` is an obligation here
    gen.oblige(f"requires:{event}:add_outgrads-prev-flag-implies-owned", st, z3.Implies(z3.And(prev_has, Pair.flag(prev_pair)), owned(prev_v)))
    st.pc.append(z3.Implies(fl, owned(newv)))
    st.pc.append(z3.Implies(z3.Not(fl), z3.And(z3.Not(prev_has), newv == ing[1])))
    st.v[dname] = ("dict", z3.Store(has, key, True), z3.Store(val, key, Pair.mk(newv, fl)))
    st.trace.append(event)
    h_setsub(gen, st, key, ing[1])
    # the contribution must be accumulated under the SAME key it was read from (routing, B3)
    gen.oblige(f"routing:{event}:read-and-write-the-same-parent", st, k2 == key)


# ---- for-loop protocol: loop 1 = `for node in toposort(end_node)`, loop 2 = `for parent, ingrad in zip(node.parents, ingrads)`
def for_init(gen, st, lid, s):
    import ast
    from vlib.pyvc import ExtractError
    if lid == 1:
        it = s.iter
        if not (isinstance(it, ast.Call) and isinstance(it.func, ast.Name) and it.func.id == "toposort" and len(it.args) == 1 and gen.expr(it.args[0], st)[1].eq(END)):
            raise ExtractError("outer loop is not `for node in toposort(end_node)`")
        st.g["t"] = z3.IntVal(0)
    else:
        it = s.iter
        ok = (isinstance(it, ast.Call) and isinstance(it.func, ast.Name) and it.func.id == "zip" and len(it.args) == 2 and isinstance(it.args[0], ast.Attribute)
              and it.args[0].attr == "parents" and isinstance(it.args[1], ast.Name) and st.v.get(it.args[1].id, ("",))[0] == "ingrads")
        if not ok or not isinstance(s.target, ast.Tuple) or len(s.target.elts) != 2:
            raise ExtractError("inner loop is not `for parent, ingrad in zip(node.parents, ingrads)`")
        nd = gen.expr(it.args[0].value, st)[1]
        if not nd.eq(st.v[it.args[1].id][1]):
            raise ExtractError("zip pairs the parents of one node with the ingrads of another")
        st.g["j"] = z3.IntVal(0)


def for_havoc(gen, st, lid, s):
    un = getattr(gen, "unpack_names", None)
    if un and "$popped" in st.v:
        p_ = gen.fresh("popped", Pair)          # `$popped` is assigned in the loop body (through the unpacking statement): havoc it with its components
        st.v["$popped"] = ("pair", p_)
        st.v[un[0]], st.v[un[1]] = project(p_, 0), project(p_, 1)


def for_cond(gen, st, lid, s):
    if lid == 1:
        return st.g["t"] < SL
    return st.g["j"] < npar(st.v[gen.roles["IT1"][0]][1])


def for_bind(gen, st, lid, s):
    if lid == 1:
        st.v[s.target.id] = ("node", z3.Select(S, st.g["t"]))
    else:
        nd = st.v[gen.roles["IT1"][0]][1]
        ing = st.v[s.iter.args[1].id]
        st.v[s.target.elts[0].id] = ("node", par(nd, st.g["j"]))
        st.v[s.target.elts[1].id] = ("val", VJP(ing[1], ing[2], st.g["j"]))


def for_step(gen, st, lid, s):
    if lid == 1:
        st.g["t"] = st.g["t"] + 1
    else:
        st.g["j"] = st.g["j"] + 1


def post(gen, st):
    x = X(gen, st)
    ret = st.v.get("$ret")
    last = z3.Select(S, SL - 1)
    return [
        ("B1-each-reachable-node-differentiated-exactly-once", z3.ForAll([n], x.app(n) == z3.If(R(n), 1, 0))),
        ("B2-argument-is-the-fold-of-all-consumer-contributions", z3.And(
            x.Garg(END) == G0,
            z3.ForAll([n], z3.Implies(z3.And(R(n), n != END), x.Garg(n) == x.Fold(n, x.cnt(n)))),
            z3.ForAll([m, k], z3.Implies(z3.And(R(m), 0 <= k, k < npar(m)), z3.And(0 <= x.slotB(m, k), x.slotB(m, k) < x.cnt(par(m, k)),
                                                                                 x.csS(par(m, k), x.slotB(m, k)) == m, x.csK(par(m, k), x.slotB(m, k)) == k))),
            z3.ForAll([n, c], z3.Implies(z3.And(0 <= c, c < x.cnt(n)), z3.And(R(x.csS(n, c)), par(x.csS(n, c), x.csK(n, c)) == n, x.slotB(x.csS(n, c), x.csK(n, c)) == c))))),
        ("B5-returns-the-cotangent-of-the-last-node", (ret[1] == x.Garg(last)) if ret is not None else z3.BoolVal(False)),
    ]
