"""Contract of autograd.tracer.primitive(f_raw) -> f_wrapped (DESIGN §4 W1..W7), discharged by E1b.

The real closure produced by the real `primitive` is executed.  Its recursive self-call (cell `f_wrapped`)
is replaced by a stub implementing the contract for lower trace levels (induction on top_trace), f_raw and the
node constructor are stubs that log their calls.  find_top_boxed_args / subvals / new_box / notrace_primitives are
the real ones (inlined).

requires BOXNEST on args:  isbox(b._value) => b._value._trace < b._trace ; all ids >= 0
ensures  W1 getval(result) = f_raw(*map(getval,args), **kwargs)
         W2 no box among args: result is f_raw(*args, **kwargs); no node, recursion not entered
         W3 primitive registered notrace for the top node type: result is self(*argvals, **kwargs); no node created
         W4 else exactly one node, built by the node type of the FIRST top box, from (ans, self, argvals, kwargs,
            argnums of the top boxes, their nodes); result is a box with that node, _trace = top_trace, _value = ans
            argvals = args with exactly the top boxes replaced by their _value (unboxed at this level only)
         W5 decreases: every box passed to the recursive call has id < top_trace; BOXNEST holds for the result
         W7 a constructor exception propagates unchanged
Structure enumerated: arity, per argument {plain, box, box-in-box}, notrace registration mode, outcome of the
recursive call {plain, box of the highest remaining level}, constructor raises or not.  Symbolic: all trace ids.
"""
import itertools

import z3

from vlib import concolic as cx
from vlib.common import CheckerError
from vlib.stubs import Opaque, obox

FN = "autograd.tracer.primitive.<locals>.f_wrapped"


class CtorBoom(Exception):
    pass


def _getval_term(T, x):
    v = T.getval(x)
    if not isinstance(v, Opaque):
        raise AssertionError(f"getval returned {type(v).__name__}")
    return v.term


def build(T, L, n, kinds):
    """kinds[i] in 'p' (plain), 'b' (box), 'n' (box whose value is a box of a lower level)."""
    OBox = obox()
    ids, args, nodecls = {}, [], {}
    for i, k in enumerate(kinds):
        base = Opaque(("x", i))
        if k == "p":
            args.append(base)
            continue
        nodecls[i] = None
        t = L.int(f"t{i}")
        if L.model is None:
            cx.assume(t >= 0)
        inner = base
        if k == "n":
            u = L.int(f"u{i}")
            if L.model is None:
                cx.assume(u >= 0)
                cx.assume(u < t)  # BOXNEST precondition
            ids[("u", i)] = u
            inner = OBox(base, u, object())
        ids[("t", i)] = t
        args.append(OBox(inner, t, None))  # node filled by caller
    return tuple(args), ids


def spec_case(kinds, idv):
    """Runtime contract: which positions are top (concrete ids)."""
    ts = {i: idv[("t", i)] for i, k in enumerate(kinds) if k != "p"}
    if not ts:
        return None, []
    top = max(ts.values())
    return top, [i for i in sorted(ts) if ts[i] == top]


def one_run(T, L, n, kinds, mode, inner_out, ctor_raises):
    """Executes the real f_wrapped once.  Returns an observation dict."""
    OBox = obox()
    log = dict(raw=[], rec=[], ctor=[])
    args, ids = build(T, L, n, kinds)
    kwargs = {"kw": Opaque(("kw",))}

    def f_raw(*a, **k):
        log["raw"].append((a, k))
        return Opaque(("app", tuple(_getval_term(T, v) for v in a), tuple(sorted((kk, vv.term) for kk, vv in k.items()))))

    fw = T.primitive(f_raw)
    code = fw.__code__
    if "f_wrapped" not in code.co_freevars or "f_raw" not in code.co_freevars:
        raise CheckerError("extract: f_wrapped no longer closes over (f_raw, f_wrapped)")

    class NodeBase:
        def __init__(self, value, fun, a, k, parent_argnums, parents):
            log["ctor"].append(dict(cls=type(self), value=value, fun=fun, args=a, kwargs=k, argnums=parent_argnums, parents=parents, node=self))
            if ctor_raises:
                self.boom = CtorBoom("ctor")
                raise self.boom

    nodecls = {}
    for i, k in enumerate(kinds):
        if k != "p":
            nodecls[i] = type(f"Node{i}", (NodeBase,), {})
            args[i]._node = nodecls[i].__new__(nodecls[i])

    class Self:
        """Stands for the primitive itself inside its own body (recursive call = contract of lower levels)."""

        def __call__(self, *argvals, **kw):
            boxes = [v for v in argvals if T.isbox(v)]
            log["rec"].append((argvals, kw, boxes))
            term = ("app", tuple(_getval_term(T, v) for v in argvals), tuple(sorted((kk, vv.term) for kk, vv in kw.items())))
            if boxes and inner_out == "box":
                m = cx.term(boxes[0]._trace)
                for b in boxes[1:]:
                    m = z3.If(cx.term(b._trace) > m, cx.term(b._trace), m)
                lvl = cx.SInt(z3.simplify(m)) if L.model is None else max(int(b._trace) for b in boxes)
                return OBox(Opaque(term), lvl, object())
            return Opaque(term)

    S = Self()
    for name, cell in zip(code.co_freevars, fw.__closure__):
        if name == "f_wrapped":
            cell.cell_contents = S
    reg = []
    try:
        if mode == "all":
            for c in nodecls.values():
                T.register_notrace(c, S)
                reg.append(c)
        elif mode == "first" and nodecls:
            c = nodecls[min(nodecls)]
            T.register_notrace(c, S)
            reg.append(c)
        exc = None
        res = None
        try:
            res = fw(*args, **kwargs)
        except CtorBoom as e:
            exc = e
        return dict(args=args, ids=ids, kwargs=kwargs, log=log, res=res, exc=exc, S=S, nodecls=nodecls, reg=set(reg))
    finally:
        for c in list(nodecls.values()):
            T.notrace_primitives.pop(c, None)


def clauses(T, o, kinds):
    """Returns list of (clause, z3 goal) for one explored leaf; concrete facts become BoolVal."""
    args, ids, log, res, kwargs, S = o["args"], o["ids"], o["log"], o["res"], o["kwargs"], o["S"]
    boxes = [i for i, k in enumerate(kinds) if k != "p"]
    T_ = lambda i: cx.term(ids[("t", i)])
    out = []
    B = z3.BoolVal
    if not boxes:
        ok = (len(log["raw"]) == 1 and not log["rec"] and not log["ctor"] and o["exc"] is None
              and all(a is b for a, b in zip(log["raw"][0][0], args)) and len(log["raw"][0][0]) == len(args)
              and log["raw"][0][1] == kwargs and isinstance(res, Opaque)
              and res.term == ("app", tuple(a.term for a in args), (("kw", ("kw",)),)))
        out.append(("W2", B(ok)))
        return out
    top = z3.IntVal(-1)
    for i in boxes:
        top = z3.If(T_(i) > top, T_(i), top)
    if len(log["rec"]) != 1 or log["raw"]:
        out.append(("W3W4-one-recursive-call", B(False)))
        return out
    argvals, kw, inner_boxes = log["rec"][0]
    # argvals: exactly the top boxes unboxed
    conds = [B(len(argvals) == len(args)), B(kw == kwargs)]
    tops = []
    for i, a in enumerate(args):
        if i < len(argvals) and kinds[i] != "p" and argvals[i] is a._value:
            conds.append(T_(i) == top)
            tops.append(i)
        elif i < len(argvals) and argvals[i] is a:
            if kinds[i] != "p":
                conds.append(T_(i) != top)
        else:
            conds.append(B(False))
    out.append(("W4-argvals-unboxed-at-top-level-only", z3.And(conds)))
    # decreases / BOXNEST of what goes down
    out.append(("W5-decreases", z3.And([cx.term(b._trace) < top for b in inner_boxes] + [B(True)])))
    first_cls = o["nodecls"][tops[0]] if tops else None
    notrace = first_cls in o["reg"]
    expected_term = ("app", tuple(_getval_term(T, a) for a in args), (("kw", ("kw",)),))
    if notrace:
        ok = not log["ctor"] and o["exc"] is None and res is not None and _getval_term(T, res) == expected_term
        # result is exactly what the recursive call returned (no re-boxing at this level)
        ok = ok and not (T.isbox(res) and res._node is not None and any(res._node is c["node"] for c in log["ctor"]))
        out.append(("W3-notrace-no-node", B(ok)))
        if T.isbox(res):
            out.append(("W3-result-below-top", cx.term(res._trace) < top))
        return out
    if len(log["ctor"]) != 1:
        out.append(("W4-exactly-one-node", B(False)))
        return out
    c = log["ctor"][0]
    ok = (c["cls"] is first_cls and c["fun"] is S and c["args"] is not None and tuple(c["args"]) == tuple(argvals)
          and all(x is y for x, y in zip(c["args"], argvals)) and c["kwargs"] == kwargs
          and tuple(c["argnums"]) == tuple(tops) and len(c["parents"]) == len(tops)
          and all(p is args[i]._node for p, i in zip(c["parents"], tops)))
    out.append(("W4-node-fields", B(ok)))
    if o["exc"] is not None:
        out.append(("W7-ctor-exception-propagates", B(o["exc"] is c["node"].boom and res is None)))
        return out
    okb = T.isbox(res) and res._node is c["node"] and res._value is c["value"]
    out.append(("W4-result-box", B(bool(okb))))
    if okb:
        out.append(("W4-result-trace-is-top", cx.term(res._trace) == top))
        out.append(("W1-value-lemma", B(_getval_term(T, res) == expected_term)))
        if T.isbox(res._value):
            out.append(("W5-boxnest-result", cx.term(res._value._trace) < cx.term(res._trace)))
    return out


def cases(tier):
    N = 3 if tier == "quick" else 4
    for n in range(N + 1):
        for kinds in itertools.product("pbn", repeat=n):
            nb = sum(k != "p" for k in kinds)
            for mode in ("none", "all", "first"):
                if mode != "none" and nb == 0:
                    continue
                if mode == "first" and nb < 2:
                    continue
                for inner_out in ("plain", "box"):
                    if inner_out == "box" and nb == 0:
                        continue
                    for ctor_raises in (False, True):
                        if ctor_raises and (mode == "all" or nb == 0 or inner_out == "box"):
                            continue
                        yield n, kinds, mode, inner_out, ctor_raises
    return


def run(rep, tier, only=None):
    import autograd.tracer as T

    rep.function(FN, T.primitive)
    rep.function("autograd.tracer.new_box", T.new_box)
    rep.function("autograd.util.subvals", T.subvals)
    rep.bound(f"{FN}: arity 0..{3 if tier == 'quick' else 4}; per argument plain/box/box-in-box; notrace mode; recursive-call "
              "outcome class; constructor raises or not - enumerated exhaustively. Trace ids symbolic; deeper nesting by the "
              "recursive-call stub (induction on top_trace).")
    npaths = 0
    for n, kinds, mode, inner_out, ctor_raises in cases(tier):
        case = f"n{n}.{''.join(kinds) or '-'}.{mode}.{inner_out}.{'raise' if ctor_raises else 'ok'}"

        def harness(L):
            return one_run(T, L, n, kinds, mode, inner_out, ctor_raises)

        results, _ = cx.explore(harness)
        for r in results:
            npaths += 1
            if r.exc is not None:
                rep.obligation(f"{FN}:{case}:no-unexpected-exception", False, "z3", 0, "E1b")
                m = cx.path_model(r.pc)
                rep.violation(f"{FN}:no-unexpected-exception", case, f"{type(r.exc).__name__}: {r.exc}",
                              replay=_spec(n, kinds, mode, inner_out, ctor_raises, m), solver_output=str(m))
                continue
            for cl, g in clauses(T, r.value, kinds):
                if only and not any(cl.startswith(p) for p in only):
                    continue
                verdict, m = cx.check_clause(rep, f"{FN}:{case}:{cl}", r.pc, g, tier,
                                             sample=(f"pc={r.pc} |- {z3.simplify(g)}" if npaths % 211 == 1 else None))
                if verdict != "proved":
                    m = m or cx.path_model(r.pc)
                    spec = _spec(n, kinds, mode, inner_out, ctor_raises, m)
                    ok, obs, exp = replay(spec)
                    rep.violation(f"{FN}:{cl}", case, f"concrete ids {spec['ids']}: {obs}",
                                  replay=spec, witness=not ok, solver_output=str(m))
    rep.extra["f_wrapped_paths"] = npaths


def _spec(n, kinds, mode, inner_out, ctor_raises, m):
    ids = {}
    if m is not None:
        for i, k in enumerate(kinds):
            if k != "p":
                ids[f"t{i}"] = int(m.eval(z3.Int(f"t{i}"), model_completion=True).as_long())
            if k == "n":
                ids[f"u{i}"] = int(m.eval(z3.Int(f"u{i}"), model_completion=True).as_long())
    return dict(module="contracts.tracer_primitive", n=n, kinds="".join(kinds), mode=mode, inner_out=inner_out,
                ctor_raises=ctor_raises, ids=ids)


class _ModelStub:
    """Leaf provider over a plain dict of concrete ids (native replay)."""

    def __init__(self, ids):
        self.ids = ids
        self.model = True

    def int(self, name):
        return int(self.ids.get(name, 0))


def replay(spec):
    import autograd.tracer as T

    kinds = tuple(spec["kinds"])
    L = _ModelStub(spec["ids"])
    try:
        o = one_run(T, L, spec["n"], kinds, spec["mode"], spec["inner_out"], spec["ctor_raises"])
    except Exception as e:
        return False, f"raised {type(e).__name__}: {e}", "no exception other than the constructor's"
    bad = []
    for cl, g in clauses(T, o, kinds):
        if not z3.is_true(z3.simplify(g)):
            bad.append(cl)
    return (not bad), (f"clauses violated natively: {bad}" if bad else "all clauses hold"), "W1..W7 of contracts/tracer_primitive.py"
