"""Bounded exact END-TO-END runs of the public operators on the real code (supplements to the operator/engine contracts; never proved).

P-ops   (C16) on polynomial maps R^(in) -> R^(out), ranks 0..2 both sides, exact symbolic entries: jacobian[o+i] = d out_o / d in_i with shape
        out+in; grad = jacobian for scalar outputs; elementwise_grad = column sums; hessian = jacobian of grad (symmetric); make_hvp, hessian_tensor_product,
        tensor_jacobian_product, make_jvp / deriv, make_jvp_reversemode, make_ggnvp equal the corresponding exact contractions; value_and_grad /
        grad_and_aux return the untouched primal / aux; argnum by position, tuple, list, name; extra positional and keyword arguments.
P-nest  (C08) all nestings of depth 2 and 3 over {grad, deriv(forward)} x closure patterns on polynomial bodies: result equals the exact nested
        derivative computed by the field's own .diff.
P-zero  (C14) outputs independent of the argument / through floor, sign, comparisons, argmax, shape queries: exact zero of the argument's
        (output's) space for every operator and both modes; x*floor(x) differentiates to floor(x).
P-hist  (C19) a canary set of differentiations gives identical results before and after histories of failing calls (forward failure, backward
        failure, warning promoted to error, each caught or not at an enclosing level) and inside recursion.
"""
import itertools
import warnings

import numpy as onp


def _sym():
    from vlib import symrun as S
    S.register()
    return S


def run_ops(rep):
    S = _sym()
    import autograd.numpy as anp
    from autograd import (deriv, elementwise_grad, grad, grad_and_aux, hessian, hessian_tensor_product, jacobian, make_ggnvp, make_hvp, make_jvp, make_vjp,
                          tensor_jacobian_product, value_and_grad)
    from autograd.differential_operators import grad_named, make_jvp_reversemode
    out = []
    Z = S.Sym(S.K(0))

    def eq(a, b):
        ea, eb = S.entries(a), S.entries(b)
        return S.shape_of(a) == S.shape_of(b) and all(p == q for p, q in zip(ea, eb))

    W = S.constarray([1, -2, 3, 0.5, 2, -1, 4, 1.5, -0.5, 2.5, 1, 3], (3, 4))
    fams = {
        "scalar->scalar": ((), lambda x: x * x * x + 2 * x),
        "vec->scalar": ((3,), lambda x: anp.sum(x * x * x) + x[0] * x[1] * x[2]),
        "vec->vec": ((3,), lambda x: anp.dot(x * x, W) + x[0] * anp.ones(4)),
        "mat->scalar": ((2, 2), lambda x: anp.sum(anp.dot(x, x) * x)),
        "mat->vec": ((2, 2), lambda x: anp.dot(x, x)[0] * x[1, 1]),
        "vec->mat": ((2,), lambda x: anp.outer(x * x, x) + x[1]),
        "scalar->vec": ((), lambda x: W[0] * x * x + W[1] * x * x * x),
        "mat->mat": ((2, 2), lambda x: anp.dot(x * x, x.T)),
    }
    for name, (ishape, f) in fams.items():
        x, n_in = S.symarray("x", ishape)
        names = [f"x{i}" for i in range(n_in)]
        y = f(x)
        ye = S.entries(y)
        oshape = S.shape_of(y)
        def guard(label, thunk):
            try:
                ok, detail = thunk()
                out.append((label, ok, detail))
            except Exception as e:  # the operator raised on exact entries: object-dtype artefact or "raises" - recorded, not a violation
                rep.note(f"P-ops {label}: not evaluable on exact entries ({type(e).__name__}: {str(e)[:70]})") if len(rep.notes) < 40 else None
        try:
            def t_jac():
                J = jacobian(f)(x)
                exp = [o.diff(nm) for o in ye for nm in names]
                return S.shape_of(J) == tuple(oshape) + tuple(ishape) and all(a == b for a, b in zip(S.entries(J), exp)), f"jacobian = all partials, shape out+in; got shape {S.shape_of(J)}"
            guard(f"jacobian|{name}", t_jac)
            V = S.symarray("v", ishape)[0]
            G = S.symarray("g", oshape)[0]
            exp_eg = [sum((o.diff(nm) for o in ye), Z) for nm in names]
            exp_jv = [sum((o.diff(nm) * v for nm, v in zip(names, S.entries(V))), Z) for o in ye]
            exp_tj = [sum((g * o.diff(nm) for g, o in zip(S.entries(G), ye)), Z) for nm in names]
            guard(f"elementwise_grad|{name}", lambda: (all(p_ == q_ for p_, q_ in zip(S.entries(elementwise_grad(f)(x)), exp_eg)), "elementwise_grad = column sums of the Jacobian"))

            def t_jvp():
                val, t = make_jvp(f)(x)(V)
                return eq(val, y) and all(p_ == q_ for p_, q_ in zip(S.entries(t), exp_jv)) and S.shape_of(t) == S.shape_of(y), "make_jvp = (f(x), J v)"
            guard(f"make_jvp|{name}", t_jvp)
            guard(f"make_jvp_reversemode|{name}", lambda: (all(p_ == q_ for p_, q_ in zip(S.entries(make_jvp_reversemode(f)(x)(V)), exp_jv)), "double-VJP trick = J v"))

            def t_tjp():
                tj = tensor_jacobian_product(f)(x, G)
                return all(p_ == q_ for p_, q_ in zip(S.entries(tj), exp_tj)) and S.shape_of(tj) == tuple(ishape), "TJP = G . J"
            guard(f"tensor_jacobian_product|{name}", t_tjp)
            if oshape == ():
                exp_g = [ye[0].diff(nm) for nm in names]

                def t_grad():
                    g = grad(f)(x)
                    return all(p_ == q_ for p_, q_ in zip(S.entries(g), exp_g)) and S.shape_of(g) == tuple(ishape), "grad = jacobian for scalar output"
                guard(f"grad|{name}", t_grad)

                def t_vg():
                    v_, g2 = value_and_grad(f)(x)
                    return eq(v_, y) and all(p_ == q_ for p_, q_ in zip(S.entries(g2), exp_g)), "value untouched, same gradient"
                guard(f"value_and_grad|{name}", t_vg)
                exph = [ye[0].diff(a).diff(b) for a in names for b in names]
                exphv = [sum((ye[0].diff(a).diff(b) * v for b, v in zip(names, S.entries(V))), Z) for a in names]

                def t_hess():
                    H = hessian(f)(x)
                    return all(a == b for a, b in zip(S.entries(H), exph)) and S.shape_of(H) == tuple(ishape) * 2, f"hessian = jacobian of gradient; shape {S.shape_of(H)}"
                guard(f"hessian|{name}", t_hess)
                guard(f"make_hvp|{name}", lambda: (all(a == b for a, b in zip(S.entries(make_hvp(f)(x)[0](V)), exphv)), "HVP = H v"))
                guard(f"hessian_tensor_product|{name}", lambda: (all(a == b for a, b in zip(S.entries(hessian_tensor_product(f)(x, V)), exphv)), "hessian_tensor_product = H v"))
                guard(f"deriv|{name}", lambda: (deriv(f)(x) == sum((ye[0].diff(nm) for nm in names), Z), "deriv = J . ones (f' for a scalar argument)"))
            if len(oshape) == 1 and len(ishape) == 1:
                Jm = [[o.diff(nm) for nm in names] for o in ye]
                Jv = [sum((Jm[o][i] * S.entries(V)[i] for i in range(n_in)), Z) for o in range(len(ye))]
                expg = [sum((Jm[o][i] * Jv[o] for o in range(len(ye))), Z) for i in range(n_in)]
                guard(f"make_ggnvp|{name}", lambda: (all(p_ == q_ for p_, q_ in zip(S.entries(make_ggnvp(f)(x)(V)), expg)), "GGN-vector product = J^T J v (g = 1/2 |.|^2)"))
                # a loss whose Hessian is NOT diagonal: g(y) = (sum y)^3 / 3 + |y|^2 / 2, H_g = 2 (sum y) 1 1^T + I
                sy = sum(ye, Z)
                HJv = [sum(((2 * sy + (1 if o == p_ else 0)) * Jv[p_] for p_ in range(len(ye))), Z) for o in range(len(ye))]
                expg2 = [sum((Jm[o][i] * HJv[o] for o in range(len(ye))), Z) for i in range(n_in)]
                gloss = lambda y_: anp.sum(y_) ** 3 / 3 + anp.sum(y_ * y_) / 2
                guard(f"make_ggnvp coupled g|{name}", lambda: (all(p_ == q_ for p_, q_ in zip(S.entries(make_ggnvp(f, gloss)(x)(V)), expg2)),
                                                             "GGN-vector product = J^T H_g(f(x)) J v for a loss with a full (non-diagonal) Hessian"))
        except Exception as e:
            out.append((f"ops|{name}", False, f"raised {type(e).__name__}: {str(e)[:120]}"))
    # argnum selection, extra args, kwargs
    a, b, c = S.sym("x0"), S.sym("x1"), S.sym("x2")
    h = lambda p, q, r=1, *, s=1: p * p * q + q * q * q * r + p * s
    try:
        out.append(("argnum=1", grad(h, 1)(a, b, c) == (a * a + 3 * b * b * c), "grad wrt position 1 with an extra positional"))
        out.append(("argnum=0 kwargs", grad(h, 0)(a, b, s=c) == (2 * a * b + c), "keyword argument passed through"))
        g01 = grad(h, (0, 1))(a, b, c)
        out.append(("argnum=(0,1)", isinstance(g01, tuple) and g01[0] == 2 * a * b + 1 and g01[1] == a * a + 3 * b * b * c, "tuple argnum gives a tuple of gradients"))
        g10 = grad(h, [1, 0])(a, b, c)
        out.append(("argnum=[1,0]", g10[1] == 2 * a * b + 1 and g10[0] == a * a + 3 * b * b * c, "list argnum, given order"))
        out.append(("grad_named", grad_named(lambda p, q: p * q * q, "q")(a, b) == 2 * a * b, "argument by name"))
        def _posonly(scale, /, p, q):
            return scale * p * q * q
        out.append(("grad_named positional-only before", grad_named(_posonly, "q")(c, a, b) == 2 * c * a * b, "a positional-only parameter before the named one still counts as a position"))
        def _kwonly(p, q, *rest, s=1):
            return p * q * q * s + sum(rest, 0 * p)
        out.append(("grad_named with *args and keyword-only", grad_named(_kwonly, "q")(a, b, s=c) == 2 * a * b * c, "name resolved among the positional parameters"))
        gv, aux = grad_and_aux(lambda p: (p * p * p, p * 2 + b))(a)
        out.append(("grad_and_aux", gv == 3 * a * a and aux == a * 2 + b, "aux returned untouched"))
        xv, nv = S.symarray("x", (2,), 3)
        Vv = S.symarray("v", (2,))[0]
        h2 = lambda p, q, r=1: p * p * anp.sum(q * q * q) * r
        exp_hv = [6 * a * a * xv[0] * Vv[0] * c, 6 * a * a * xv[1] * Vv[1] * c]
        out.append(("hessian_tensor_product argnum=1", all(p_ == q_ for p_, q_ in zip(S.entries(hessian_tensor_product(h2, 1)(a, xv, c, Vv)), exp_hv)), "HVP wrt argument 1 with extra args"))
        G1 = S.sym("g0")
        out.append(("tensor_jacobian_product argnum=1", all(p_ == q_ for p_, q_ in zip(S.entries(tensor_jacobian_product(h2, 1)(a, xv, c, G1)), [3 * a * a * xv[0] * xv[0] * c * G1, 3 * a * a * xv[1] * xv[1] * c * G1])), "TJP wrt argument 1"))
        out.append(("make_hvp argnum=1", all(p_ == q_ for p_, q_ in zip(S.entries(make_hvp(h2, 1)(a, xv, c)[0](Vv)), exp_hv)), "make_hvp wrt argument 1"))
        out.append(("jacobian argnum=1", all(p_ == q_ for p_, q_ in zip(S.entries(jacobian(lambda p, q: p * q * q, 1)(a, xv)), [2 * a * xv[0], Z, Z, 2 * a * xv[1]])), "jacobian wrt argument 1"))
        out.append(("elementwise_grad argnum=1", all(p_ == q_ for p_, q_ in zip(S.entries(elementwise_grad(lambda p, q: p * q * q, 1)(a, xv)), [2 * a * xv[0], 2 * a * xv[1]])), "elementwise_grad wrt argument 1"))
        out.append(("deriv argnum=1", deriv(lambda p, q: p * q * q * q, 1)(a, b) == 3 * a * b * b, "deriv wrt argument 1"))
        out.append(("argnum=-1", grad(lambda p, q: p * q * q, -1)(a, b) == 2 * a * b, "negative argnum"))
    except Exception as e:
        out.append(("argnum", False, f"raised {type(e).__name__}: {str(e)[:120]}"))
    # every public operator: differentiated argument at position 1, an extra positional AFTER it, a keyword-only option with a non-default value
    try:
        from autograd import checkpoint, hessian_vector_product, vector_jacobian_product
        d_ = S.sym("x5")
        qn = ["x3", "x4"]
        fs = lambda p_, q_, r_=1, *, s_=1: p_ * p_ * anp.sum(q_ * q_ * q_) * r_ + s_ * anp.sum(q_ * q_)
        fv = lambda p_, q_, r_=1, *, s_=1: q_ * q_ * q_ * p_ * r_ + s_ * q_
        ys, yv = fs(a, xv, c, s_=d_), S.entries(fv(a, xv, c, s_=d_))
        gs = [ys.diff(n_) for n_ in qn]
        Hs = [[ys.diff(n1).diff(n2) for n2 in qn] for n1 in qn]
        Jv = [[o.diff(n_) for n_ in qn] for o in yv]
        Ve = S.entries(Vv)
        Gv = S.symarray("g", (2,))[0]
        Ge = S.entries(Gv)
        Hv = [sum((Hs[i][j] * Ve[j] for j in range(2)), Z) for i in range(2)]
        JV = [sum((Jv[o][i] * Ve[i] for i in range(2)), Z) for o in range(2)]
        GJ = [sum((Ge[o] * Jv[o][i] for o in range(2)), Z) for i in range(2)]
        same = lambda got, exp: len(S.entries(got)) == len(exp) and all(p_ == q_ for p_, q_ in zip(S.entries(got), exp))
        kwprogs = [
            ("grad", lambda: same(grad(fs, 1)(a, xv, c, s_=d_), gs)),
            ("value_and_grad", lambda: (lambda r_: r_[0] == ys and same(r_[1], gs))(value_and_grad(fs, 1)(a, xv, c, s_=d_))),
            ("elementwise_grad", lambda: same(elementwise_grad(fv, 1)(a, xv, c, s_=d_), [Jv[0][i] + Jv[1][i] for i in range(2)])),
            ("jacobian", lambda: same(jacobian(fv, 1)(a, xv, c, s_=d_), [Jv[o][i] for o in range(2) for i in range(2)])),
            ("hessian", lambda: same(hessian(fs, 1)(a, xv, c, s_=d_), [Hs[i][j] for i in range(2) for j in range(2)])),
            ("make_vjp", lambda: (lambda r_: same(r_[0](Gv), GJ) and same(r_[1], yv))(make_vjp(fv, 1)(a, xv, c, s_=d_))),
            ("make_jvp", lambda: (lambda r_: same(r_[0], yv) and same(r_[1], JV))(make_jvp(fv, 1)(a, xv, c, s_=d_)(Vv))),
            ("make_jvp_reversemode", lambda: same(make_jvp_reversemode(fv, 1)(a, xv, c, s_=d_)(Vv), JV)),
            ("make_hvp", lambda: same(make_hvp(fs, 1)(a, xv, c, s_=d_)[0](Vv), Hv)),
            ("hessian_tensor_product", lambda: same(hessian_tensor_product(fs, 1)(a, xv, c, Vv, s_=d_), Hv)),
            ("hessian_vector_product", lambda: same(hessian_vector_product(fs, 1)(a, xv, c, Vv, s_=d_), Hv)),
            ("tensor_jacobian_product", lambda: same(tensor_jacobian_product(fv, 1)(a, xv, c, Gv, s_=d_), GJ)),
            ("vector_jacobian_product", lambda: same(vector_jacobian_product(fv, 1)(a, xv, c, Gv, s_=d_), GJ)),
            ("make_ggnvp", lambda: same(make_ggnvp(fv, f_argnum=1)(a, xv, c, s_=d_)(Vv), [sum((Jv[o][i] * JV[o] for o in range(2)), Z) for i in range(2)])),
            ("grad_and_aux", lambda: (lambda r_: same(r_[0], gs) and r_[1] == d_ * 2)(grad_and_aux(lambda *a_, **k_: (fs(*a_, **k_), k_["s_"] * 2), 1)(a, xv, c, s_=d_))),
            ("deriv", lambda: deriv(fs, 0)(a, xv, c, s_=d_) == ys.diff("x0")),
            ("grad_named", lambda: same(grad_named(fs, "q_")(a, xv, c, s_=d_), gs)),
            ("checkpoint", lambda: same(grad(checkpoint(fs), 1)(a, xv, c, s_=d_), gs)),
            ("grad(checkpoint) order 2", lambda: same(hessian(checkpoint(fs), 1)(a, xv, c, s_=d_), [Hs[i][j] for i in range(2) for j in range(2)])),
        ]
        for lab, run in kwprogs:
            try:
                with warnings.catch_warnings():
                    warnings.simplefilter("ignore")
                    okk = bool(run())
                out.append((f"args+kwargs|{lab}", okk, f"{lab}(f, 1)(p, q, r, s_=d): the result is not the exact derivative with respect to q at (p, q, r, s_=d) - extra positional / keyword arguments must reach f unchanged"))
            except Exception as e:
                out.append((f"args+kwargs|{lab}", False, f"raised {type(e).__name__}: {str(e)[:120]}"))
    except Exception as e:
        out.append(("args+kwargs", False, f"raised {type(e).__name__}: {str(e)[:120]}"))
    for lab, ok, d in out:
        rep.bounded_case(("P-ops", lab), sample=dict(case=lab, clause="P-ops", result=d) if ok and len(rep.bounded_samples) < 4 else None)
        if not ok:
            rep.violation("PROG:P-ops", lab, f"{lab}: {d}", replay=dict(module="contracts.programs_exact", part="ops", label=lab), witness=True)


def run_nest(rep):
    S = _sym()
    from autograd import deriv, grad
    ops = {"R": grad, "F": deriv}
    x0, y0, z0 = S.sym("x0"), S.sym("x1"), S.sym("x2")
    out = []
    # depth 2: D_x [ x^a * D_y [ body(x, y) ](y0) ]
    bodies2 = {"xy2": lambda x, y: x * y * y, "x2y3+y": lambda x, y: x * x * y * y * y + y, "only-x": lambda x, y: x * x * x, "only-y": lambda x, y: y * y * y, "const": lambda x, y: S.Sym(S.K(5)) + 0 * y}
    for (m1, m2), (bn, body) in itertools.product(itertools.product("RF", repeat=2), bodies2.items()):
        try:
            inner = lambda x: ops[m2](lambda y: body(x, y))(y0)
            with warnings.catch_warnings():
                warnings.simplefilter("ignore")
                r = ops[m1](lambda x: x * inner(x) + inner(x) * inner(x))(x0)
            e_in = body(x0, y0).diff("x1")
            exp = (x0 * e_in + e_in * e_in).diff("x0")
            out.append((f"depth2|{m1}{m2}|{bn}", r == exp, f"got {r}, exact {exp}"))
        except Exception as e:
            out.append((f"depth2|{m1}{m2}|{bn}", False, f"raised {type(e).__name__}: {str(e)[:100]}"))
    # depth 3 with every closure subset
    bodies3 = {"xyz": lambda x, y, z: x * y * z * z + x * x * z * z * z * y, "yz": lambda x, y, z: y * z * z, "xz": lambda x, y, z: x * x * z * z, "z": lambda x, y, z: z * z * z}
    for ms, (bn, body) in itertools.product(itertools.product("RF", repeat=3), bodies3.items()):
        try:
            with warnings.catch_warnings():
                warnings.simplefilter("ignore")
                f = lambda x: x * ops[ms[1]](lambda y: y * ops[ms[2]](lambda z: body(x, y, z))(z0) + x * y * y)(y0)
                r = ops[ms[0]](f)(x0)
            i3 = body(x0, y0, z0).diff("x2")
            i2 = (y0 * i3 + x0 * y0 * y0).diff("x1")
            exp = (x0 * i2).diff("x0")
            out.append((f"depth3|{''.join(ms)}|{bn}", r == exp, f"got {r}, exact {exp}"))
        except Exception as e:
            out.append((f"depth3|{''.join(ms)}|{bn}", False, f"raised {type(e).__name__}: {str(e)[:100]}"))
    # an inner differentiation whose function IGNORES its own variable but depends on the outer one: the value it hands back is still a traced
    # quantity of the outer level (value_and_grad / make_vjp / make_jvp primal results), and its derivative is an exact zero of the right space
    try:
        from autograd import make_jvp as mjvp, make_vjp as mvjp, value_and_grad
        import autograd.builtins as B_
        for m1 in "RF":
            progs = {
                "value_and_grad value": lambda x: value_and_grad(lambda y: x * x * 3)(y0)[0] * x,
                "value_and_grad grad": lambda x: value_and_grad(lambda y: x * x * 3)(y0)[1] + x * x,
                "make_vjp primal": lambda x: mvjp(lambda y: x * x * x)(y0)[1],
                "make_jvp primal": lambda x: mjvp(lambda y: x * x * 5)(y0)(S.Sym(S.K(1)))[0],
                "inner depends on both, value used": lambda x: value_and_grad(lambda y: x * x * y)(y0)[0] + value_and_grad(lambda y: x * y * y)(y0)[1],
                # containers built at two different levels and concatenated (SequenceBox.__add__ / __radd__)
                "tuple(inner) + tuple(outer)": lambda x: ops["R"](lambda y: (lambda q: q[0] * q[2] + q[1] * q[3])(B_.tuple((y, y * y)) + B_.tuple((x * y, x))))(y0),
                "tuple(outer) + tuple(inner)": lambda x: ops["R"](lambda y: (lambda q: q[0] * q[2] + q[1] * q[3] * y)(B_.tuple((x * x, x)) + B_.tuple((y, y * y))))(y0),
                "list(inner) + list(outer) fwd inner": lambda x: ops["F"](lambda y: (lambda q: q[0] * q[1] * q[2])(B_.list([y * y]) + B_.list([x, x * y])))(y0),
            }
            exps = {
                "value_and_grad value": (x0 * x0 * 3 * x0),
                "value_and_grad grad": (x0 * x0),
                "make_vjp primal": (x0 * x0 * x0),
                "make_jvp primal": (x0 * x0 * 5),
                "inner depends on both, value used": (x0 * x0 * y0 + 2 * x0 * y0),
                "tuple(inner) + tuple(outer)": ((y0 * (x0 * y0) + y0 * y0 * x0).diff("x1")),
                "tuple(outer) + tuple(inner)": ((x0 * x0 * y0 + x0 * y0 * y0 * y0).diff("x1")),
                "list(inner) + list(outer) fwd inner": ((y0 * y0 * x0 * x0 * y0).diff("x1")),
            }
            for lab, prog in progs.items():
                try:
                    with warnings.catch_warnings():
                        warnings.simplefilter("ignore")
                        r = ops[m1](prog)(x0)
                    exp = exps[lab].diff("x0")
                    out.append((f"levels|{m1}|{lab}", S.eqsym(S.entries(r)[0], exp), f"got {r!r}, exact {exp!r}"))
                except NotImplementedError as e:     # no forward rule for a container primitive: a loud failure is allowed
                    rep.note(f"P-nest levels|{m1}|{lab}: {str(e)[:80]}") if len(rep.notes) < 40 else None
                except Exception as e:
                    out.append((f"levels|{m1}|{lab}", False, f"raised {type(e).__name__}: {str(e)[:100]}"))
    except Exception as e:
        out.append(("levels", False, f"raised {type(e).__name__}: {str(e)[:100]}"))
    out += _fixed_point_cases(S)
    for lab, ok, d in out:
        rep.bounded_case(("P-nest", lab), sample=dict(case=lab, clause="P-nest") if ok and len(rep.bounded_samples) < 3 else None)
        if not ok:
            rep.violation("PROG:P-nest", lab, f"{lab}: {d}", replay=dict(module="contracts.programs_exact", part="nest", label=lab), witness=True)


def _fixed_point_cases(S):
    """autograd.misc.fixed_points.fixed_point (implicit differentiation; its VJP nests make_vjp inside a second fixed_point whose parameters
    are traced at the OUTER level): exact runs on a nilpotent contraction  f(a)(x) = a*b*e0 + a*(N x),  N the 2x2 shift, whose fixed point
    (a*b, a^2*b) is reached after two exact iterations (distance = exact equality of field elements), so every nesting of reverse mode must
    return the field's own derivative of  a*b + a^2*b."""
    import autograd.numpy as anp
    from autograd import grad
    from autograd.builtins import tuple as atuple
    from autograd.misc.fixed_points import fixed_point
    out = []
    a0, b0 = S.sym("x0"), S.sym("x1")
    e0, N, z = S.constarray([1, 0], (2,)), S.constarray([0, 0, 1, 0], (2, 2)), S.constarray([0, 0], (2,))
    dist = lambda x, y: 0 if all(S.eqsym(p, q) for p, q in zip(S.entries(x), S.entries(y))) else 1
    fp = lambda a, b: anp.sum(fixed_point(lambda ab: (lambda x: ab[0] * ab[1] * e0 + ab[0] * anp.dot(N, x)), atuple((a, b)), z, dist, 0))
    fp1 = lambda a: anp.sum(fixed_point(lambda a_: (lambda x: a_ * a_ * e0 + a_ * anp.dot(N, x)), a, z, dist, 0))
    F = a0 * b0 + a0 * a0 * b0
    F1 = a0 * a0 + a0 * a0 * a0
    progs = [
        ("value", lambda: fp(a0, b0), F),
        ("R_a", lambda: grad(fp, 0)(a0, b0), F.diff("x0")),
        ("R_b", lambda: grad(fp, 1)(a0, b0), F.diff("x1")),
        ("R_a R_a", lambda: grad(grad(fp, 0), 0)(a0, b0), F.diff("x0").diff("x0")),
        ("R_a R_b", lambda: grad(lambda a: grad(fp, 1)(a, b0))(a0), F.diff("x1").diff("x0")),
        ("R_a [a * R_b]", lambda: grad(lambda a: a * grad(lambda b: fp(a, b))(b0))(a0), (a0 * F.diff("x1")).diff("x0")),
        ("R_b [b * R_a + (R_a)^2]", lambda: grad(lambda b: b * grad(lambda a: fp(a, b))(a0) + grad(lambda a: fp(a, b))(a0) ** 2)(b0), (b0 * F.diff("x0") + F.diff("x0") * F.diff("x0")).diff("x1")),
        ("1-param R R", lambda: grad(grad(fp1))(a0), F1.diff("x0").diff("x0")),
        ("1-param R [a * R]", lambda: grad(lambda a: a * grad(fp1)(a))(a0), (a0 * F1.diff("x0")).diff("x0")),
    ]
    for lab, run, exp in progs:
        try:
            with warnings.catch_warnings():
                warnings.simplefilter("ignore")
                r = run()
            ok = (isinstance(r, S.Sym) or (isinstance(r, onp.ndarray) and r.shape == ())) and S.eqsym(S.entries(r)[0], exp)   # a 0-d object array is the exact engine's scalar too
            out.append((f"fixed_point|{lab}", ok, f"got {r!r} ({type(r).__name__}), exact {exp!r}"))
        except Exception as e:
            out.append((f"fixed_point|{lab}", False, f"raised {type(e).__name__}: {str(e)[:100]}"))
    # third order in floats (the exact zero of an object array is a Python int, which has no vector space: E4 artefact at depth 3)
    try:
        e0f, Nf = onp.array([1.0, 0.0]), onp.array([[0.0, 0.0], [1.0, 0.0]])
        fpf = lambda a: anp.sum(fixed_point(lambda a_: (lambda x: a_ * a_ * e0f + a_ * anp.dot(Nf, x)), a, onp.zeros(2), lambda x, y: float(onp.max(onp.abs(x - y))), 1e-13))
        r3 = grad(grad(grad(fpf)))(1.5)
        r2 = grad(grad(fpf))(1.5)
        ok = type(r3) in (float, onp.float64) and abs(r3 - 6.0) < 1e-9 and abs(r2 - (2 + 6 * 1.5)) < 1e-9
        out.append(("fixed_point|float R R R", ok, f"third derivative of a^2 + a^3 at 1.5: got {r3!r} (exact 6.0); second: got {r2!r} (exact 11.0)"))
    except Exception as e:
        out.append(("fixed_point|float R R R", False, f"raised {type(e).__name__}: {str(e)[:100]}"))
    return out


def run_zero(rep):
    import autograd.numpy as anp
    from autograd import deriv, elementwise_grad, grad, jacobian, make_jvp, make_vjp, value_and_grad
    from autograd.builtins import dict as adict
    from autograd.builtins import tuple as atuple
    out = []
    x = onp.array([0.3, 1.7, -2.4])

    def same(a, b):
        a, b = onp.asarray(a), onp.asarray(b)
        return a.shape == b.shape and a.dtype.kind == b.dtype.kind and bool(onp.all(a == b))
    with warnings.catch_warnings():
        warnings.simplefilter("ignore")
        tests = [
            ("grad const", lambda: grad(lambda v: 3.0)(x), onp.zeros(3)),
            ("grad const scalar arg", lambda: grad(lambda v: 3.0)(1.5), 0.0),
            ("grad closure-only", lambda: grad(lambda v: onp.sum(x))(onp.ones(2)), onp.zeros(2)),
            ("elementwise_grad const", lambda: elementwise_grad(lambda v: onp.ones(3))(x), onp.zeros(3)),
            ("jacobian const", lambda: jacobian(lambda v: onp.ones(2))(x), onp.zeros((2, 3))),
            ("deriv const", lambda: deriv(lambda v: 3.0)(1.5), 0.0),
            ("make_jvp const array", lambda: make_jvp(lambda v: onp.ones((2, 2)))(x)(onp.ones(3))[1], onp.zeros((2, 2))),
            ("value_and_grad const", lambda: value_and_grad(lambda v: 3.0)(x)[1], onp.zeros(3)),
            ("grad floor", lambda: grad(lambda v: anp.sum(anp.floor(v)))(x), onp.zeros(3)),
            ("grad x*floor(x)", lambda: grad(lambda v: anp.sum(v * anp.floor(v)))(x), onp.floor(x)),
            ("deriv x*floor(x)", lambda: deriv(lambda v: v * anp.floor(v))(1.7), 1.0),
            ("grad sign/round/ceil", lambda: grad(lambda v: anp.sum(anp.sign(v) + anp.round(v) + anp.ceil(v) + anp.trunc(v) + anp.rint(v)))(x), onp.zeros(3)),
            ("grad comparison", lambda: grad(lambda v: anp.sum((v > 0.5) * 1.0))(x), onp.zeros(3)),
            ("grad argmax index", lambda: grad(lambda v: 1.0 * anp.argmax(v) + 1.0 * v.shape[0] + 1.0 * anp.ndim(v) + len(v))(x), onp.zeros(3)),
            ("grad x*(x>0)", lambda: grad(lambda v: anp.sum(v * (v > 0)))(x), (x > 0) * 1.0),
            ("grad where(cond(x))", lambda: grad(lambda v: anp.sum(anp.where(v > 0, v * v, 0.0)))(x), onp.where(x > 0, 2 * x, 0.0)),
            ("if-branch on traced", lambda: grad(lambda v: v * v if v > 1 else 3.0 * v)(2.0), 4.0),
            ("container zero (tuple)", lambda: grad(lambda p: 3.0)((1.0, onp.ones(2))), (0.0, onp.zeros(2))),
            ("container zero (dict)", lambda: grad(lambda p: p["a"] * 2.0)({"a": 1.0, "b": onp.ones(2)}), {"a": 2.0, "b": onp.zeros(2)}),
            ("complex arg zero", lambda: grad(lambda v: 3.0)(1.0 + 2j), 0.0 + 0.0j),
            ("vjp zero ignores g", lambda: make_vjp(lambda v: onp.ones(2))(x)[0](onp.array([5.0, 7.0])), onp.zeros(3)),
            ("zeros_like/ones_like", lambda: grad(lambda v: anp.sum(anp.zeros_like(v) + anp.ones_like(v) * v))(x), onp.ones(3)),
            # entries the output does not depend on get an EXACT zero even when the cotangent reaching them is infinite / NaN
            ("nan_to_num at non-finite entries, infinite cotangent", lambda: grad(lambda v: anp.sum(anp.sqrt(anp.nan_to_num(v))))(onp.array([onp.nan, 4.0, onp.inf])), onp.array([0.0, 0.25, 0.0])),
            ("where masks an infinite slope", lambda: grad(lambda v: anp.sum(anp.where(v > 0, anp.sqrt(anp.where(v > 0, v, 1.0)), 0.0)))(onp.array([0.0, 4.0, -1.0])), onp.array([0.0, 0.25, 0.0])),
            ("x == x NaN mask", lambda: grad(lambda v: anp.sum(anp.where(v == v, v * 2.0, 0.0)))(onp.array([onp.nan, 1.0, 2.0])), onp.array([0.0, 2.0, 2.0])),
            ("x*round(x, 1)", lambda: grad(lambda v: anp.sum(v * anp.round(v, 1)))(onp.array([0.73, -1.31, 2.44])), onp.array([0.7, -1.3, 2.4])),
            ("x*around(x, decimals=2)", lambda: grad(lambda v: anp.sum(v * anp.around(v, decimals=2)))(onp.array([0.733, -1.318, 2.444])), onp.array([0.73, -1.32, 2.44])),
            ("x*x.round(1) method", lambda: grad(lambda v: anp.sum(v * v.round(1)))(onp.array([0.73, -1.31, 2.44])), onp.array([0.7, -1.3, 2.4])),
            ("round(x, 1) value is plain", lambda: make_vjp(lambda v: anp.round(v, 1) * 1.0 + v)(onp.array([0.73]))[1], onp.array([0.7 + 0.73])),
            # the exact zero is an element of the ARGUMENT's space: same shape and (for low-precision / complex64 arguments) same dtype  [dtype] = exact dtype compared
            ("grad const float32 arg [dtype]", lambda: grad(lambda v: 3.0)(onp.ones(3, dtype=onp.float32)), onp.zeros(3, dtype=onp.float32)),
            ("grad const float16 arg [dtype]", lambda: grad(lambda v: 3.0)(onp.ones((2, 2), dtype=onp.float16)), onp.zeros((2, 2), dtype=onp.float16)),
            ("grad const complex64 arg [dtype]", lambda: grad(lambda v: 3.0)(onp.ones(2, dtype=onp.complex64)), onp.zeros(2, dtype=onp.complex64)),
            ("jvp const float32 arg [dtype]", lambda: make_jvp(lambda v: v * 0 + 1.0 if False else onp.ones(2, dtype=onp.float32))(onp.ones(3, dtype=onp.float32))(onp.ones(3, dtype=onp.float32))[1], onp.zeros(2, dtype=onp.float32)),
            ("grad floor float32 [dtype]", lambda: grad(lambda v: anp.sum(anp.floor(v)))(onp.array([0.3, 1.7], dtype=onp.float32)), onp.zeros(2, dtype=onp.float32)),
            ("unused entries float32 [dtype]", lambda: grad(lambda v: v[0] * 2)(onp.array([0.5, 1.5, 2.5], dtype=onp.float32)), onp.array([2.0, 0.0, 0.0], dtype=onp.float32)),
            ("grad const float64 arg [dtype]", lambda: grad(lambda v: 3.0)(x), onp.zeros(3)),
            # an EMPTY output (diff along an axis with fewer than n + 1 entries) depends on nothing: zero of the argument's shape
            ("diff n=3 on length 2", lambda: grad(lambda v: anp.sum(anp.diff(v, n=3)) + 0.0)(onp.array([1.0, 2.0])), onp.zeros(2)),
            ("diff n=2 axis=0 on (1,3)", lambda: grad(lambda v: anp.sum(anp.diff(v, n=2, axis=0)) + 0.0)(onp.ones((1, 3))), onp.zeros((1, 3))),
            ("diff n=4 axis=1 on (2,3)", lambda: make_vjp(lambda v: anp.diff(v, n=4, axis=1))(onp.ones((2, 3)))[0](onp.zeros((2, 0))), onp.zeros((2, 3))),
            ("empty slice", lambda: grad(lambda v: anp.sum(v[3:]) + 0.0)(x), onp.zeros(3)),
            ("linspace num=1 wrt stop", lambda: grad(lambda v: anp.sum(anp.linspace(0.5, v, 1)) + 0.0)(2.0), 0.0),
            ("linspace num=1 wrt stop (jvp)", lambda: make_jvp(lambda v: anp.linspace(0.5, v, 1))(2.0)(1.0)[1], onp.zeros(1)),
            ("make_jvp_reversemode const output", lambda: __import__("autograd.differential_operators", fromlist=["x"]).make_jvp_reversemode(lambda v: onp.ones(2))(x)(onp.ones(3)), onp.zeros(2)),
            ("make_jvp_reversemode floor output", lambda: __import__("autograd.differential_operators", fromlist=["x"]).make_jvp_reversemode(lambda v: anp.floor(v[:2]) * 1.0)(x)(onp.ones(3)), onp.zeros(2)),
            ("maximum with -inf", lambda: grad(lambda v: anp.sum(anp.maximum(v, -onp.inf) * 3.0))(onp.array([1.0, -2.0])), onp.array([3.0, 3.0])),
        ]
        for lab, fn, exp in tests:
            try:
                got = fn()
                if isinstance(exp, tuple):
                    ok = isinstance(got, tuple) and len(got) == len(exp) and all(same(a, b) for a, b in zip(got, exp))
                elif isinstance(exp, dict):
                    ok = isinstance(got, dict) and list(got) == list(exp) and all(same(got[k], exp[k]) for k in exp)
                else:
                    ok = got is not None and same(got, exp) and ("[dtype]" not in lab or onp.asarray(got).dtype == onp.asarray(exp).dtype)
                out.append((lab, ok, f"got {got!r}, expected {exp!r}"))
            except Exception as e:
                out.append((lab, False, f"raised {type(e).__name__}: {str(e)[:100]}"))
    for lab, ok, d in out:
        rep.bounded_case(("P-zero", lab), sample=dict(case=lab, clause="P-zero") if ok and len(rep.bounded_samples) < 3 else None)
        if not ok:
            rep.violation("PROG:P-zero", lab, f"{lab}: {d}", replay=dict(module="contracts.programs_exact", part="zero", label=lab), witness=True)


def run_history(rep):
    import autograd.numpy as anp
    from autograd import deriv, grad, hessian, jacobian
    from autograd.extend import defvjp, primitive
    x = onp.array([0.5, -1.5, 2.0])

    @primitive
    def bad_bwd(v):
        return v * 2.0
    defvjp(bad_bwd, lambda ans, v: lambda g: (_ for _ in ()).throw(RuntimeError("backward failure")))

    def canary():
        with warnings.catch_warnings():
            warnings.simplefilter("ignore")
            return [grad(lambda v: anp.sum(anp.sin(v) * v))(x), hessian(lambda v: anp.sum(v ** 3))(x), deriv(lambda t: t * anp.exp(t))(0.7),
                    grad(lambda a: a * grad(lambda b: a * b * b)(2.0))(3.0), jacobian(lambda v: anp.outer(v, v))(x), grad(lambda a: deriv(lambda b: a * b * b * a)(1.5))(2.0)]

    def same(A, B):
        return all(onp.array_equal(onp.asarray(a), onp.asarray(b)) for a, b in zip(A, B))
    base = canary()

    def fail_fwd(v):
        raise ValueError("forward failure")

    def hist_fwd():
        grad(fail_fwd)(1.0)

    def hist_fwd_nested_caught():
        def outer(a):
            try:
                grad(fail_fwd)(a)
            except ValueError:
                pass
            return a * grad(lambda b: a * b * b)(2.0)
        r = grad(outer)(3.0)
        if r != 24.0:
            raise AssertionError(f"enclosing differentiation after a caught inner failure returned {r}, expected 24.0")

    def hist_bwd():
        grad(lambda v: anp.sum(bad_bwd(v)))(x)

    def hist_warn():
        with warnings.catch_warnings():
            warnings.simplefilter("error")
            grad(lambda v: 3.0)(1.0)

    def hist_warn_nested_caught():
        def outer(a):
            try:
                with warnings.catch_warnings():
                    warnings.simplefilter("error")
                    grad(lambda b: 3.0)(a)
            except UserWarning:
                pass
            return a * a * grad(lambda b: a * b)(1.0)
        r = grad(outer)(2.0)
        if r != 12.0:
            raise AssertionError(f"got {r}, expected 12.0")

    def hist_recursive():
        def rec(a, n):
            return a if n == 0 else a * grad(lambda b: rec(b, n - 1) * b)(a)
        r = grad(lambda a: rec(a, 3))(1.5)
        return r
    hists = dict(fwd=hist_fwd, fwd_nested_caught=hist_fwd_nested_caught, bwd=hist_bwd, warn=hist_warn, warn_nested_caught=hist_warn_nested_caught, recursive=hist_recursive)
    out = []
    for k in (1, 2, 3):
        for seq in itertools.product(hists, repeat=k) if k < 3 else [("fwd", "warn", "bwd"), ("bwd", "fwd_nested_caught", "warn_nested_caught"), ("recursive", "fwd", "recursive")]:
            err = None
            for hname in seq:
                try:
                    hists[hname]()
                except (ValueError, RuntimeError, UserWarning):
                    pass
                except AssertionError as e:
                    err = str(e)
            after = canary()
            out.append(("->".join(seq), err is None and same(base, after), err or ("canary results differ from the fresh ones" if not same(base, after) else "identical")))
    r1, r2 = hist_recursive(), hist_recursive()
    out.append(("recursive-reentrant", r1 == r2, f"{r1} vs {r2}"))
    for lab, ok, d in out:
        rep.bounded_case(("P-hist", lab), sample=dict(case=lab, clause="P-hist") if ok and len(rep.bounded_samples) < 3 else None)
        if not ok:
            rep.violation("PROG:P-hist", lab, f"history {lab}: {d}", replay=dict(module="contracts.programs_exact", part="hist", label=lab), witness=True)


def replay(spec):
    from vlib.common import Report
    r = Report("replay", "quick", "other", "replay")
    r.known = {"findings": []}
    {"ops": run_ops, "nest": run_nest, "zero": run_zero, "hist": run_history}[spec["part"]](r)
    bad = [v for v in r.violations if v["case"] == spec["label"]]
    return (not bad), (bad[0]["what"] if bad else "holds"), "see contracts/programs_exact.py"
