"""Bounded NUMERIC stand-in for the rules no exact engine reaches (complex structural rules, fft, linalg)  - DESIGN §5 C01/C09.

Contract on the real code, checked on concrete dyadic inputs (never counted as proved; tolerance stated):
    N-vjp   make_vjp(f)(x)[0](g)  ==  conj(J_R^T conj g)     (for real x: its real part; for real f and x simply J^T g)
    N-jvp   make_jvp(f)(x)(t)[1]  ==  J_R t                   (where a JVP rule exists)
J_R from central differences (h = 1e-6) of the plain-NumPy evaluation of the same call in the real and imaginary directions of
every input entry.  Exact up to rounding for the R-linear maps (tensordot/einsum/fft/shape ops/real/imag/conj...), 1e-5 relative
for the non-linear ones (linalg).  This is a sampled check at one generic point per configuration: a bounded stand-in, labelled so.
"""
import multiprocessing as mp
import warnings

import numpy as onp

TOL = 2e-5

_np = "__import__('numpy')"
CASES = [
    # (label, source f(anp, *args), [(shape, kind)], argnums)
    ("tensordot(z, c0d, 0)", "lambda anp, x, y: anp.tensordot(x, y, 0)", [((3,), "C"), ((), "C")], (0, 1)),
    ("tensordot(c0d, z, 0)", "lambda anp, x, y: anp.tensordot(x, y, 0)", [((), "C"), ((2, 2), "C")], (0, 1)),
    ("inner(z, c0d)", "lambda anp, x, y: anp.inner(x, y)", [((3,), "C"), ((), "C")], (0, 1)),
    ("inner(real, complex)", "lambda anp, x, y: anp.inner(x, y)", [((3,), "R"), ((3,), "C")], (0, 1)),
    ("tensordot(axes=1) CC", "lambda anp, x, y: anp.tensordot(x, y, 1)", [((2, 3), "C"), ((3, 2), "C")], (0, 1)),
    ("tensordot(axes pairs) RC", "lambda anp, x, y: anp.tensordot(x, y, axes=([0, 1], [1, 0]))", [((2, 3), "R"), ((3, 2, 2), "C")], (0, 1)),
    ("dot CC", "lambda anp, x, y: anp.dot(x, y)", [((2, 3), "C"), ((3,), "C")], (0, 1)),
    ("concatenate CR axis0", "lambda anp, x, y: anp.concatenate([x, y])", [((2,), "C"), ((3,), "R")], (0, 1)),
    ("hstack RC", "lambda anp, x, y: anp.hstack([x, y])", [((2,), "R"), ((3,), "C")], (0, 1)),
    ("vstack RC", "lambda anp, x, y: anp.vstack([x, y])", [((2,), "R"), ((2,), "C")], (0, 1)),
    ("append RC", "lambda anp, x, y: anp.append(x, y)", [((2,), "R"), ((3,), "C")], (0, 1)),
    ("stack RC", "lambda anp, x, y: anp.stack([x, y])", [((2,), "R"), ((2,), "C")], (0, 1)),
    ("array RC", "lambda anp, x, y: anp.array([x, y])", [((2,), "R"), ((2,), "C")], (0, 1)),
    ("where RC", "lambda anp, x, y: anp.where(__import__('numpy').array([True, False, True]), x, y)", [((3,), "R"), ((3,), "C")], (0, 1)),
    ("power complex base real exponent", "lambda anp, x, y: anp.power(x, y)", [((3,), "C"), ((3,), "R")], (0, 1)),
    ("power complex base complex exponent", "lambda anp, x, y: x ** y", [((2,), "C"), ((2,), "C")], (0, 1)),
    ("power complex base scalar exponent", "lambda anp, x, y: x ** y", [((2, 2), "C"), ((), "R")], (0, 1)),
    ("power real base complex exponent", "lambda anp, x, y: anp.power(x, y)", [((3,), "P"), ((3,), "C")], (0, 1)),
    ("imag(power)", "lambda anp, x, y: anp.imag(x ** y)", [((2,), "C"), ((2,), "R")], (0, 1)),
    ("inner 2-D x 3-D", "lambda anp, x, y: anp.inner(x, y)", [((2, 3), "R"), ((2, 4, 3), "R")], (0, 1)),
    ("inner 3-D x 3-D", "lambda anp, x, y: anp.inner(x, y)", [((2, 2, 3), "R"), ((4, 2, 3), "R")], (0, 1)),
    ("inner 1-D x 3-D equal batch", "lambda anp, x, y: anp.inner(x, y)", [((3,), "R"), ((2, 2, 3), "R")], (0, 1)),
    ("inner 3-D x 1-D", "lambda anp, x, y: anp.inner(x, y)", [((2, 2, 3), "C"), ((3,), "R")], (0, 1)),
    ("dot CR", "lambda anp, x, y: anp.dot(x, y)", [((2, 3), "C"), ((3, 2), "R")], (0, 1)),
    ("dot RC 2-D", "lambda anp, x, y: anp.dot(x, y)", [((2, 3), "R"), ((3, 2), "C")], (0, 1)),
    ("dot RC 1-D", "lambda anp, x, y: anp.dot(x, y)", [((3,), "R"), ((3,), "C")], (0, 1)),
    ("matmul RC 2-D", "lambda anp, x, y: anp.matmul(x, y)", [((2, 3), "R"), ((3, 2), "C")], (0, 1)),
    ("tensordot RC", "lambda anp, x, y: anp.tensordot(x, y, axes=([1], [0]))", [((2, 3), "R"), ((3, 2), "C")], (0, 1)),
    ("inner RC 2-D", "lambda anp, x, y: anp.inner(x, y)", [((2, 3), "R"), ((2, 3), "C")], (0, 1)),
    ("outer RC", "lambda anp, x, y: anp.outer(x, y)", [((2,), "R"), ((3,), "C")], (0, 1)),
    ("einsum RC 2-D", "lambda anp, x, y: anp.einsum('ij,jk->ik', x, y)", [((2, 3), "R"), ((3, 2), "C")], (0, 1)),
    ("kron CR", "lambda anp, x, y: anp.kron(x, y)", [((2, 2), "C"), ((2,), "R")], (0, 1)),
    ("matmul CC", "lambda anp, x, y: anp.matmul(x, y)", [((2, 2, 3), "C"), ((3, 2), "C")], (0, 1)),
    ("matmul RC", "lambda anp, x, y: x @ y", [((2, 3), "R"), ((3,), "C")], (0, 1)),
    ("einsum list-form RC", "lambda anp, x, y: anp.einsum(x, [0, 1], y, [1, 2], [0, 2])", [((2, 3), "R"), ((3, 2), "C")], (0, 1)),
    ("einsum list-form RC ellipsis", "lambda anp, x, y: anp.einsum(x, [Ellipsis, 0], y, [Ellipsis, 0], [Ellipsis])", [((3,), "R"), ((2, 3), "C")], (0, 1)),
    ("einsum CC", "lambda anp, x, y: anp.einsum('ij,jk->ik', x, y)", [((2, 3), "C"), ((3, 2), "C")], (0, 1)),
    ("einsum RC bcast", "lambda anp, x, y: anp.einsum('...i,...i->...', x, y)", [((3,), "R"), ((2, 3), "C")], (0, 1)),
    ("kron CC", "lambda anp, x, y: anp.kron(x, y)", [((2,), "C"), ((2, 2), "C")], (0, 1)),
    ("kron RC", "lambda anp, x, y: anp.kron(x, y)", [((2, 2), "R"), ((2,), "C")], (0, 1)),
    ("outer CC", "lambda anp, x, y: anp.outer(x, y)", [((2,), "C"), ((3,), "C")], (0, 1)),
    ("multiply bcast RC", "lambda anp, x, y: x * y", [((2, 1), "R"), ((3,), "C")], (0, 1)),
    ("divide bcast CR", "lambda anp, x, y: x / y", [((2, 3), "C"), ((3,), "R")], (0, 1)),
    ("add scalar complex", "lambda anp, x: x + (1 + 2j)", [((3,), "R")], (0,)),
    ("sum C", "lambda anp, x: anp.sum(x, axis=(0, -1), keepdims=True)", [((2, 3), "C")], (0,)),
    ("mean C", "lambda anp, x: anp.mean(x, axis=0)", [((2, 3), "C")], (0,)),
    ("prod C", "lambda anp, x: anp.prod(x, axis=1)", [((2, 2), "C")], (0,)),
    ("var C", "lambda anp, x: anp.var(x, axis=0)", [((3, 2), "C")], (0,)),
    ("std C", "lambda anp, x: anp.std(x)", [((3,), "C")], (0,)),
    ("std R ddof", "lambda anp, x: anp.std(x, axis=1, ddof=1)", [((2, 3), "R")], (0,)),
    ("cumsum C", "lambda anp, x: anp.cumsum(x, axis=1)", [((2, 3), "C")], (0,)),
    ("transpose/reshape C", "lambda anp, x: anp.reshape(anp.transpose(x, (1, 0)), (6,))", [((2, 3), "C")], (0,)),
    ("getitem C", "lambda anp, x: x[[0, 0, 1], ::-1]", [((2, 3), "C")], (0,)),
    ("concatenate RC", "lambda anp, x, y: anp.concatenate([x, y], axis=0)", [((2, 2), "R"), ((1, 2), "C")], (0, 1)),
    ("where RC", f"lambda anp, x, y: anp.where({_np}.array([True, False, True]), x, y)", [((3,), "R"), ((3,), "C")], (0, 1)),
    ("pad C", "lambda anp, x: anp.pad(x, 1, 'constant')", [((2,), "C")], (0,)),
    ("trace C", "lambda anp, x: anp.trace(x)", [((2, 2), "C")], (0,)),
    ("diag C", "lambda anp, x: anp.diag(x)", [((3,), "C")], (0,)),
    ("repeat C", "lambda anp, x: anp.repeat(x, 2, axis=0)", [((2, 2), "C")], (0,)),
    ("tile C", "lambda anp, x: anp.tile(x, (2, 1))", [((2, 2), "C")], (0,)),
    ("real C arr", "lambda anp, x: anp.real(x) * 3", [((2, 2), "C")], (0,)),
    ("imag C arr", "lambda anp, x: anp.imag(x) * 3", [((2, 2), "C")], (0,)),
    ("conj C arr", "lambda anp, x: anp.conj(x) * (1 + 1j)", [((2, 2), "C")], (0,)),
    ("abs C arr", "lambda anp, x: anp.abs(x)", [((2, 2), "C")], (0,)),
    ("angle C arr", "lambda anp, x: anp.angle(x)", [((3,), "C")], (0,)),
    ("sqrt/exp/log C", "lambda anp, x: anp.sqrt(x) + anp.exp(x) * anp.log(x)", [((3,), "C")], (0,)),
    ("power C int", "lambda anp, x: x ** 3", [((3,), "C")], (0,)),
    ("tanh/tan C", "lambda anp, x: anp.tanh(x) + anp.tan(x)", [((2,), "C")], (0,)),
    ("real-through-complex", "lambda anp, x: anp.real(anp.fft.ifft(anp.fft.fft(x) * (2 + 1j)))", [((4,), "R")], (0,)),
    ("fftshift C", "lambda anp, x: anp.fft.fftshift(x)", [((2, 3), "C")], (0,)),
    ("fftshift(fft(x))", "lambda anp, x: anp.fft.fftshift(anp.fft.fft(x))", [((5,), "R")], (0,)),
    ("ifftshift C axes", "lambda anp, x: anp.fft.ifftshift(x, axes=(1,))", [((2, 3), "C")], (0,)),
    ("fft R", "lambda anp, x: anp.fft.fft(x)", [((4,), "R")], (0,)),
    ("fft C", "lambda anp, x: anp.fft.fft(x)", [((4,), "C")], (0,)),
    ("fft n bigger", "lambda anp, x: anp.fft.fft(x, 6)", [((4,), "C")], (0,)),
    ("fft n smaller axis0", "lambda anp, x: anp.fft.fft(x, 2, axis=0)", [((4, 2), "R")], (0,)),
    ("fft ortho", "lambda anp, x: anp.fft.fft(x, norm='ortho')", [((4,), "C")], (0,)),
    ("ifft C", "lambda anp, x: anp.fft.ifft(x, axis=0)", [((4, 2), "C")], (0,)),
    ("fft2 C", "lambda anp, x: anp.fft.fft2(x)", [((2, 4), "C")], (0,)),
    ("fft2 s", "lambda anp, x: anp.fft.fft2(x, s=(3, 2))", [((2, 4), "R")], (0,)),
    ("ifft2 axes", "lambda anp, x: anp.fft.ifft2(x, axes=(0, 1))", [((2, 2, 2), "C")], (0,)),
    ("fftn C", "lambda anp, x: anp.fft.fftn(x)", [((2, 2, 2), "C")], (0,)),
    ("fftn axes", "lambda anp, x: anp.fft.fftn(x, axes=(2, 0))", [((2, 2, 2), "R")], (0,)),
    ("ifftn s", "lambda anp, x: anp.fft.ifftn(x, s=(2, 3))", [((2, 2), "C")], (0,)),
    ("rfft", "lambda anp, x: anp.fft.rfft(x)", [((6,), "R")], (0,)),
    ("rfft n", "lambda anp, x: anp.fft.rfft(x, 4)", [((6,), "R")], (0,)),
    ("rfft n bigger", "lambda anp, x: anp.fft.rfft(x, 8)", [((6,), "R")], (0,)),
    ("rfft ortho", "lambda anp, x: anp.fft.rfft(x, norm='ortho')", [((4,), "R")], (0,)),
    ("rfft axis0", "lambda anp, x: anp.fft.rfft(x, axis=0)", [((4, 2), "R")], (0,)),
    ("irfft", "lambda anp, x: anp.fft.irfft(x)", [((4,), "C")], (0,)),
    ("irfft n", "lambda anp, x: anp.fft.irfft(x, 4)", [((4,), "C")], (0,)),
    ("irfft ortho", "lambda anp, x: anp.fft.irfft(x, norm='ortho')", [((3,), "C")], (0,)),
    ("rfft2", "lambda anp, x: anp.fft.rfft2(x)", [((2, 4), "R")], (0,)),
    ("rfft2 s", "lambda anp, x: anp.fft.rfft2(x, s=(2, 2))", [((3, 4), "R")], (0,)),
    ("irfft2", "lambda anp, x: anp.fft.irfft2(x)", [((2, 3), "C")], (0,)),
    ("rfftn", "lambda anp, x: anp.fft.rfftn(x)", [((2, 2, 4), "R")], (0,)),
    ("rfftn axes", "lambda anp, x: anp.fft.rfftn(x, axes=(0, 2))", [((2, 2, 4), "R")], (0,)),
    ("irfftn", "lambda anp, x: anp.fft.irfftn(x)", [((2, 3), "C")], (0,)),
    ("det R", "lambda anp, x: anp.linalg.det(x)", [((3, 3), "R")], (0,)),
    ("det R batched", "lambda anp, x: anp.linalg.det(x)", [((2, 2, 2), "R")], (0,)),
    ("slogdet R", "lambda anp, x: anp.linalg.slogdet(x)[1]", [((3, 3), "R")], (0,)),
    ("slogdet C", "lambda anp, x: anp.linalg.slogdet(x)[1]", [((2, 2), "C")], (0,)),
    ("inv R", "lambda anp, x: anp.linalg.inv(x)", [((3, 3), "R")], (0,)),
    ("inv batched", "lambda anp, x: anp.linalg.inv(x)", [((2, 2, 2), "R")], (0,)),
    ("pinv R", "lambda anp, x: anp.linalg.pinv(x)", [((3, 2), "R")], (0,)),
    ("solve", "lambda anp, x, y: anp.linalg.solve(x, y)", [((3, 3), "R"), ((3, 2), "R")], (0, 1)),
    ("solve 1-D b", "lambda anp, x, y: anp.linalg.solve(x, y)", [((3, 3), "R"), ((3,), "R")], (0, 1)),
    ("norm default vec", "lambda anp, x: anp.linalg.norm(x)", [((4,), "R")], (0,)),
    ("norm fro", "lambda anp, x: anp.linalg.norm(x, 'fro')", [((2, 3), "R")], (0,)),
    ("norm ord=3", "lambda anp, x: anp.linalg.norm(x, 3)", [((4,), "R")], (0,)),
    ("norm axis", "lambda anp, x: anp.linalg.norm(x, axis=1)", [((2, 3), "R")], (0,)),
    ("norm axis tuple", "lambda anp, x: anp.linalg.norm(x, axis=(0, 2))", [((2, 2, 2), "R")], (0,)),
    ("norm nuc", "lambda anp, x: anp.linalg.norm(x, 'nuc')", [((3, 2), "R")], (0,)),
    ("norm ord=2 axis=0", "lambda anp, x: anp.linalg.norm(x, 2, axis=0)", [((3, 2), "R")], (0,)),
    ("norm complex vec", "lambda anp, x: anp.linalg.norm(x)", [((3,), "C")], (0,)),
    ("norm ord=3 axis=1 square", "lambda anp, x: anp.linalg.norm(x, 3, axis=1)", [((3, 3), "R")], (0,)),
    ("norm ord=3 axis=0 square", "lambda anp, x: anp.linalg.norm(x, 3, axis=0)", [((2, 2), "R")], (0,)),
    ("norm ord=2.5 axis=-1 cube", "lambda anp, x: anp.linalg.norm(x, 2.5, axis=-1)", [((2, 2, 2), "R")], (0,)),
    ("norm default axis=1 square", "lambda anp, x: anp.linalg.norm(x, axis=1)", [((3, 3), "R")], (0,)),
    ("astype complex", "lambda anp, x: x.astype(complex) * (1 + 2j)", [((3,), "R")], (0,)),
    ("repeat axis=-1 square", "lambda anp, x: anp.repeat(x, 3, axis=-1)", [((3, 3), "R")], (0,)),
    ("repeat axis=-2 square", "lambda anp, x: anp.repeat(x, 2, axis=-2)", [((2, 2), "R")], (0,)),
    ("tile reps longer than ndim", "lambda anp, x: anp.tile(x, (2, 2, 1))", [((2, 3), "R")], (0,)),
    ("tile vector 2-D reps", "lambda anp, x: anp.tile(x, (2, 2))", [((3,), "R")], (0,)),
    ("tile (1,2) reps (3,2,1)", "lambda anp, x: anp.tile(x, (3, 2, 2))", [((1, 2), "R")], (0,)),
    ("rollaxis negative start", "lambda anp, x: anp.rollaxis(x, 2, -1)", [((2, 2, 2), "R")], (0,)),
    ("rollaxis negative axis", "lambda anp, x: anp.rollaxis(x, -1, 0)", [((2, 3, 2), "R")], (0,)),
    ("tensordot crossing pairs", "lambda anp, x, y: anp.tensordot(x, y, axes=([0, 1], [2, 1]))", [((2, 2, 3), "R"), ((3, 2, 2), "R")], (0, 1)),
    ("tensordot crossing pairs 2", "lambda anp, x, y: anp.tensordot(x, y, axes=([1, 0], [0, 2]))", [((2, 2), "R"), ((2, 3, 2), "R")], (0, 1)),
    ("norm nuc axis=(2,0)", "lambda anp, x: anp.linalg.norm(x, 'nuc', axis=(2, 0))", [((2, 3, 2), "R")], (0,)),
    ("norm nuc axis=(1,0)", "lambda anp, x: anp.linalg.norm(x, 'nuc', axis=(1, 0))", [((2, 2, 3), "R")], (0,)),
    ("clip zero bound", "lambda anp, x: anp.clip(x, 0.0, 1.0)", [((6,), "R")], (0,)),
    ("clip zero upper bound", "lambda anp, x: anp.clip(x, -2.0, 0.0)", [((6,), "R")], (0,)),
    ("matmul then zero residual", "lambda anp, x, y: anp.sum((x @ y) ** 2)", [((2, 2), "R"), ((2,), "R")], (0, 1)),
    ("norm complex vec ord=3", "lambda anp, x: anp.linalg.norm(x, 3)", [((3,), "C")], (0,)),
    ("norm complex fro", "lambda anp, x: anp.linalg.norm(x, 'fro')", [((2, 3), "C")], (0,)),
    ("norm complex matrix default", "lambda anp, x: anp.linalg.norm(x)", [((2, 2), "C")], (0,)),
    ("norm complex axis=0", "lambda anp, x: anp.linalg.norm(x, axis=0)", [((3, 2), "C")], (0,)),
    ("norm complex ord=2.5 axis=1", "lambda anp, x: anp.linalg.norm(x, 2.5, axis=1)", [((2, 3), "C")], (0,)),
    ("norm complex nuc", "lambda anp, x: anp.linalg.norm(x, 'nuc')", [((3, 2), "C")], (0,)),
    ("norm complex nuc axis", "lambda anp, x: anp.linalg.norm(x, 'nuc', axis=(0, 2))", [((2, 2, 3), "C")], (0,)),
    ("norm complex fro tuple axis", "lambda anp, x: anp.linalg.norm(x, 'fro', axis=(1, 2))", [((2, 2, 3), "C")], (0,)),
    ("eigh vals", "lambda anp, x: anp.linalg.eigh(x + x.T)[0]", [((3, 3), "R")], (0,)),
    ("eigh vecs", "lambda anp, x: anp.abs(anp.linalg.eigh(x + x.T)[1])", [((2, 2), "R")], (0,)),
    ("cholesky", "lambda anp, x: anp.linalg.cholesky(anp.dot(x, x.T) + 2 * anp.eye(3))", [((3, 3), "R")], (0,)),
    ("svd s", "lambda anp, x: anp.linalg.svd(x, compute_uv=False)", [((3, 2), "R")], (0,)),
    ("svd s complex", "lambda anp, x: anp.linalg.svd(x, compute_uv=False)", [((2, 2), "C")], (0,)),
    ("svd usv product", "lambda anp, x: (lambda u, s, v: anp.dot(u * s, v))(*anp.linalg.svd(x, full_matrices=False))", [((3, 2), "R")], (0,)),
    ("eig vals", "lambda anp, x: anp.real(anp.linalg.eig(x)[0] * anp.conj(anp.linalg.eig(x)[0]))", [((2, 2), "R")], (0,)),
]
for _ax in ((0, 1), (1, 0), (0, 2), (2, 0), (1, 2), (2, 1), (-1, 0), (0, -1)):
    CASES.append((f"norm nuc axis={_ax}", f"lambda anp, x: anp.linalg.norm(x, 'nuc', axis={_ax})", [((2, 3, 2), "R")], (0,)))
    CASES.append((f"norm fro axis={_ax}", f"lambda anp, x: anp.linalg.norm(x, 'fro', axis={_ax})", [((2, 3, 2), "R")], (0,)))
    CASES.append((f"norm default axis={_ax}", f"lambda anp, x: anp.linalg.norm(x, axis={_ax})", [((2, 3, 2), "R")], (0,)))
for _ax in (0, 1, -1, 2):
    CASES.append((f"norm vec axis={_ax}", f"lambda anp, x: anp.linalg.norm(x, axis={_ax})", [((2, 3, 2), "R")], (0,)))
    CASES.append((f"norm ord=3 axis={_ax}", f"lambda anp, x: anp.linalg.norm(x, 3, axis={_ax})", [((2, 3, 2), "P")], (0,)))
CASES += [
    ("fft n= keyword bigger", "lambda anp, x: anp.fft.fft(x, n=8)", [((3, 5), "R")], (0,)),
    ("fft n= keyword smaller", "lambda anp, x: anp.fft.fft(x, n=3)", [((2, 5), "C")], (0,)),
    ("ifft n= keyword", "lambda anp, x: anp.fft.ifft(x, n=6)", [((4,), "C")], (0,)),
    ("fft n= and axis= keywords", "lambda anp, x: anp.fft.fft(x, n=4, axis=0)", [((3, 2), "R")], (0,)),
    ("rfft n= keyword", "lambda anp, x: anp.fft.rfft(x, n=4)", [((6,), "R")], (0,)),
    ("irfft n= keyword", "lambda anp, x: anp.fft.irfft(x, n=6)", [((3,), "C")], (0,)),
    ("fft2 s= axes= keywords", "lambda anp, x: anp.fft.fft2(x, s=(2, 3), axes=(0, 1))", [((3, 2), "C")], (0,)),
    ("fftn s= keyword", "lambda anp, x: anp.fft.fftn(x, s=(3, 3))", [((2, 2), "R")], (0,)),
    ("fft norm= keyword", "lambda anp, x: anp.fft.fft(x, norm='ortho', n=5)", [((4,), "R")], (0,)),
    ("linspace endpoint=False", "lambda anp, x, y: anp.linspace(x, y, 4, endpoint=False)", [((), "R"), ((), "R")], (0, 1)),
    ("linspace num=5", "lambda anp, x, y: anp.linspace(x, y, 5)", [((), "R"), ((), "R")], (0, 1)),
    ("linspace num kw", "lambda anp, x, y: anp.linspace(x, y, num=3)", [((), "R"), ((), "R")], (0, 1)),
    ("pad constant_values", "lambda anp, x: anp.pad(x, ((1, 2), (0, 1)), 'constant', constant_values=3.0)", [((2, 2), "R")], (0,)),
    ("where numeric cond", f"lambda anp, x, y: anp.where({_np}.array([2.0, 0.0, 0.5]), x, y)", [((3,), "R"), ((3,), "R")], (0, 1)),
    ("where int cond", f"lambda anp, x, y: anp.where({_np}.array([3, 0, 1]), x, y)", [((3,), "R"), ((3,), "R")], (0, 1)),
    ("cumsum axis=-1 2-D", "lambda anp, x: anp.cumsum(x, axis=-1)", [((2, 3), "R")], (0,)),
    ("cumsum axis=-2 3-D", "lambda anp, x: anp.cumsum(x, axis=-2)", [((2, 3, 2), "R")], (0,)),
    ("diff n=2 axis=0", "lambda anp, x: anp.diff(x, n=2, axis=0)", [((4, 2), "R")], (0,)),
    ("det batched 3-D", "lambda anp, x: anp.linalg.det(x)", [((2, 3, 3), "R")], (0,)),
    ("slogdet batched", "lambda anp, x: anp.linalg.slogdet(x)[1]", [((2, 2, 2), "R")], (0,)),
    ("solve batched", "lambda anp, x, y: anp.linalg.solve(x, y)", [((2, 2, 2), "R"), ((2, 2, 1), "R")], (0, 1)),
    ("pinv wide", "lambda anp, x: anp.linalg.pinv(x)", [((2, 3), "R")], (0,)),
    ("eigh UPLO=U", "lambda anp, x: anp.linalg.eigh(x + x.T, 'U')[0]", [((3, 3), "R")], (0,)),
    ("cholesky batched", "lambda anp, x: anp.linalg.cholesky(anp.matmul(x, anp.swapaxes(x, -1, -2)) + 2 * anp.eye(2))", [((2, 2, 2), "R")], (0,)),
    ("svd u", "lambda anp, x: anp.abs(anp.linalg.svd(x, full_matrices=False)[0])", [((3, 2), "R")], (0,)),
    ("svd vt", "lambda anp, x: anp.abs(anp.linalg.svd(x, full_matrices=False)[2])", [((2, 3), "R")], (0,)),
    ("svd batched s", "lambda anp, x: anp.linalg.svd(x, compute_uv=False)", [((2, 2, 3), "R")], (0,)),
    ("eig vecs", "lambda anp, x: anp.real(anp.linalg.eig(x + x.T + 3 * anp.eye(2))[1] ** 2)", [((2, 2), "R")], (0,)),
    ("std axis tuple keepdims", "lambda anp, x: anp.std(x, axis=(0, 2), keepdims=True)", [((2, 3, 2), "R")], (0,)),
    ("var ddof axis=-1", "lambda anp, x: anp.var(x, axis=-1, ddof=1)", [((2, 3), "R")], (0,)),
    ("prod axis=-1 keepdims", "lambda anp, x: anp.prod(x, axis=-1, keepdims=True)", [((2, 3), "P")], (0,)),
    ("sort 1-D", "lambda anp, x: anp.sort(x)", [((4,), "P")], (0,)),
    ("partition 1-D", "lambda anp, x: anp.partition(x, 1)", [((4,), "P")], (0,)),
    ("rot90 k=-1", "lambda anp, x: anp.rot90(x, -1)", [((2, 3), "R")], (0,)),
    ("roll tuple", "lambda anp, x: anp.roll(x, 2, axis=-1)", [((2, 3), "R")], (0,)),
    ("kron 2-D", "lambda anp, x, y: anp.kron(x, y)", [((2, 2), "R"), ((2, 3), "R")], (0, 1)),
    ("cross axis", "lambda anp, x, y: anp.cross(x, y, axis=0)", [((3, 2), "R"), ((3, 2), "R")], (0, 1)),
    ("einsum implicit out", "lambda anp, x, y: anp.einsum('ij,jk', x, y)", [((2, 3), "R"), ((3, 2), "R")], (0, 1)),
    ("einsum repeated idx", "lambda anp, x, y: anp.einsum('iij,j->i', x, y)", [((2, 2, 3), "R"), ((3,), "R")], (0, 1)),
    ("tensordot axes swapped", "lambda anp, x, y: anp.tensordot(x, y, axes=([2, 0], [0, 1]))", [((2, 3, 2), "R"), ((2, 2, 3), "R")], (0, 1)),
]
for _uf in ("arctan2", "hypot", "logaddexp", "logaddexp2", "power", "maximum", "minimum", "fmax", "fmin", "mod", "remainder", "true_divide", "subtract"):
    for _sa, _sb in (((2, 3), (3,)), ((2, 1), (1, 3)), ((), (2,)), ((2, 3), ()), ((3,), (2, 3)), ((1, 3), (2, 1))):
        CASES.append((f"{_uf} bcast {_sa}x{_sb}", f"lambda anp, x, y: anp.{_uf}(x, y)", [(_sa, "P"), (_sb, "P")], (0, 1)))
for _uf in ("sin", "cos", "tan", "exp", "log", "sqrt", "tanh", "sinh", "cosh", "arctan", "arcsinh", "log1p", "expm1", "exp2", "log2", "log10", "sinc", "reciprocal", "abs"):
    CASES.append((f"{_uf} array", f"lambda anp, x: anp.{_uf}(x)", [((2, 2), "P")], (0,)))
_S = lambda label, expr, specs, argnums=(0,): CASES.append(("scipy:" + label, "lambda anp, sp, " + ", ".join("xyz"[:len(specs)]) + ": " + expr, specs, argnums))
for _f in ("gamma", "gammaln", "digamma", "psi", "rgamma", "erf", "erfc", "expit", "i0", "i1", "j0", "j1", "y0", "y1"):
    _S(f"special.{_f}", f"sp.special.{_f}(x)", [((3,), "P")])
_S("special.logit", "sp.special.logit(x / 4.0)", [((3,), "P")])
_S("special.erfinv", "sp.special.erfinv(x / 4.0)", [((3,), "P")])
_S("special.erfcinv", "sp.special.erfcinv(x / 4.0 + 0.1)", [((3,), "P")])
_S("special.polygamma(1,x)", "sp.special.polygamma(1, x)", [((3,), "P")])
_S("special.polygamma(2,x)", "sp.special.polygamma(2, x)", [((2,), "P")])
_S("special.jn(2,x)", "sp.special.jn(2, x)", [((3,), "P")])
_S("special.yn(1,x)", "sp.special.yn(1, x)", [((3,), "P")])
_S("special.iv(1,x)", "sp.special.iv(1, x)", [((3,), "P")])
_S("special.ive(1,x)", "sp.special.ive(1, x)", [((3,), "P")])
_S("special.beta", "sp.special.beta(x, y)", [((3,), "P"), ((3,), "P")], (0, 1))
_S("special.betaln bcast", "sp.special.betaln(x, y)", [((2, 3), "P"), ((3,), "P")], (0, 1))
_S("special.betainc x", "sp.special.betainc(1.5, 2.5, x / 4.0)", [((3,), "P")])
_S("special.gammainc x", "sp.special.gammainc(1.5, x)", [((3,), "P")])
_S("special.gammaincc x", "sp.special.gammaincc(2.5, x)", [((3,), "P")])
_S("special.multigammaln", "sp.special.multigammaln(x + 2.0, 3)", [((2,), "P")])
for _f2, _ord in (("polygamma", "[0, 1, 2]"), ("jn", "[0, 1, 2]"), ("yn", "[0, 1, 2]"), ("iv", "[0.0, 1.0, 2.5]"), ("ive", "[0.0, 1.0, 2.5]")):
    _S(f"special.{_f2} array order, scalar x", f"sp.special.{_f2}(__import__('numpy').array({_ord}), x)", [((), "P")])
    _S(f"special.{_f2} column order, row x", f"sp.special.{_f2}(__import__('numpy').array({_ord}).reshape(3, 1), x)", [((2,), "P")])
_S("special.gammainc array a, scalar x", "sp.special.gammainc(__import__('numpy').array([0.5, 1.0, 2.0]), x)", [((), "P")])
_S("special.betainc array a, scalar x", "sp.special.betainc(__import__('numpy').array([0.5, 1.0, 2.0]), 1.5, x / 4.0)", [((), "P")])
_S("special.beta column x row", "sp.special.beta(x, y)", [((2, 1), "P"), ((3,), "P")], (0, 1))
_S("special.logsumexp", "sp.special.logsumexp(x)", [((2, 3), "R")])
_S("special.logsumexp axis", "sp.special.logsumexp(x, axis=1)", [((2, 3), "R")])
_S("special.logsumexp axis=-2 keepdims", "sp.special.logsumexp(x, axis=-2, keepdims=True)", [((2, 3), "R")])
_S("special.logsumexp b", "sp.special.logsumexp(x, b=__import__('numpy').array([1.0, 2.0, 0.5]))", [((3,), "R")])
_S("special.logsumexp tuple axis", "sp.special.logsumexp(x, axis=(0, 2))", [((2, 2, 2), "R")])
_S("special.logsumexp tuple axis negative", "sp.special.logsumexp(x, axis=(-2, -1))", [((2, 2, 3), "R")])
_S("special.logsumexp tuple axis negative keepdims", "sp.special.logsumexp(x, axis=(-1, -3), keepdims=True)", [((2, 2, 2), "R")])
_S("special.logsumexp tuple axis b", "sp.special.logsumexp(x, axis=(-1, 0), b=__import__('numpy').array([1.0, 2.0, 0.5]))", [((3, 2, 3), "R")])
for _mode in ("full", "valid"):
    _S(f"signal.convolve 1-D {_mode}", f"sp.signal.convolve(x, y, mode='{_mode}')", [((5,), "R"), ((3,), "R")], (0, 1))
    _S(f"signal.convolve 2-D {_mode}", f"sp.signal.convolve(x, y, mode='{_mode}')", [((3, 4), "R"), ((2, 2), "R")], (0, 1))
_S("signal.convolve axes (autograd-only kwargs)", "sp.signal.convolve(x, y, axes=([1], [0]), mode='valid')", [((2, 4), "R"), ((3, 2), "R")], (0, 1))
_S("signal.convolve dot_axes (autograd-only kwargs)", "sp.signal.convolve(x, y, axes=([1], [1]), dot_axes=([0], [0]), mode='full')", [((2, 4), "R"), ((2, 3), "R")], (0, 1))
_S("linalg.sqrtm", "sp.linalg.sqrtm(anp.dot(x, x.T) + 2 * anp.eye(2))", [((2, 2), "R")])
_S("linalg.solve_triangular", "sp.linalg.solve_triangular(anp.tril(x) + 3 * anp.eye(3), y, lower=True)", [((3, 3), "R"), ((3, 2), "R")], (0, 1))
_S("linalg.solve_triangular trans", "sp.linalg.solve_triangular(anp.triu(x) + 3 * anp.eye(3), y, trans='T')", [((3, 3), "R"), ((3,), "R")], (0, 1))
_S("linalg.solve_sylvester", "sp.linalg.solve_sylvester(x + 3 * anp.eye(2), y + 2 * anp.eye(2), anp.ones((2, 2)))", [((2, 2), "R"), ((2, 2), "R")], (0, 1))
for _d, _args, _n in (("norm", "x, 0.5, 1.5", 1), ("t", "x, 3.5, 0.5, 1.5", 1), ("gamma", "x, 2.5", 1), ("beta", "x / 4.0, 1.5, 2.5", 1), ("chi2", "x, 3.5", 1)):
    for _fn in ("pdf", "logpdf", "cdf"):
        if (_d, _fn) in (("t", "cdf"), ("gamma", "cdf"), ("beta", "cdf"), ("chi2", "cdf"), ("chi2", "pdf")):
            continue
        _S(f"stats.{_d}.{_fn}", f"sp.stats.{_d}.{_fn}({_args})", [((3,), "P")])
_S("stats.norm.logpdf loc/scale", "sp.stats.norm.logpdf(1.3, x, y)", [((3,), "P"), ((3,), "P")], (0, 1))
_S("stats.norm.logcdf", "sp.stats.norm.logcdf(x, 0.5, 1.5)", [((3,), "P")])
_S("stats.norm.sf/logsf", "sp.stats.norm.sf(x, 0.5, 1.5) + sp.stats.norm.logsf(x, 0.5, 1.5)", [((3,), "P")])
_S("stats.poisson.logpmf mu", "sp.stats.poisson.logpmf(__import__('numpy').array([1.0, 2.0, 4.0]), x)", [((3,), "P")])
_S("stats.multivariate_normal.logpdf x", "sp.stats.multivariate_normal.logpdf(x, __import__('numpy').array([0.5, 1.0]), __import__('numpy').array([[2.0, 0.5], [0.5, 1.0]]))", [((2,), "R")])
_S("stats.multivariate_normal.logpdf mean/cov", "sp.stats.multivariate_normal.logpdf(__import__('numpy').array([0.3, -0.2]), x, anp.dot(y, y.T) + anp.eye(2))", [((2,), "R"), ((2, 2), "R")], (0, 1))
_S("stats.multivariate_normal.entropy", "sp.stats.multivariate_normal.entropy(__import__('numpy').zeros(2), anp.dot(x, x.T) + anp.eye(2))", [((2, 2), "R")])
_S("stats.dirichlet.logpdf", "sp.stats.dirichlet.logpdf(__import__('numpy').array([0.2, 0.3, 0.5]), x)", [((3,), "P")])

# ---- OPTION COVERAGE: keyword/positional options NumPy accepts for functions that have rules.  Where autograd does not support the option it
# must raise (recorded as N-*-raises); a rule that starts accepting an option must be right for it.
_np = "__import__('numpy')"
CASES += [
    ("trace offset", "lambda anp, x: anp.trace(x, offset=1)", [((3, 4), "R")], (0,)),
    ("trace offset<0", "lambda anp, x: anp.trace(x, offset=-1)", [((3, 4), "R")], (0,)),
    ("trace axis1/axis2", "lambda anp, x: anp.trace(x, axis1=1, axis2=2)", [((2, 3, 3), "R")], (0,)),
    ("trace offset axis1>axis2", "lambda anp, x: anp.trace(x, offset=1, axis1=1, axis2=0)", [((3, 4), "R")], (0,)),
    ("trace offset=-1 axis1>axis2 3-D", "lambda anp, x: anp.trace(x, offset=-1, axis1=2, axis2=0)", [((3, 2, 4), "R")], (0,)),
    ("trace method axes", "lambda anp, x: x.trace(1, 1, 0) if hasattr(x, 'trace') else None", [((3, 4), "R")], (0,)),
    ("cholesky upper", "lambda anp, x: anp.linalg.cholesky(anp.dot(x, x.T) + 4 * anp.eye(3), upper=True)", [((3, 3), "R")], (0,)),
    ("cholesky complex", "lambda anp, x: anp.linalg.cholesky(anp.dot(x, anp.conj(x).T) + 4 * anp.eye(3))", [((3, 3), "C")], (0,)),
    ("cholesky stacked", "lambda anp, x: anp.linalg.cholesky(anp.matmul(x, anp.swapaxes(x, -1, -2)) + 4 * anp.eye(2))", [((2, 2, 2), "R")], (0,)),
    ("eigh UPLO=u lower-case", "lambda anp, x: anp.linalg.eigh(x, UPLO='u')[0]", [((3, 3), "R")], (0,)),
    ("eigh UPLO=l lower-case", "lambda anp, x: anp.linalg.eigh(x, UPLO='l')[0]", [((3, 3), "R")], (0,)),
    ("eigh UPLO=U vals", "lambda anp, x: anp.linalg.eigh(x + x.T, UPLO='U')[0]", [((3, 3), "R")], (0,)),
    ("eigh UPLO=U complex vals", "lambda anp, x: anp.linalg.eigh(x + anp.conj(x).T, 'U')[0]", [((3, 3), "C")], (0,)),
    ("eigh complex vals only", "lambda anp, x: anp.linalg.eigh(x + anp.conj(x).T)[0]", [((3, 3), "C")], (0,)),
    ("eigh complex weighted vals", "lambda anp, x: anp.sum(anp.linalg.eigh(x + anp.conj(x).T)[0] * " + _np + ".array([1.0, -2.0, 0.5]))", [((3, 3), "C")], (0,)),
    ("eigvalsh", "lambda anp, x: anp.linalg.eigvalsh(x + x.T)", [((3, 3), "R")], (0,)),
    ("norm keepdims", "lambda anp, x: anp.linalg.norm(x, axis=1, keepdims=True)", [((2, 3), "R")], (0,)),
    ("norm ord=inf", "lambda anp, x: anp.linalg.norm(x, ord=" + _np + ".inf)", [((4,), "R")], (0,)),
    ("norm ord=1 vec", "lambda anp, x: anp.linalg.norm(x, ord=1)", [((4,), "R")], (0,)),
    ("norm ord=3 axis", "lambda anp, x: anp.linalg.norm(x, ord=3, axis=0)", [((3, 2), "R")], (0,)),
    ("norm ord=1 matrix", "lambda anp, x: anp.linalg.norm(x, ord=1)", [((3, 2), "R")], (0,)),
    ("norm ord=-2 matrix", "lambda anp, x: anp.linalg.norm(x, ord=-2)", [((3, 2), "R")], (0,)),
    ("pinv rcond", "lambda anp, x: anp.linalg.pinv(x, rcond=1e-10)", [((3, 2), "R")], (0,)),
    ("pinv hermitian", "lambda anp, x: anp.linalg.pinv(x + x.T, hermitian=True)", [((3, 3), "R")], (0,)),
    ("svd hermitian", "lambda anp, x: anp.linalg.svd(x + x.T, hermitian=True, compute_uv=False)", [((3, 3), "R")], (0,)),
    ("svd full_matrices=True vals", "lambda anp, x: anp.linalg.svd(x, full_matrices=True)[1]", [((3, 2), "R")], (0,)),
    ("inv stacked", "lambda anp, x: anp.linalg.inv(x + 3 * anp.eye(2))", [((2, 2, 2), "R")], (0,)),
    ("det stacked", "lambda anp, x: anp.linalg.det(x)", [((2, 2, 2), "R")], (0,)),
    ("slogdet", "lambda anp, x: anp.linalg.slogdet(x + 3 * anp.eye(3))[1]", [((3, 3), "R")], (0,)),
    ("solve vector rhs", "lambda anp, x, y: anp.linalg.solve(x + 3 * anp.eye(3), y)", [((3, 3), "R"), ((3,), "R")], (0, 1)),
    ("solve stacked", "lambda anp, x, y: anp.linalg.solve(x + 3 * anp.eye(2), y)", [((2, 2, 2), "R"), ((2, 2, 1), "R")], (0, 1)),
    ("matrix_power 3", "lambda anp, x: anp.linalg.matrix_power(x, 3)", [((2, 2), "R")], (0,)),
    ("matrix_power -1", "lambda anp, x: anp.linalg.matrix_power(x + 3 * anp.eye(2), -1)", [((2, 2), "R")], (0,)),
    ("angle deg", "lambda anp, x: anp.angle(x, deg=True)", [((3,), "C")], (0,)),
    ("array_split", "lambda anp, x: anp.array_split(x, 3)[1]", [((5,), "R")], (0,)),
    ("array_split axis", "lambda anp, x: anp.array_split(x, [1, 2], axis=1)[2]", [((2, 4), "R")], (0,)),
    ("split sections", "lambda anp, x: anp.split(x, 2, axis=1)[1]", [((2, 4), "R")], (0,)),
    ("hsplit", "lambda anp, x: anp.hsplit(x, [1])[1]", [((2, 3), "R")], (0,)),
    ("vsplit", "lambda anp, x: anp.vsplit(x, 2)[0]", [((4, 2), "R")], (0,)),
    ("dsplit", "lambda anp, x: anp.dsplit(x, 2)[1]", [((2, 1, 4), "R")], (0,)),
    ("cross axisa/axisb", "lambda anp, x, y: anp.cross(x, y, axisa=0, axisb=0)", [((3, 2), "R"), ((3, 2), "R")], (0, 1)),
    ("cross axisc", "lambda anp, x, y: anp.cross(x, y, axisc=0)", [((2, 3), "R"), ((2, 3), "R")], (0, 1)),
    ("cross axis", "lambda anp, x, y: anp.cross(x, y, axis=0)", [((3, 2), "R"), ((3, 2), "R")], (0, 1)),
    ("diag k=1 build", "lambda anp, x: anp.diag(x, k=1)", [((3,), "R")], (0,)),
    ("diag k=-1 extract", "lambda anp, x: anp.diag(x, k=-1)", [((3, 3), "R")], (0,)),
    ("diagonal 3-D default axes", "lambda anp, x: anp.diagonal(x)", [((2, 3, 2), "R")], (0,)),
    ("diagonal 3-D axes (0, 2)", "lambda anp, x: anp.diagonal(x, axis1=0, axis2=2)", [((2, 3, 2), "R")], (0,)),
    ("diagonal 3-D offset default axes", "lambda anp, x: anp.diagonal(x, 1)", [((3, 3, 2), "R")], (0,)),
    ("pad positional mode edge", "lambda anp, x: anp.pad(x, 1, 'edge')", [((3,), "R")], (0,)),
    ("pad positional mode wrap", "lambda anp, x: anp.pad(x, (1, 1), 'wrap')", [((3,), "R")], (0,)),
    ("diagonal offset axes", "lambda anp, x: anp.diagonal(x, offset=1, axis1=2, axis2=0)", [((3, 2, 4), "R")], (0,)),
    ("diff prepend", "lambda anp, x: anp.diff(x, prepend=0.5)", [((4,), "R")], (0,)),
    ("diff append", "lambda anp, x, y: anp.diff(x, append=y)", [((4,), "R"), ((2,), "R")], (0,)),   # only x: a differentiated value passed BY KEYWORD is outside the properties (C15: positional)
    ("gradient spacing scalar", "lambda anp, x: anp.gradient(x, 0.5)", [((5,), "R")], (0,)),
    ("gradient spacing coords", "lambda anp, x: anp.gradient(x, " + _np + ".array([0.0, 0.5, 1.5, 2.0, 4.0]))", [((5,), "R")], (0,)),
    ("gradient edge_order", "lambda anp, x: anp.gradient(x, edge_order=2)", [((5,), "R")], (0,)),
    ("gradient axis tuple", "lambda anp, x: anp.gradient(x, axis=(0, 1))[1]", [((3, 4), "R")], (0,)),
    ("gradient axis tuple (4,5)", "lambda anp, x: anp.gradient(x, axis=(1, 0))[0] + anp.gradient(x, axis=(0, 1))[0]", [((4, 5), "R")], (0,)),
    ("gradient axis list (5,4)", "lambda anp, x: anp.gradient(x, axis=[0])[0] * 2.0", [((5, 4), "R")], (0,)),
    ("gradient axis=-1 (2,5)", "lambda anp, x: anp.gradient(x, axis=-1)", [((2, 5), "R")], (0,)),
    ("linspace retstep", "lambda anp, x, y: anp.linspace(x, y, 5, retstep=True)[0]", [((), "R"), ((), "R")], (0, 1)),
    ("linspace endpoint=False", "lambda anp, x, y: anp.linspace(x, y, 4, endpoint=False)", [((), "R"), ((), "R")], (0, 1)),
    ("linspace array axis", "lambda anp, x, y: anp.linspace(x, y, 3, axis=1)", [((2,), "R"), ((2,), "R")], (0, 1)),
    ("matmul axes", "lambda anp, x, y: anp.matmul(x, y, axes=[(0, 1), (0, 1), (0, 1)])", [((2, 3), "R"), ((3, 2), "R")], (0, 1)),
    ("nan_to_num finite", "lambda anp, x: anp.nan_to_num(x, nan=1.0, posinf=2.0)", [((3,), "R")], (0,)),
    ("partition kth", "lambda anp, x: anp.partition(x, 2)", [((5,), "P")], (0,)),
    ("partition axis", "lambda anp, x: anp.partition(x, 1, axis=0)", [((3, 2), "P")], (0,)),
    ("sort stable", "lambda anp, x: anp.sort(x, kind='stable')", [((5,), "P")], (0,)),
    ("sort axis=None", "lambda anp, x: anp.sort(x, axis=None)", [((2, 3), "P")], (0,)),
    ("sort axis=0", "lambda anp, x: anp.sort(x, axis=0)", [((3, 2), "P")], (0,)),
    ("sort axis=0 wide", "lambda anp, x: anp.sort(x, axis=0)", [((2, 3), "P")], (0,)),
    ("sort axis=0 square", "lambda anp, x: anp.sort(x, axis=0)", [((3, 3), "P")], (0,)),
    ("sort axis=1 cube", "lambda anp, x: anp.sort(x, axis=1)", [((2, 2, 2), "P")], (0,)),
    ("partition axis=0 wide", "lambda anp, x: anp.partition(x, 1, axis=0)", [((2, 3), "P")], (0,)),
    ("partition axis=-2 square", "lambda anp, x: anp.partition(x, 1, axis=-2)", [((3, 3), "P")], (0,)),
    ("msort-like method", "lambda anp, x: anp.sort(x)[::-1]", [((4,), "P")], (0,)),
    ("prod initial", "lambda anp, x: anp.prod(x, initial=2.0)", [((3,), "P")], (0,)),
    ("sum initial", "lambda anp, x: anp.sum(x, axis=0, initial=1.5)", [((2, 3), "R")], (0,)),
    ("sum where", "lambda anp, x: anp.sum(x, where=" + _np + ".array([True, False, True]))", [((2, 3), "R")], (0,)),
    ("mean where", "lambda anp, x: anp.mean(x, where=" + _np + ".array([True, False, True]))", [((2, 3), "R")], (0,)),
    ("max initial", "lambda anp, x: anp.max(x, initial=100.0)", [((4,), "R")], (0,)),
    ("min where initial", "lambda anp, x: anp.min(x, where=" + _np + ".array([True, True, False, True]), initial=50.0)", [((4,), "R")], (0,)),
    ("std correction", "lambda anp, x: anp.std(x, correction=1)", [((5,), "R")], (0,)),
    ("var correction axis", "lambda anp, x: anp.var(x, axis=1, correction=1)", [((2, 4), "R")], (0,)),
    ("var mean=", "lambda anp, x: anp.var(x, mean=0.25)", [((5,), "R")], (0,)),
    ("var ddof keepdims tuple axis", "lambda anp, x: anp.var(x, axis=(0, 2), ddof=1, keepdims=True)", [((2, 3, 2), "R")], (0,)),
    ("std tuple axis negative", "lambda anp, x: anp.std(x, axis=(-1, 0))", [((2, 3, 2), "R")], (0,)),
    ("std tuple axis non-adjacent", "lambda anp, x: anp.std(x, axis=(0, 2))", [((2, 3, 4), "R")], (0,)),
    ("var complex", "lambda anp, x: anp.var(x, axis=0)", [((3, 2), "C")], (0,)),
    ("std complex", "lambda anp, x: anp.std(x)", [((4,), "C")], (0,)),
    ("mean dtype", "lambda anp, x: anp.mean(x, dtype=" + _np + ".float64, axis=1)", [((2, 3), "R")], (0,)),
    ("real_if_close tol", "lambda anp, x: anp.real_if_close(x, tol=1000)", [((3,), "R")], (0,)),
    ("rot90 k=3 axes", "lambda anp, x: anp.rot90(x, k=3, axes=(1, 2))", [((2, 2, 3), "R")], (0,)),
    ("rot90 k=-1", "lambda anp, x: anp.rot90(x, -1)", [((2, 3), "R")], (0,)),
    ("roll tuple", "lambda anp, x: anp.roll(x, (1, -2), axis=(0, 1))", [((2, 3), "R")], (0,)),
    ("roll flat", "lambda anp, x: anp.roll(x, 2)", [((2, 3), "R")], (0,)),
    ("moveaxis sequences", "lambda anp, x: anp.moveaxis(x, [0, 1], [-1, -2])", [((2, 3, 4), "R")], (0,)),
    ("swapaxes negative", "lambda anp, x: anp.swapaxes(x, -1, 0)", [((2, 3, 4), "R")], (0,)),
    ("rollaxis start", "lambda anp, x: anp.rollaxis(x, 2, 1)", [((2, 3, 4), "R")], (0,)),
    ("expand_dims tuple", "lambda anp, x: anp.expand_dims(x, (0, 2))", [((3,), "R")], (0,)),
    ("squeeze tuple", "lambda anp, x: anp.squeeze(x, axis=(0, 2))", [((1, 3, 1), "R")], (0,)),
    ("reshape F", "lambda anp, x: anp.reshape(x, (3, 2), order='F')", [((2, 3), "R")], (0,)),
    ("ravel F", "lambda anp, x: anp.ravel(x, order='F')", [((2, 3), "R")], (0,)),
    ("method reshape F", "lambda anp, x: x.reshape((3, 2), order='F')", [((2, 3), "R")], (0,)),
    ("method flatten F", "lambda anp, x: x.flatten(order='F') if hasattr(x, 'flatten') else None", [((2, 3), "R")], (0,)),
    ("reshape -1", "lambda anp, x: anp.reshape(x, (-1, 2))", [((2, 3), "R")], (0,)),
    ("concatenate axis=None", "lambda anp, x, y: anp.concatenate([x, y], axis=None)", [((2, 2), "R"), ((3,), "R")], (0, 1)),
    ("concatenate axis=-1", "lambda anp, x, y: anp.concatenate([x, y], axis=-1)", [((2, 2), "R"), ((2, 1), "R")], (0, 1)),
    ("stack axis=-1", "lambda anp, x, y: anp.stack([x, y], axis=-1)", [((2, 3), "R"), ((2, 3), "R")], (0, 1)),
    ("take mode=wrap", "lambda anp, x: anp.take(x, [0, 5, -1], mode='wrap')", [((4,), "R")], (0,)),
    ("take axis", "lambda anp, x: anp.take(x, [1, 1, 0], axis=1)", [((2, 3), "R")], (0,)),
    ("take_along_axis", "lambda anp, x: anp.take_along_axis(x, " + _np + ".array([[0, 2], [1, 1]]), axis=1)", [((2, 3), "R")], (0,)),
    ("repeat array repeats", "lambda anp, x: anp.repeat(x, [1, 0, 2])", [((3,), "R")], (0,)),
    ("repeat array repeats axis", "lambda anp, x: anp.repeat(x, [2, 1], axis=0)", [((2, 3), "R")], (0,)),
    ("tile 0 reps", "lambda anp, x: anp.tile(x, (2, 0))", [((2, 3), "R")], (0,)),
    ("pad edge", "lambda anp, x: anp.pad(x, 1, mode='edge')", [((3,), "R")], (0,)),
    ("pad reflect", "lambda anp, x: anp.pad(x, (1, 2), mode='reflect')", [((4,), "R")], (0,)),
    ("pad constant_values", "lambda anp, x: anp.pad(x, ((1, 0), (0, 2)), mode='constant', constant_values=3.0)", [((2, 2), "R")], (0,)),
    ("clip min only", "lambda anp, x: anp.clip(x, 0.1, None)", [((5,), "R")], (0,)),
    ("clip max only", "lambda anp, x: anp.clip(x, None, 0.6)", [((5,), "R")], (0,)),
    ("clip array bounds", "lambda anp, x: anp.clip(x, " + _np + ".array([-1.0, 0.0, 0.1]), 1.0)", [((2, 3), "R")], (0,)),
    ("clip keywords", "lambda anp, x: anp.clip(x, min=-0.1, max=0.9)", [((5,), "R")], (0,)),
    ("tril k", "lambda anp, x: anp.tril(x, k=1)", [((3, 3), "R")], (0,)),
    ("triu k 3-D", "lambda anp, x: anp.triu(x, k=-1)", [((2, 3, 3), "R")], (0,)),
    ("cumsum axis=None", "lambda anp, x: anp.cumsum(x)", [((2, 3), "R")], (0,)),
    ("cumsum negative axis", "lambda anp, x: anp.cumsum(x, axis=-2)", [((2, 3), "R")], (0,)),
    ("cumprod", "lambda anp, x: anp.cumprod(x, axis=1)", [((2, 3), "P")], (0,)),
    ("einsum optimize", "lambda anp, x, y: anp.einsum('ij,jk->ik', x, y, optimize=True)", [((2, 3), "R"), ((3, 2), "R")], (0, 1)),
    ("einsum three operands", "lambda anp, x, y: anp.einsum('ij,jk,kl->il', x, y, x)", [((2, 2), "R"), ((2, 2), "R")], (0, 1)),
    ("tensordot int axes 2", "lambda anp, x, y: anp.tensordot(x, y, 2)", [((2, 3, 2), "R"), ((3, 2, 2), "R")], (0, 1)),
    ("kron 1-D 2-D", "lambda anp, x, y: anp.kron(x, y)", [((2,), "R"), ((2, 2), "R")], (0, 1)),
    ("outer 0-d", "lambda anp, x, y: anp.outer(x, y)", [((), "R"), ((3,), "R")], (0, 1)),
    ("fft2 norm", "lambda anp, x: anp.fft.fft2(x, norm='ortho')", [((2, 3), "R")], (0,)),
    ("fftn norm forward", "lambda anp, x: anp.fft.fftn(x, norm='forward')", [((2, 2), "C")], (0,)),
    ("ifft norm", "lambda anp, x: anp.fft.ifft(x, norm='ortho')", [((4,), "C")], (0,)),
    ("ifft2 s", "lambda anp, x: anp.fft.ifft2(x, s=(3, 2))", [((2, 2), "C")], (0,)),
    ("ifftn norm", "lambda anp, x: anp.fft.ifftn(x, norm='forward')", [((2, 2), "C")], (0,)),
    ("irfft axis", "lambda anp, x: anp.fft.irfft(x, axis=0)", [((3, 2), "C")], (0,)),
    ("irfft real spectrum", "lambda anp, x: anp.fft.irfft(x)", [((3,), "R")], (0,)),
    ("irfft2 real spectrum", "lambda anp, x: anp.fft.irfft2(x)", [((2, 3), "R")], (0,)),
    ("irfft2 axes norm", "lambda anp, x: anp.fft.irfft2(x, axes=(0, 1), norm='ortho')", [((2, 3), "C")], (0,)),
    ("irfftn s axes", "lambda anp, x: anp.fft.irfftn(x, s=(2, 4), axes=(0, 1))", [((2, 3), "C")], (0,)),
    ("irfftn real spectrum", "lambda anp, x: anp.fft.irfftn(x)", [((2, 3), "R")], (0,)),
    ("rfft2 axes norm", "lambda anp, x: anp.fft.rfft2(x, axes=(1, 0), norm='ortho')", [((2, 4), "R")], (0,)),
    ("rfftn norm", "lambda anp, x: anp.fft.rfftn(x, norm='forward')", [((2, 4), "R")], (0,)),
    ("rfftn repeated axes", "lambda anp, x: anp.fft.rfftn(x, axes=(0, 0))", [((4, 2), "R")], (0,)),
    ("fftshift axes", "lambda anp, x: anp.fft.fftshift(x, axes=1)", [((2, 3), "R")], (0,)),
    ("ifftshift", "lambda anp, x: anp.fft.ifftshift(x)", [((5,), "C")], (0,)),
    ("irfft(abs(rfft))", "lambda anp, x: anp.fft.irfft(anp.abs(anp.fft.rfft(x)))", [((6,), "R")], (0,)),
    ("where float condition", "lambda anp, x, y: anp.where(" + _np + ".array([0.0, 0.5, 2.0]), x, y)", [((3,), "R"), ((3,), "R")], (0, 1)),
    ("where int condition bcast", "lambda anp, x, y: anp.where(" + _np + ".array([[0], [3]]), x, y)", [((3,), "R"), ((2, 3), "R")], (0, 1)),
    ("select default", "lambda anp, x, y: anp.select([" + _np + ".array([True, False, False]), " + _np + ".array([True, True, False])], [x, y], default=1.5)", [((3,), "R"), ((3,), "R")], (0, 1)),
    ("maximum bcast scalar", "lambda anp, x, y: anp.maximum(x, y)", [((2, 3), "R"), ((), "R")], (0, 1)),
    ("fmax", "lambda anp, x, y: anp.fmax(x, y)", [((3,), "R"), ((3,), "R")], (0, 1)),
    ("fmin bcast", "lambda anp, x, y: anp.fmin(x, y)", [((2, 3), "R"), ((3,), "R")], (0, 1)),
    ("logaddexp2", "lambda anp, x, y: anp.logaddexp2(x, y)", [((3,), "R"), ((3,), "R")], (0, 1)),
    ("hypot bcast", "lambda anp, x, y: anp.hypot(x, y)", [((2, 3), "R"), ((1, 3), "R")], (0, 1)),
    ("arctan2 bcast", "lambda anp, x, y: anp.arctan2(x, y)", [((2, 1), "R"), ((3,), "R")], (0, 1)),
    ("remainder bcast", "lambda anp, x, y: anp.remainder(x, y)", [((2, 3), "R"), ((3,), "P")], (0, 1)),
    ("mod scalar", "lambda anp, x, y: anp.mod(x, y)", [((3,), "R"), ((), "P")], (0, 1)),
    ("power array exponents", "lambda anp, x, y: anp.power(x, y)", [((3,), "P"), ((3,), "R")], (0, 1)),
    ("sinc", "lambda anp, x: anp.sinc(x)", [((4,), "R")], (0,)),
    ("exp2 log2 log10 log1p expm1", "lambda anp, x: anp.exp2(x) + anp.log2(x) + anp.log10(x) + anp.log1p(x) + anp.expm1(x)", [((3,), "P")], (0,)),
    ("deg2rad rad2deg degrees radians", "lambda anp, x: anp.deg2rad(x) + anp.rad2deg(x) + anp.degrees(x) * anp.radians(x)", [((3,), "R")], (0,)),
    ("arc functions", "lambda anp, x: anp.arcsin(x / 4) + anp.arccos(x / 4) + anp.arctan(x) + anp.arcsinh(x) + anp.arctanh(x / 4) + anp.arccosh(x + 1.5)", [((3,), "P")], (0,)),
    ("fabs absolute conjugate", "lambda anp, x: anp.fabs(x) + anp.absolute(x) * anp.conjugate(x)", [((4,), "R")], (0,)),
    ("atleast_2d 3d", "lambda anp, x: anp.atleast_3d(anp.atleast_2d(x))", [((3,), "R")], (0,)),
    ("broadcast_to shape kw", "lambda anp, x: anp.broadcast_to(x, shape=(2, 2, 3))", [((1, 3), "R")], (0,)),
    ("full fill scalar", "lambda anp, x: anp.full((2, 2), x)", [((), "R")], (0,)),
    # index arrays on FLOAT arrays in which one position is selected through different index values (negative and non-negative alias) and repeats
    ("getitem list alias [1,-4]", "lambda anp, x: x[[1, -4]]", [((5,), "R")], (0,)),
    ("getitem array alias+repeat", "lambda anp, x: x[" + _np + ".array([0, -5, 2, 2, -3, 4, -1])]", [((5,), "R")], (0,)),
    ("getitem alias weighted", "lambda anp, x: x[" + _np + ".array([3, -2, 3])] * " + _np + ".array([1.0, 10.0, 100.0])", [((5,), "R")], (0,)),
    ("getitem 2-D row alias", "lambda anp, x: x[[0, -2, 1]]", [((2, 3), "R")], (0,)),
    ("getitem 2-D pair alias", "lambda anp, x: x[[0, -2, 1], [2, -1, 0]]", [((2, 3), "R")], (0,)),
    ("getitem int64 array 1-D unique", "lambda anp, x: x[" + _np + ".array([4, 0, 2])] ** 2", [((5,), "R")], (0,)),
        ("take_along-like gather of gather", "lambda anp, x: x[[1, -4, 2]][[0, 1, 1, -3]]", [((5,), "R")], (0,)),
    # diagonal / make_diagonal in the one configuration the reverse rule supports, on NON-SQUARE trailing axes
    ("diagonal (2,3) axes (-1,-2)", "lambda anp, x: anp.diagonal(x, axis1=-1, axis2=-2)", [((2, 3), "R")], (0,)),
    ("diagonal (3,2) axes (-1,-2)", "lambda anp, x: anp.diagonal(x, axis1=-1, axis2=-2) ** 2", [((3, 2), "R")], (0,)),
    ("diagonal (2,2,3) axes (-1,-2)", "lambda anp, x: anp.diagonal(x, axis1=-1, axis2=-2)", [((2, 2, 3), "R")], (0,)),
    ("diagonal offset=1 axes (-1,-2)", "lambda anp, x: anp.diagonal(x, offset=1, axis1=-1, axis2=-2)", [((3, 3), "R")], (0,)),
    ("diagonal offset=-1 axes (-1,-2) 3-D", "lambda anp, x: anp.diagonal(x, offset=-1, axis1=-1, axis2=-2)", [((2, 3, 3), "R")], (0,)),
    ("diagonal (3,3) axes (-1,-2)", "lambda anp, x: anp.diagonal(x, axis1=-1, axis2=-2)", [((3, 3), "R")], (0,)),
    # tuple axes with NEGATIVE entries, on shapes whose leading sizes coincide (a mis-placed expand_dims then broadcasts silently instead of failing)
    ("max axis=(-2,-1) (2,2,3)", "lambda anp, x: anp.max(x, axis=(-2, -1))", [((2, 2, 3), "P")], (0,)),
    ("min axis=(-1,-2) (3,3,3)", "lambda anp, x: anp.min(x, axis=(-1, -2))", [((3, 3, 3), "P")], (0,)),
    ("amax axis=(-3,-1) (2,2,2)", "lambda anp, x: anp.amax(x, axis=(-3, -1))", [((2, 2, 2), "P")], (0,)),
    ("amin axis=(0,-1) (2,3,2)", "lambda anp, x: anp.amin(x, axis=(0, -1))", [((2, 3, 2), "P")], (0,)),
    ("sum/mean/prod axis=(-2,-1) (2,2,3)", "lambda anp, x: anp.sum(x, axis=(-2, -1)) + anp.mean(x, axis=(-2, -1)) * anp.prod(x, axis=(-1, -2))", [((2, 2, 3), "P")], (0,)),
    ("std axis=(-2,-1) (2,2,3)", "lambda anp, x: anp.std(x, axis=(-2, -1))", [((2, 2, 3), "P")], (0,)),
    ("var axis=(-1,-2) ddof (2,2,3)", "lambda anp, x: anp.var(x, axis=(-1, -2), ddof=1)", [((2, 2, 3), "P")], (0,)),
    # clip against array-valued bounds that broadcast the clipped array
    ("clip scalar against array bounds", "lambda anp, x: anp.clip(x, " + _np + ".array([0.0, 1.0371, 2.0193]), " + _np + ".array([3.0173, 1.2071, 2.5113]))", [((), "P")], (0,)),
    ("clip row against matrix bounds", "lambda anp, x: anp.clip(x, " + _np + ".zeros((2, 3)) - 0.0171, " + _np + ".array([[1.0371, 2.0193, 3.0173], [0.2071, 3.0173, 1.0371]]))", [((3,), "P")], (0,)),
    # reductions of ONE-element arrays of rank >= 1 (the reduction still removes axes)
    ("max (1,)", "lambda anp, x: anp.max(x)", [((1,), "R")], (0,)),
    ("min (1,1) axis=0", "lambda anp, x: anp.min(x, axis=0)", [((1, 1), "R")], (0,)),
    ("amax (1,1) axis=None", "lambda anp, x: anp.amax(x)", [((1, 1), "R")], (0,)),
    ("amin (1,1,1) axis=(0,2)", "lambda anp, x: anp.amin(x, axis=(0, 2))", [((1, 1, 1), "R")], (0,)),
    ("max (1,1) keepdims", "lambda anp, x: anp.max(x, axis=1, keepdims=True)", [((1, 1), "R")], (0,)),
    ("sum prod mean var std (1,)", "lambda anp, x: anp.sum(x) + anp.prod(x) + anp.mean(x) + anp.var(x) + anp.std(x + 0.0) * 0", [((1,), "P")], (0,)),
    ("sum mean prod (1,1) axis=0", "lambda anp, x: anp.sum(x, axis=0) + anp.mean(x, axis=0) * anp.prod(x, axis=0)", [((1, 1), "P")], (0,)),
    ("cumsum sort (1,)", "lambda anp, x: anp.cumsum(x) + anp.sort(x)", [((1,), "P")], (0,)),
    ("dot (1,)x(1,)", "lambda anp, x, y: anp.dot(x, y)", [((1,), "R"), ((1,), "R")], (0, 1)),
    ("linalg.norm (1,)", "lambda anp, x: anp.linalg.norm(x)", [((1,), "P")], (0,)),
    # broadcast_to with prepended dimensions AND a stretched axis (sizes chosen so that a sum over un-shifted axes keeps the element count)
    ("broadcast_to (3,1)->(2,3,3)", "lambda anp, x: anp.broadcast_to(x, (2, 3, 3))", [((3, 1), "R")], (0,)),
    ("broadcast_to (4,1)->(3,4,4)", "lambda anp, x: anp.broadcast_to(x, (3, 4, 4))", [((4, 1), "R")], (0,)),
    ("broadcast_to (2,1,2)->(4,2,2,2)", "lambda anp, x: anp.broadcast_to(x, (4, 2, 2, 2))", [((2, 1, 2), "R")], (0,)),
    ("broadcast_to (3,)->(2,3)", "lambda anp, x: anp.broadcast_to(x, (2, 3))", [((3,), "R")], (0,)),
    ("broadcast_to ()->(2,3)", "lambda anp, x: anp.broadcast_to(x, (2, 3))", [((), "R")], (0,)),
]

# ---- ArrayBox METHODS and OPERATORS (numpy_boxes.py: diff_methods delegate to the autograd.numpy functions; operators to the ufuncs)
_M = [("clip", "x.clip(-0.5, 0.75)", (5,)), ("clip kw", "x.clip(min=-0.25)", (5,)), ("compress", "x.compress([True, False, True], axis=0)", (3, 2)), ("cumprod", "x.cumprod()", (4,)),
      ("cumprod axis", "x.cumprod(axis=1)", (2, 3)), ("cumsum", "x.cumsum(axis=0)", (3, 2)), ("cumsum flat", "x.cumsum()", (2, 3)), ("diagonal", "x.diagonal()", (3, 3)),
      ("diagonal offset", "x.diagonal(1)", (3, 4)), ("max", "x.max(axis=0)", (3, 2)), ("max keepdims", "x.max(axis=1, keepdims=True)", (2, 3)), ("mean", "x.mean(axis=1, keepdims=True)", (2, 3)),
      ("mean all", "x.mean()", (2, 3)), ("min", "x.min()", (4,)), ("min axis", "x.min(axis=-1)", (2, 3)), ("prod", "x.prod(axis=0)", (3, 2)), ("prod all", "x.prod()", (4,)),
      ("ravel", "x.ravel()", (2, 3)), ("repeat", "x.repeat(2, axis=0)", (2, 3)), ("repeat flat", "x.repeat(3)", (2,)), ("reshape args", "x.reshape(3, 2)", (2, 3)), ("reshape tuple", "x.reshape((3, 2))", (2, 3)),
      ("reshape -1", "x.reshape(-1)", (2, 3)), ("squeeze", "x.squeeze()", (1, 3, 1)), ("squeeze axis", "x.squeeze(axis=0)", (1, 3)), ("std", "x.std(axis=0)", (3, 2)), ("std ddof", "x.std(ddof=1)", (4,)),
      ("sum", "x.sum(axis=(0, 1))", (2, 3, 2)), ("sum keepdims", "x.sum(axis=1, keepdims=True)", (2, 3)), ("swapaxes", "x.swapaxes(0, 2)", (2, 3, 2)), ("take", "x.take([0, 2, 2])", (4,)),
      ("take axis", "x.take([1, 0], axis=1)", (2, 3)), ("trace", "x.trace()", (3, 3)), ("transpose args", "x.transpose(1, 0, 2)", (2, 3, 2)), ("transpose tuple", "x.transpose((2, 0, 1))", (2, 3, 2)),
      ("transpose none", "x.transpose()", (2, 3)), ("var", "x.var(axis=1)", (2, 3)), ("var ddof", "x.var(ddof=1)", (4,)), ("T", "x.T", (2, 3)), ("flatten", "x.flatten()", (2, 3)),
      ("astype", "x.astype(float)", (3,)), ("len", "x * len(x)", (3, 2)), ("iter", "sum(r * (i + 1) for i, r in enumerate(x))", (3, 2)), ("shape/ndim/size", "x * x.shape[0] + x.ndim + x.size", (2, 3)),
      ("neg", "-x", (3,)), ("abs", "abs(x)", (3,)), ("pow", "x ** 3", (3,)), ("rpow", "2.0 ** x", (3,)), ("mod", "x % 0.75", (4,)), ("rmod", "3.25 % x", (4,)), ("rtruediv", "2.0 / x", (3,)),
      ("rsub", "2.0 - x", (3,)), ("radd/rmul", "1.5 + 2.0 * x", (3,))]
CASES += [(f"method {lab}", f"lambda anp, x: {expr}", [(shp, "P" if any(t in lab for t in ("prod", "pow", "mod", "truediv", "ptp", "max", "min")) else "R")], (0,)) for lab, expr, shp in _M]
CASES += [
    ("operator matmul", "lambda anp, x, y: x @ y", [((2, 3), "R"), ((3, 2), "R")], (0, 1)),
    ("operator matmul vec", "lambda anp, x, y: x @ y", [((3,), "R"), ((3, 2), "R")], (0, 1)),
    ("operator truediv", "lambda anp, x, y: x / y", [((2, 3), "R"), ((3,), "P")], (0, 1)),
    ("operator sub bcast", "lambda anp, x, y: x - y", [((2, 1), "R"), ((3,), "R")], (0, 1)),
    ("operator pow arrays", "lambda anp, x, y: x ** y", [((3,), "P"), ((3,), "R")], (0, 1)),
    ("operator mod arrays", "lambda anp, x, y: x % y", [((3,), "R"), ((3,), "P")], (0, 1)),
    ("method dot", "lambda anp, x, y: x.dot(y)", [((2, 3), "R"), ((3,), "R")], (0,)),   # only x: a plain ndarray's .dot(<traced>) is documented as unsupported (use np.dot)
    ("complex method mean/sum", "lambda anp, x: x.mean(axis=0) + x.sum()", [((2, 2), "C")], (0,)),
    ("complex method T/reshape", "lambda anp, x: x.T.reshape(-1)", [((2, 3), "C")], (0,)),
]

# ---- linalg: remaining shape classes / option combinations
_eye = lambda n: f"3 * anp.eye({n})"
CASES += [
    ("svd wide usv", "lambda anp, x: (lambda u, s, v: anp.dot(u * s, v))(*anp.linalg.svd(x, full_matrices=False))", [((2, 3), "R")], (0,)),
    ("svd square usv", "lambda anp, x: (lambda u, s, v: anp.dot(u * s, v))(*anp.linalg.svd(x, full_matrices=False))", [((3, 3), "R")], (0,)),
    ("svd batched usv", "lambda anp, x: (lambda u, s, v: anp.matmul(u * s[..., None, :], v))(*anp.linalg.svd(x, full_matrices=False))", [((2, 3, 2), "R")], (0,)),
    ("svd |u| tall", "lambda anp, x: anp.abs(anp.linalg.svd(x, full_matrices=False)[0])", [((3, 2), "R")], (0,)),
    ("svd |vt| tall", "lambda anp, x: anp.abs(anp.linalg.svd(x, full_matrices=False)[2])", [((3, 2), "R")], (0,)),
    ("svd |u| wide", "lambda anp, x: anp.abs(anp.linalg.svd(x, full_matrices=False)[0])", [((2, 3), "R")], (0,)),
    ("svd s wide", "lambda anp, x: anp.linalg.svd(x, compute_uv=False)", [((2, 3), "R")], (0,)),
    ("svd complex usv", "lambda anp, x: (lambda u, s, v: anp.dot(u * s, v))(*anp.linalg.svd(x, full_matrices=False))", [((2, 2), "C")], (0,)),
    ("eigh vals stacked", "lambda anp, x: anp.linalg.eigh(x + anp.swapaxes(x, -1, -2))[0]", [((2, 2, 2), "R")], (0,)),
    ("eigh |vecs|", "lambda anp, x: anp.abs(anp.linalg.eigh(x + x.T)[1])", [((3, 3), "R")], (0,)),
    ("eigh |vecs| UPLO=U", "lambda anp, x: anp.abs(anp.linalg.eigh(x + x.T, 'U')[1])", [((3, 3), "R")], (0,)),
    ("eigh reads only the lower triangle", "lambda anp, x: anp.linalg.eigh(x)[0]", [((3, 3), "R")], (0,)),
    ("eigh reads only the upper triangle", "lambda anp, x: anp.linalg.eigh(x, UPLO='U')[0]", [((3, 3), "R")], (0,)),
    ("eig vals sym-part", "lambda anp, x: anp.real(anp.linalg.eig(x + x.T + 3 * anp.eye(3))[0])", [((3, 3), "R")], (0,)),
    ("inv", "lambda anp, x: anp.linalg.inv(x + 3 * anp.eye(3))", [((3, 3), "R")], (0,)),
    ("inv complex", "lambda anp, x: anp.linalg.inv(x + 3 * anp.eye(2))", [((2, 2), "C")], (0,)),
    ("det", "lambda anp, x: anp.linalg.det(x)", [((3, 3), "R")], (0,)),
    ("det complex", "lambda anp, x: anp.linalg.det(x)", [((2, 2), "C")], (0,)),
    ("slogdet stacked", "lambda anp, x: anp.linalg.slogdet(x + 3 * anp.eye(2))[1]", [((2, 2, 2), "R")], (0,)),
    ("slogdet complex", "lambda anp, x: anp.linalg.slogdet(x + 3 * anp.eye(2))[1]", [((2, 2), "C")], (0,)),
    ("pinv stacked", "lambda anp, x: anp.linalg.pinv(x)", [((2, 3, 2), "R")], (0,)),
    ("pinv square", "lambda anp, x: anp.linalg.pinv(x + 3 * anp.eye(3))", [((3, 3), "R")], (0,)),
    ("pinv complex", "lambda anp, x: anp.linalg.pinv(x)", [((3, 2), "C")], (0,)),
    ("solve complex", "lambda anp, x, y: anp.linalg.solve(x + 3 * anp.eye(2), y)", [((2, 2), "C"), ((2, 2), "C")], (0, 1)),
    ("solve real A complex b", "lambda anp, x, y: anp.linalg.solve(x + 3 * anp.eye(2), y)", [((2, 2), "R"), ((2,), "C")], (0, 1)),
    ("solve stacked A, matrix b", "lambda anp, x, y: anp.linalg.solve(x + 3 * anp.eye(2), y)", [((3, 2, 2), "R"), ((3, 2, 2), "R")], (0, 1)),
    ("solve stack of matrices, one vector", "lambda anp, x, y: anp.linalg.solve(x + 3 * anp.eye(2), y)", [((3, 2, 2), "R"), ((2,), "R")], (0, 1)),
    ("solve stack of matrices, one matrix", "lambda anp, x, y: anp.linalg.solve(x + 3 * anp.eye(2), y)", [((3, 2, 2), "R"), ((2, 2), "R")], (0, 1)),
    ("solve broadcast batch both", "lambda anp, x, y: anp.linalg.solve(x + 3 * anp.eye(2), y)", [((2, 1, 2, 2), "R"), ((3, 2, 1), "R")], (0, 1)),
    ("solve broadcast A", "lambda anp, x, y: anp.linalg.solve(x + 3 * anp.eye(2), y)", [((2, 2), "R"), ((3, 2, 2), "R")], (0, 1)),
    ("matrix_power 0", "lambda anp, x: anp.linalg.matrix_power(x, 0) + x", [((2, 2), "R")], (0,)),
    ("matrix_power 2 stacked", "lambda anp, x: anp.linalg.matrix_power(x, 2)", [((2, 2, 2), "R")], (0,)),
    ("cholesky then solve", "lambda anp, x, y: anp.linalg.solve(anp.linalg.cholesky(anp.dot(x, x.T) + 4 * anp.eye(3)), y)", [((3, 3), "R"), ((3,), "R")], (0, 1)),
    ("norm of inv", "lambda anp, x: anp.linalg.norm(anp.linalg.inv(x + 3 * anp.eye(2)), 'fro')", [((2, 2), "R")], (0,)),
    ("norm keepdims tuple axis", "lambda anp, x: anp.linalg.norm(x, axis=(0, 2), keepdims=True)", [((2, 3, 2), "R")], (0,)),
    ("norm nuc keepdims", "lambda anp, x: anp.linalg.norm(x, 'nuc', axis=(1, 2), keepdims=True)", [((2, 2, 3), "R")], (0,)),
    ("norm ord=2 vector axis", "lambda anp, x: anp.linalg.norm(x, 2, axis=0)", [((3, 2), "R")], (0,)),
    ("norm ord=2 matrix", "lambda anp, x: anp.linalg.norm(x, 2)", [((3, 2), "R")], (0,)),
    ("norm ord=2 tuple axis", "lambda anp, x: anp.linalg.norm(x, 2, axis=(0, 1))", [((2, 2, 2), "R")], (0,)),
    ("tensorsolve", "lambda anp, x, y: anp.linalg.tensorsolve(x.reshape(2, 2, 4) + anp.eye(4).reshape(2, 2, 4) * 3, y)", [((4, 4), "R"), ((2, 2), "R")], (0, 1)),
    ("tensorinv", "lambda anp, x: anp.linalg.tensorinv(x.reshape(4, 2, 2) + anp.eye(4).reshape(4, 2, 2) * 3, ind=1)", [((4, 4), "R")], (0,)),
    ("cond", "lambda anp, x: anp.linalg.cond(x + 3 * anp.eye(2))", [((2, 2), "R")], (0,)),
    ("matrix_rank blocks flow", "lambda anp, x: x * anp.linalg.matrix_rank(x)", [((2, 2), "R")], (0,)),
    ("lstsq", "lambda anp, x, y: anp.linalg.lstsq(x, y, rcond=None)[0]", [((3, 2), "R"), ((3,), "R")], (0, 1)),
    # reductions: option combinations
    ("var tuple axis keepdims ddof", "lambda anp, x: anp.var(x, axis=(0, -1), keepdims=True, ddof=1)", [((2, 3, 2), "R")], (0,)),
    ("std tuple axis keepdims ddof", "lambda anp, x: anp.std(x, axis=(1, 0), keepdims=True, ddof=1)", [((2, 3, 2), "R")], (0,)),
    ("std axis=None keepdims", "lambda anp, x: anp.std(x, keepdims=True)", [((2, 3), "R")], (0,)),
    ("mean tuple negative axes keepdims", "lambda anp, x: anp.mean(x, axis=(-1, -3), keepdims=True)", [((2, 3, 2), "R")], (0,)),
    ("prod tuple axis keepdims", "lambda anp, x: anp.prod(x, axis=(0, 2), keepdims=True)", [((2, 3, 2), "P")], (0,)),
    ("max tuple axis keepdims", "lambda anp, x: anp.max(x, axis=(0, 2), keepdims=True)", [((2, 3, 2), "P")], (0,)),
    ("min negative axis keepdims", "lambda anp, x: anp.min(x, axis=-2, keepdims=True)", [((2, 3, 2), "P")], (0,)),
    ("sum of broadcast product negative axis", "lambda anp, x, y: anp.sum(x * y, axis=-1, keepdims=True)", [((2, 1, 3), "R"), ((4, 1), "R")], (0, 1)),
    ("cumsum then reverse then diff", "lambda anp, x: anp.diff(anp.cumsum(x, axis=1)[:, ::-1], axis=1)", [((2, 4), "R")], (0,)),
    ("gradient of its own gradient chain", "lambda anp, x: anp.gradient(anp.gradient(x))", [((5,), "R")], (0,)),
    ("einsum repeated label operand", "lambda anp, x, y: anp.einsum('iij,jk->ik', x, y)", [((2, 2, 3), "R"), ((3, 2), "R")], (0, 1)),
    ("einsum implicit output", "lambda anp, x, y: anp.einsum('ij,jk', x, y)", [((2, 3), "R"), ((3, 2), "R")], (0, 1)),
    ("einsum implicit output transposes", "lambda anp, x, y: anp.einsum('ba,ca', x, y)", [((2, 3), "R"), ((4, 3), "R")], (0, 1)),
    ("einsum trace of product", "lambda anp, x, y: anp.einsum('ij,ji', x, y)", [((2, 3), "R"), ((3, 2), "R")], (0, 1)),
    ("einsum scalar operand", "lambda anp, x, y: anp.einsum(',ij->ij', x, y)", [((), "R"), ((2, 2), "R")], (0, 1)),
    ("matmul broadcast both batch", "lambda anp, x, y: anp.matmul(x, y)", [((2, 1, 2, 3), "R"), ((3, 3, 2), "R")], (0, 1)),
    ("matmul vec x batch", "lambda anp, x, y: anp.matmul(x, y)", [((3,), "R"), ((2, 3, 2), "R")], (0, 1)),
    ("matmul batch x vec", "lambda anp, x, y: anp.matmul(x, y)", [((2, 2, 3), "R"), ((3,), "R")], (0, 1)),
    ("dot N-D x N-D", "lambda anp, x, y: anp.dot(x, y)", [((2, 2, 3), "R"), ((2, 3, 2), "R")], (0, 1)),
    ("dot 1-D x N-D", "lambda anp, x, y: anp.dot(x, y)", [((3,), "R"), ((2, 3, 2), "R")], (0, 1)),
    ("dot N-D x 1-D", "lambda anp, x, y: anp.dot(x, y)", [((2, 2, 3), "R"), ((3,), "R")], (0, 1)),
    ("tensordot 0-d", "lambda anp, x, y: anp.tensordot(x, y, 0)", [((), "R"), ((2, 2), "R")], (0, 1)),
    ("tensordot 1-d x 3-d axes=1", "lambda anp, x, y: anp.tensordot(x, y, 1)", [((3,), "R"), ((3, 2, 2), "R")], (0, 1)),
    ("pad tuple widths per axis", "lambda anp, x: anp.pad(x, ((1, 2), (0, 1)), mode='constant')", [((2, 3), "R")], (0,)),
    ("pad single int 3-D", "lambda anp, x: anp.pad(x, 1, mode='constant')", [((2, 1, 2), "R")], (0,)),
    ("pad pair", "lambda anp, x: anp.pad(x, (2, 1), mode='constant')", [((2, 2), "R")], (0,)),
    ("getitem mixed int slice array", "lambda anp, x: x[1, ::-1, [0, 2, 2]]", [((2, 3, 3), "R")], (0,)),
    ("getitem bool mask then int", "lambda anp, x: x[" + _np + ".array([True, False, True])][1]", [((3, 2), "R")], (0,)),
    ("getitem newaxis ellipsis int", "lambda anp, x: x[None, ..., 1]", [((2, 3), "R")], (0,)),
    ("getitem two index arrays broadcast", "lambda anp, x: x[" + _np + ".array([[0], [1]]), " + _np + ".array([0, 2, 2])]", [((2, 3), "R")], (0,)),
    ("transpose then reshape F", "lambda anp, x: anp.reshape(anp.transpose(x, (2, 0, 1)), (4, 3), order='F')", [((2, 3, 2), "R")], (0,)),
    ("repeat then tile", "lambda anp, x: anp.tile(anp.repeat(x, 2, axis=1), (2, 1))", [((2, 2), "R")], (0,)),
    ("tile scalar", "lambda anp, x: anp.tile(x, 3)", [((), "R")], (0,)),
    ("repeat scalar", "lambda anp, x: anp.repeat(x, 3)", [((), "R")], (0,)),
    ("where broadcast all three", "lambda anp, x, y: anp.where(" + _np + ".array([[True], [False]]), x, y)", [((3,), "R"), ((2, 1), "R")], (0, 1)),
    ("maximum of x with itself shifted", "lambda anp, x: anp.maximum(x[:-1], x[1:])", [((5,), "P")], (0,)),
    ("stack of slices", "lambda anp, x: anp.stack([x[0], x[1] * 2, x[0] * x[1]], axis=1)", [((2, 3), "R")], (0,)),
    ("concatenate of 0-size piece", "lambda anp, x, y: anp.concatenate([x[:0], y, x])", [((2,), "R"), ((3,), "R")], (0, 1)),
    ("flatten via builtins of arrays", "lambda anp, x, y: __import__('autograd.misc.flatten', fromlist=['flatten']).flatten({'b': x * 2, 'a': [y, x[0]]})[0]", [((2,), "R"), ((2, 2), "R")], (0, 1)),
]
VALS = [0.5, -1.25, 2.0, 0.75, -0.5, 1.5, 3.0, -2.25, 0.25, 1.0, -0.75, 2.5, 1.75, -1.5, 0.625, 2.25, -0.375, 1.125]


_SHIFT = [0]


def _mk(shape, kind, off):
    off = off + _SHIFT[0]
    n = int(onp.prod(shape)) if shape != () else 1
    # dyadic base values plus a small non-dyadic offset: no sample sits exactly on a round constant a case uses as a bound / threshold / kink (clip bounds, 0, 1, ...)
    v = onp.array([VALS[(off + 3 * i) % 18] + 0.0625 * i + 0.001371 * (i + 1) + 0.000733 * (off % 13) for i in range(n)])
    if kind == "P":  # positive, pairwise distinct reals (domains of log/sqrt/power; no ties)
        v = onp.array([0.4 + 0.31 * ((off * 5 + 7 * i) % 11) + 0.013 * i + 0.05 * off for i in range(n)])
    if kind == "C":
        v = v + 1j * onp.array([VALS[(off + 7 + 5 * i) % 18] - 0.03125 * i for i in range(n)])
    a = v.reshape(shape)
    return a if shape != () else a[()]


def run_one(case):
    warnings.simplefilter("ignore")
    import autograd.numpy as anp
    from autograd.core import make_jvp, make_vjp
    label, src, spec, argnums = case
    out = []
    try:
        f0 = eval(src)
        if label.startswith("scipy:"):   # second namespace: autograd.scipy (traced) vs scipy (plain)
            import importlib
            import scipy as _sp_plain
            import scipy.integrate, scipy.linalg, scipy.signal, scipy.special, scipy.stats  # noqa
            import autograd.scipy as _sp_traced
            for sub in ("special", "signal", "linalg", "stats", "integrate"):
                importlib.import_module("autograd.scipy." + sub)
            f0_ = f0
            ag_only = "(autograd-only kwargs)" in label   # e.g. convolve(axes=, dot_axes=): no SciPy counterpart, autograd's own function is the primal
            f0 = lambda ns, *a_: f0_(anp if ag_only else ns, _sp_traced if (ns is anp or ag_only) else _sp_plain, *a_)
        args = [_mk(s, k, 4 * i) for i, (s, k) in enumerate(spec)]
        for a in argnums:
            f = lambda z: f0(anp, *[z if i == a else v for i, v in enumerate(args)])
            fp = lambda z: onp.asarray(f0(onp, *[z if i == a else v for i, v in enumerate(args)]))
            x = args[a]
            cplx_in = spec[a][1] == "C"
            y0 = fp(x)
            cplx_out = onp.iscomplexobj(y0)
            xs = onp.asarray(x)
            n_in, n_out = xs.size, y0.size
            h = 1e-6
            Ja = onp.zeros((n_out, n_in), dtype=complex)  # d(u+iv)/da
            Jb = onp.zeros((n_out, n_in), dtype=complex)
            for i in range(n_in):
                e = onp.zeros(n_in, dtype=complex if cplx_in else float)
                e[i] = 1
                e = e.reshape(xs.shape)
                e = e if xs.shape != () else e[()]
                Ja[:, i] = ((fp(x + h * e) - fp(x - h * e)) / (2 * h)).ravel()
                if cplx_in:
                    Jb[:, i] = ((fp(x + 1j * h * e) - fp(x - 1j * h * e)) / (2 * h)).ravel()
            g = _mk(y0.shape, "C" if cplx_out else "R", 11)

            def _expect(g_):
                gv = onp.asarray(g_).ravel()
                p, q = gv.real, (gv.imag if cplx_out else onp.zeros(n_out))
                re = Ja.real.T @ p - Ja.imag.T @ q
                im = Jb.imag.T @ q - Jb.real.T @ p
                return (re + 1j * im) if cplx_in else re
            exp = _expect(g)
            got_rev = None
            try:
                vjp, val = make_vjp(f, x)
                # C10: the cotangent (and the input) are the caller's memory - frozen for the call; a write raises "read-only", a silent change shows in the copy
                g_arr = g if isinstance(g, onp.ndarray) else None
                g_copy, x_copy = (g.copy() if g_arr is not None else None), (x.copy() if isinstance(x, onp.ndarray) else None)
                if g_arr is not None:
                    g_arr.flags.writeable = False
                try:
                    got = onp.asarray(vjp(g))
                    got2 = onp.asarray(vjp(g))
                    frozen_ok = (g_arr is None or onp.array_equal(g_arr, g_copy)) and (x_copy is None or onp.array_equal(x, x_copy)) and got.shape == got2.shape and onp.allclose(got, got2, rtol=0, atol=0, equal_nan=True)
                    fr_det = "cotangent and input unchanged, second application of the vjp function identical"
                except ValueError as e_:
                    if "read-only" not in str(e_):
                        raise
                    frozen_ok, fr_det = False, f"the rule writes into the caller's cotangent: {str(e_)[:80]}"
                    g = g_copy.copy()
                    got = onp.asarray(vjp(g))
                finally:
                    if g_arr is not None:
                        g_arr.flags.writeable = True
                out.append((f"{label}|arg{a}", "N-frozen", frozen_ok, fr_det if frozen_ok else (fr_det if "writes" in fr_det else "cotangent / input changed by the call, or a second application of the same vjp function differs")))
                got_rev = (got, g)
                # C10: the SAME vjp function applied to a second, different cotangent answers for that cotangent (nothing remembered from the first application)
                g2 = _mk(y0.shape, "C" if cplx_out else "R", 2)
                got3 = onp.asarray(vjp(g2))
                exp3 = _expect(g2)
                err3 = float(onp.max(onp.abs(got3.ravel() - exp3))) if got3.shape == xs.shape and n_in else (0.0 if got3.shape == xs.shape else float("inf"))
                out.append((f"{label}|arg{a}", "N-reuse", err3 <= TOL * (1 + (float(onp.max(onp.abs(exp3))) if n_in else 0.0)), f"second application with another cotangent: max error {err3:.2e}"))
                ok_shape = got.shape == xs.shape
                err = float(onp.max(onp.abs(got.ravel() - exp))) if ok_shape and n_in else 0.0
                scale = 1 + float(onp.max(onp.abs(exp))) if n_in else 1.0
                okk = ok_shape and err <= TOL * scale and (cplx_in or not onp.iscomplexobj(got) or float(onp.max(onp.abs(got.imag))) == 0.0)
                okv = onp.allclose(onp.asarray(val), y0, rtol=1e-12, atol=1e-12)
                out.append((f"{label}|arg{a}", "N-vjp", okk, f"max |vjp - conj(J^T conj g)| = {err:.2e} (scale {scale:.2f}), result shape {got.shape}, dtype {got.dtype}"))
                out.append((f"{label}|arg{a}", "N-value", bool(okv), "primal under tracing equals NumPy"))
                dt_ok = got.dtype == onp.asarray(x).dtype if onp.asarray(x).dtype in (onp.dtype("float64"), onp.dtype("complex128")) else True   # default precision: same dtype
                out.append((f"{label}|arg{a}", "N-shape", ok_shape and bool(onp.iscomplexobj(got)) == cplx_in and dt_ok,
                            f"gradient shape {got.shape} / dtype {got.dtype} for an argument of shape {xs.shape} / {'complex' if cplx_in else 'real'}"))
            except Exception as e:
                out.append((f"{label}|arg{a}", "N-vjp-raises", True, f"{type(e).__name__}: {str(e)[:80]}"))
            # ---- second order (real input only): Hessian of the scalarised function by reverse-over-reverse and forward-over-reverse
            #      against central differences of autograd's own first-order gradient (which N-vjp checks separately)
            if not cplx_in and n_in and n_in <= 9 and not any(t_ in label for t_ in ("maximum", "minimum", "fmax", "fmin", "mod ", "remainder", "abs", "sort", "eigh vecs")):
                try:
                    cw = _mk(y0.shape, "C" if cplx_out else "R", 13)
                    sfun = lambda z: anp.real(anp.sum(f(z) * cw))
                    gfun = lambda z: make_vjp(sfun, z)[0](1.0)
                    g0 = onp.asarray(gfun(x), dtype=float)
                    Hnum = onp.zeros((n_in, n_in))
                    hh = 1e-5
                    for i in range(n_in):
                        e = onp.zeros(n_in)
                        e[i] = 1
                        e = e.reshape(xs.shape) if xs.shape != () else float(e[0])
                        Hnum[:, i] = ((onp.asarray(gfun(x + hh * e), dtype=float) - onp.asarray(gfun(x - hh * e), dtype=float)) / (2 * hh)).ravel()
                    Hrr = onp.zeros((n_in, n_in))
                    Hfr = onp.zeros((n_in, n_in))
                    for i in range(n_in):
                        e = onp.zeros(n_in)
                        e[i] = 1
                        e = e.reshape(xs.shape) if xs.shape != () else float(e[0])
                        Hrr[:, i] = onp.asarray(make_vjp(lambda z: anp.sum(gfun(z) * e), x)[0](1.0), dtype=float).ravel()
                    fwd_ok = True
                    try:
                        for i in range(n_in):
                            e = onp.zeros(n_in)
                            e[i] = 1
                            e = e.reshape(xs.shape) if xs.shape != () else float(e[0])
                            Hfr[:, i] = onp.asarray(make_jvp(gfun, x)(e)[1], dtype=float).ravel()
                    except Exception:
                        fwd_ok = False   # no forward rule for some primitive of the gradient: forward-over-reverse raises (allowed)
                    sc = 1 + float(onp.max(onp.abs(Hnum)))
                    e1, e3 = float(onp.max(onp.abs(Hrr - Hnum))), float(onp.max(onp.abs(Hrr - Hrr.T)))
                    e2 = float(onp.max(onp.abs(Hfr - Hnum))) if fwd_ok else 0.0
                    okh = e1 <= 2e-4 * sc and e2 <= 2e-4 * sc and e3 <= 1e-6 * sc
                    out.append((f"{label}|arg{a}", "N-hess", okh, f"|H_rev-rev - H_fd| = {e1:.2e}, |H_fwd-rev - H_fd| = {e2:.2e}{'' if fwd_ok else ' (forward-over-reverse raises)'}, asymmetry = {e3:.2e} (scale {sc:.2f})"))
                except Exception as e:
                    out.append((f"{label}|arg{a}", "N-hess-raises", True, f"{type(e).__name__}: {str(e)[:80]}"))
            try:
                t = _mk(xs.shape, "C" if cplx_in else "R", 5)
                tv = onp.asarray(t).ravel()
                s_, r_ = tv.real, (tv.imag if cplx_in else onp.zeros(n_in))
                expj = Ja @ s_ + Jb @ r_
                val2, tang = make_jvp(f, x)(t)
                tg = onp.asarray(tang)
                errj = float(onp.max(onp.abs(tg.ravel() - (expj if cplx_out else expj.real)))) if tg.shape == y0.shape and n_out else 0.0
                okj = tg.shape == y0.shape and errj <= TOL * (1 + float(onp.max(onp.abs(expj))) if n_out else 1.0)
                out.append((f"{label}|arg{a}", "N-jvp", okj, f"max |jvp - J t| = {errj:.2e}, shape {tg.shape} vs {y0.shape}"))
                if got_rev is not None and not cplx_in and not cplx_out and tg.shape == y0.shape and got_rev[0].shape == xs.shape:
                    # C04, without finite differences: <g, J t> == <J^T g, t> for the two modes' answers themselves (rounding only)
                    lhs, rhs = float(onp.sum(onp.asarray(got_rev[1]) * tg)), float(onp.sum(got_rev[0].real * onp.asarray(t)))
                    out.append((f"{label}|arg{a}", "N-adjoint", abs(lhs - rhs) <= 1e-9 * (1 + abs(lhs) + abs(rhs)), f"<g, jvp(t)> = {lhs!r}, <vjp(g), t> = {rhs!r}"))
                out.append((f"{label}|arg{a}", "N-jvp-space", tg.shape == y0.shape and bool(onp.iscomplexobj(tg)) == bool(cplx_out),
                            f"forward-mode tangent has shape {tg.shape} dtype {tg.dtype}; the output has shape {y0.shape} dtype {onp.asarray(y0).dtype}"))
            except Exception as e:
                out.append((f"{label}|arg{a}", "N-jvp-raises", True, f"{type(e).__name__}: {str(e)[:80]}"))
    except Exception as e:
        import traceback
        tb = traceback.format_exc().strip().splitlines()
        out.append((label, "N-error", False, f"{type(e).__name__}: {str(e)[:120]} @ {tb[-3].strip() if len(tb) > 2 else ''}"))
    return out


def run(rep, tier, clauses=("N-vjp", "N-jvp", "N-value"), only_complex=False):
    cases = [c for c in CASES if (not only_complex) or any(k == "C" for _, k in c[2]) or "complex" in c[0] or "fft" in c[0]]
    if only_complex == "real-only":
        cases = [c for c in CASES if not any(k == "C" for _, k in c[2])]
    rep.bound(f"numeric stand-in: {len(cases)} configurations of complex structural rules, fft and linalg at one generic dyadic point each; central differences h=1e-6, tolerance {TOL} relative")
    from vlib.common import seed as _seed
    results = []
    shifts = [0] if tier == "quick" else [0, 1 + _seed() % 5, 7 + _seed() % 3]
    for sh in shifts:   # thorough: three generic points per configuration (the last two depend on VERIF_SEED)
        _SHIFT[0] = sh
        with mp.get_context("fork").Pool(8) as pool:
            results += [[(f"{l}@pt{sh}" if sh else l, c_, o, d) for l, c_, o, d in r] for r in pool.map(run_one, cases)]
    _SHIFT[0] = 0
    rep.extra["numeric_points_per_configuration"] = len(shifts)
    if tier == "thorough" and ({"N-vjp", "N-jvp"} & set(clauses)):      # the value checks only (C01 / C02 / C15): the other clauses would repeat the whole pass per property
        # every configuration once more with ALL sizes > 1 set to 3: an axis mix-up inside a rule fails loudly on distinct sizes and silently on equal ones
        cubes = [(l + "@cube3", src, [(tuple(3 if d > 1 else d for d in shp), k) for shp, k in spec], an) for l, src, spec, an in cases if any(any(d > 1 and d != 3 for d in shp) for shp, _ in spec)]
        with mp.get_context("fork").Pool(8) as pool:
            results += [[r_ for r_ in r if r_[1] != "N-error"] for r in pool.map(run_one, cubes)]     # NumPy itself rejecting the changed shape is not a finding
        rep.extra["numeric_cube_configurations"] = len(cubes)
    for res in results:
        for label, cl, ok, detail in res:
            if cl.endswith("-raises"):
                rep.note(f"{label}: {cl}: {detail}") if len(rep.notes) < 60 else None
                continue
            if cl != "N-error" and cl not in clauses:
                continue
            rep.bounded_case((label, cl), sample=dict(case=label, clause=cl, result=detail) if ok and len(rep.bounded_samples) < 6 else None)
            if not ok:
                base = label.replace("@pt" + label.split("@pt")[1].split("|")[0], "") if "@pt" in label else label   # the known-finding key is the configuration, not the sample point
                rep.violation(f"NUM:{cl}", base, f"{label}: {detail}", replay=dict(module="contracts.rules_numeric", label=label.split("|")[0], clause=cl, shift=int(label.split("@pt")[1]) if "@pt" in label else 0), witness=True)


def run_scale(rep):
    """linalg.norm is positively homogeneous of degree 1, so its gradient is invariant under x -> s*x (s > 0): checked at s = 1e-14 and 1e+14
    (regular, merely badly scaled points) for both modes.  Catches clamping / epsilon tricks that are invisible at unit scale."""
    warnings.simplefilter("ignore")
    import autograd.numpy as anp
    from autograd.core import make_jvp, make_vjp
    x1 = onp.array([3.0, 4.0, 12.0])
    X2 = onp.array([[1.0, 2.0, 2.0], [2.0, 3.0, 6.0]])
    for label, f, x in (("norm vec", lambda z: anp.linalg.norm(z), x1), ("norm ord=2", lambda z: anp.linalg.norm(z, 2), x1), ("norm fro", lambda z: anp.linalg.norm(z, "fro"), X2),
                        ("norm axis=1", lambda z: anp.linalg.norm(z, axis=1), X2), ("norm ord=3", lambda z: anp.linalg.norm(z, 3), x1)):
        try:
            g = onp.ones(onp.shape(f(x)))
            ref = onp.asarray(make_vjp(f, x)[0](g))
            tref = onp.asarray(make_jvp(f, x)(onp.ones_like(x))[1])
            for sc in (1e-14, 1e14):
                got = onp.asarray(make_vjp(f, sc * x)[0](g))
                tg = onp.asarray(make_jvp(f, sc * x)(onp.ones_like(x))[1])
                ok = onp.allclose(got, ref, rtol=1e-9, atol=0) and onp.allclose(tg, tref, rtol=1e-9, atol=0)
                rep.bounded_case(("N-scale", label, sc))
                if not ok:
                    rep.violation("NUM:N-scale", f"{label}|scale={sc:g}", f"{label}: gradient at {sc:g}*x is {got.ravel()[:3]} (tangent {tg.ravel()[:2]}), at x it is {ref.ravel()[:3]} (tangent {tref.ravel()[:2]}) - "
                                  "a degree-1 homogeneous function has a scale-invariant gradient", replay=dict(module="contracts.rules_numeric", scale_label=label), witness=True)
        except Exception as e:
            rep.note(f"N-scale {label}: {type(e).__name__}: {e}")


def _lowprec_one(case):
    """the same configuration with float32 / complex64 INPUTS: reverse- and forward-mode results agree with the float64 run to single precision"""
    warnings.simplefilter("ignore")
    import autograd.numpy as anp
    from autograd.core import make_jvp, make_vjp
    label, src, spec, argnums = case
    out = []
    if label.startswith("scipy:") or "astype" in label or "float32" in src or "float16" in src:
        return out
    try:
        f0 = eval(src)
        xs64 = [_mk(shp, kind, 3 + 2 * i) for i, (shp, kind) in enumerate(spec)]
        low = lambda v: (onp.asarray(v).astype(onp.complex64 if onp.iscomplexobj(v) else onp.float32) if onp.ndim(v) else (onp.complex64(v) if onp.iscomplexobj(v) else onp.float32(v)))
        xs32 = [low(v) for v in xs64]
        for a in argnums:
            f64 = lambda z, a=a: f0(anp, *[z if i == a else v for i, v in enumerate(xs64)])
            f32 = lambda z, a=a: f0(anp, *[z if i == a else v for i, v in enumerate(xs32)])
            try:
                v64, y64 = make_vjp(f64, xs64[a])
                v32, y32 = make_vjp(f32, xs32[a])
                if isinstance(y64, (tuple, list)) or onp.asarray(y64).dtype == object:
                    continue
                g = _mk(onp.shape(y64), "C" if onp.iscomplexobj(y64) else "R", 11)
                r64 = onp.asarray(v64(g))
                r32 = onp.asarray(v32(low(g) if onp.asarray(y32).dtype.itemsize <= 8 and onp.asarray(y32).dtype.kind in "fc" and onp.asarray(y32).dtype != onp.asarray(y64).dtype else g))
            except Exception:
                continue       # a loud failure in either precision is allowed
            sc = 1 + float(onp.max(onp.abs(r64))) if r64.size else 1.0
            ok = r32.shape == r64.shape and (r64.size == 0 or float(onp.max(onp.abs(r32.astype(r64.dtype) - r64))) <= 5e-3 * sc) and bool(onp.iscomplexobj(r32)) == bool(onp.iscomplexobj(r64))
            out.append((f"{label}|arg{a}", "N-lowprec", ok, f"single-precision inputs: gradient {r32.ravel()[:4].tolist()} ({r32.dtype}, shape {r32.shape}); double-precision run gives {r64.ravel()[:4].tolist()} (shape {r64.shape})"))
    except Exception as e:
        pass
    return out


def run_lowprec(rep, tier):
    """N-lowprec: every numeric configuration repeated with float32 / complex64 inputs (no finite differences: the float64 run of the same rule is the reference, which
    N-vjp checks separately).  Catches what only shows for non-default precisions: caches keyed without the dtype, casts to float64, lost imaginary parts in complex64."""
    cases = [c for c in CASES if not c[0].startswith("scipy:")]
    rep.bound(f"N-lowprec: {len(cases)} configurations with single-precision inputs, tolerance 5e-3 relative to the double-precision gradient")
    with mp.get_context("fork").Pool(8) as pool:
        results = pool.map(_lowprec_one, cases)
    for res in results:
        for label, cl, ok, detail in res:
            rep.bounded_case((label, cl))
            if not ok:
                rep.violation("NUM:N-lowprec", label, f"{label}: {detail}", replay=dict(module="contracts.rules_numeric", lowprec=label.split("|")[0]), witness=True)


def run_astype(rep):
    """x.astype(<other precision / kind>): the gradient comes back in the ARGUMENT's dtype (C05: same dtype for default-precision arguments) with the exact
    values of the (linear) cast; checked without finite differences (float32 steps are too coarse for them)."""
    warnings.simplefilter("ignore")
    import autograd.numpy as anp
    from autograd.core import make_jvp, make_vjp
    x64 = onp.array([0.5, -1.25, 2.0])
    z128 = onp.array([0.5 + 1.0j, -1.0 + 0.25j])
    w = onp.array([2.0, -3.0, 0.5])
    cases = [("float64 -> float32", x64, onp.float32, lambda y: anp.sum(y * w), w), ("float64 -> float16", x64, onp.float16, lambda y: anp.sum(y * w), w),
             ("float64 -> complex128", x64, complex, lambda y: anp.sum(anp.real(y * (2.0 + 1.0j))), onp.full(3, 2.0)), ("float64 -> float64", x64, float, lambda y: anp.sum(y * w), w),
             ("complex128 -> complex64", z128, onp.complex64, lambda y: anp.sum(anp.real(y)), onp.ones(2) + 0j),
             # the whole downstream computation stays in the NARROW dtype, so the cotangent reaching the cast is narrow too
             ("float64 -> float32 (narrow cotangent)", x64, onp.float32, lambda y: anp.sum(anp.sin(y)), onp.cos(x64)),
             ("float64 -> float16 (narrow cotangent)", x64, onp.float16, lambda y: anp.sum(y * y), 2 * x64),
             ("complex128 -> complex64 (narrow cotangent)", z128, onp.complex64, lambda y: anp.real(anp.sum(y * y)), 2 * z128)]   # df = Re(grad * dz)
    # reductions with an accumulator dtype= : the gradient still lives in the argument's space
    for nm, mk in (("sum(dtype=float32)", lambda v: anp.sum(v, dtype=onp.float32)), ("x.sum(dtype=float16)", lambda v: v.sum(dtype=onp.float16)), ("sum(axis=0, dtype=float32)", lambda v: anp.sum(anp.sum(anp.reshape(v, (3, 1)), axis=0, dtype=onp.float32))),
                   ("mean(dtype=float32)", lambda v: anp.mean(v, dtype=onp.float32)), ("prod(dtype=float32)", lambda v: anp.prod(v, dtype=onp.float32)), ("cumsum(dtype=float32)", lambda v: anp.sum(anp.cumsum(v, dtype=onp.float32)))):
        rep.bounded_case(("dtype option " + nm, "N-astype"))
        try:
            g_ = onp.asarray(make_vjp(mk, x64)[0](onp.ones((), dtype=onp.asarray(mk(x64)).dtype)))
        except Exception as e:
            rep.note(f"N-astype {nm}: raised {type(e).__name__}: {str(e)[:60]}")
            continue
        if not (g_.dtype == x64.dtype and g_.shape == x64.shape):
            rep.violation("NUM:N-astype", nm, f"{nm} of a float64 array: gradient of dtype {g_.dtype} / shape {g_.shape}; the argument is float64 of shape {x64.shape}", replay=dict(module="contracts.rules_numeric", astype=nm), witness=True)
    for lab, x, dt, post, gexp in cases:
        rep.bounded_case(("astype " + lab, "N-astype"))
        try:
            f = lambda v: post(v.astype(dt))
            vjp_, val_ = make_vjp(f, x)
            g = onp.asarray(vjp_(onp.ones((), dtype=onp.asarray(val_).dtype)[()]))      # the seed grad() itself uses: one, in the OUTPUT's dtype
            ok = g.dtype == x.dtype and g.shape == x.shape and onp.allclose(g, gexp, rtol=1e-3)
            det = f"gradient {g.tolist()} of dtype {g.dtype} for an argument of dtype {x.dtype}; expected {onp.asarray(gexp).tolist()} in the argument's dtype"
            if ok:
                try:
                    t = onp.asarray(make_jvp(lambda v: v.astype(dt), x)(onp.ones_like(x))[1])
                    ok = t.dtype == onp.dtype(dt) and t.shape == x.shape
                    det = f"tangent of x.astype({onp.dtype(dt)}) has dtype {t.dtype}"
                except NotImplementedError:
                    pass      # no forward rule for astype: loud, allowed - and it must not hide the reverse-mode verdict above
        except Exception as e:
            rep.note(f"N-astype {lab}: raised {type(e).__name__}: {str(e)[:60]}")
            continue
        if not ok:
            rep.violation("NUM:N-astype", lab, f"astype {lab}: {det}", replay=dict(module="contracts.rules_numeric", astype=lab), witness=True)


def run_space_special(rep):
    """N-space-special: functions whose OUTPUT KIND depends on the values (real_if_close of a complex array with zero imaginary parts gives a real array) or that are
    not differentiable where the kind changes: finite differences are meaningless there, but the tangent must still be an element of the output's space and
    the gradient one of the argument's space, and the two modes must be adjoint (<g, J t> == Re sum(vjp(g) * t): autograd's gradient of a real output is du/dx - i du/dy)."""
    warnings.simplefilter("ignore")
    import autograd.numpy as anp
    from autograd.core import make_jvp, make_vjp
    z0 = onp.array([0.5, -1.25, 2.0]) + 0j            # complex dtype, imaginary parts exactly zero
    tz = onp.array([1.0 + 2.0j, -0.5 + 0.25j, 0.75 - 1.0j])
    cases = [("real_if_close(zero imaginary part)", lambda v: anp.real_if_close(v), z0, tz),
             ("real_if_close(...) * 2 + 1", lambda v: anp.real_if_close(v * 2.0) + 1.0, z0, tz),
             ("real(z)", lambda v: anp.real(v), z0 + 0.5j, tz), ("imag(z)", lambda v: anp.imag(v), z0 + 0.5j, tz), ("abs(z)", lambda v: anp.abs(v), z0 + 0.5j, tz),
             ("angle(z)", lambda v: anp.angle(v), z0 + 0.5j, tz), ("real_if_close(non-negligible)", lambda v: anp.real_if_close(v), z0 + 0.5j, tz)]
    for lab, f, x, t in cases:
        rep.bounded_case((lab, "N-space-special"))
        try:
            y = onp.asarray(f(x))
            val, tan = make_jvp(f, x)(t)
            tan = onp.asarray(tan)
            g = (onp.array([1.0, -2.0, 0.5]) + (1j * onp.array([0.5, 1.0, -1.5]) if onp.iscomplexobj(y) else 0.0))
            got = onp.asarray(make_vjp(f, x)[0](g))
            ok_sp = tan.shape == y.shape and bool(onp.iscomplexobj(tan)) == bool(onp.iscomplexobj(y)) and got.shape == x.shape and bool(onp.iscomplexobj(got)) == bool(onp.iscomplexobj(x))
            det = f"output {y.dtype}, tangent {tan.dtype} {tan.shape}; argument {x.dtype}, gradient {got.dtype} {got.shape}"
            if ok_sp and not onp.iscomplexobj(y):
                lhs, rhs = float(onp.sum(g * tan)), float(onp.real(onp.sum(got * t)))     # autograd's convention for a real output: grad = du/dx - i du/dy, so du = Re(grad * dz)
                ok_sp = abs(lhs - rhs) <= 1e-9 * (1 + abs(lhs))
                det += f"; <g, jvp(t)> = {lhs!r}, Re<vjp(g) * t> = {rhs!r}"
        except Exception as e:
            rep.note(f"N-space-special {lab}: raised {type(e).__name__}: {str(e)[:60]}")
            continue
        if not ok_sp:
            rep.violation("NUM:N-space-special", lab, f"{lab}: {det}", replay=dict(module="contracts.rules_numeric", space_special=lab), witness=True)


def run_args_unmodified(rep):
    """N-args-unmodified (C10 / C06): option arguments a user keeps in variables - lists, tuples, index arrays, axis lists, shapes, widths, bounds - are exactly what
    they were after the forward evaluation, after the backward pass, after a second backward pass and after a forward-mode call; and a second call with ANOTHER input
    through the same objects gives the answer a fresh call gives."""
    import copy
    warnings.simplefilter("ignore")
    import autograd.numpy as anp
    from autograd.core import make_jvp, make_vjp
    x1, x2, x3 = onp.arange(1.0, 6.0) * 0.5, onp.arange(1.0, 7.0).reshape(2, 3) * 0.25, onp.arange(1.0, 25.0).reshape(2, 3, 4) * 0.125
    T = [
        ("tile list reps shorter than ndim", lambda o: (lambda v: anp.tile(v, o["reps"])), x2, dict(reps=[2])),
        ("tile tuple-in-list reps", lambda o: (lambda v: anp.tile(v, o["reps"])), x3, dict(reps=[2, 1])),
        ("repeat array repeats", lambda o: (lambda v: anp.repeat(v, o["r"], axis=0)), x2, dict(r=2)),
        ("getitem int array with negatives", lambda o: (lambda v: v[o["idx"]]), x1, dict(idx=onp.array([1, -1, -4, 1]))),
        ("getitem list with negatives", lambda o: (lambda v: v[o["idx"]]), x1, dict(idx=[0, -2, -2])),
        ("getitem tuple of list and slice", lambda o: (lambda v: v[o["idx"]]), x2, dict(idx=([1, -1, 0], slice(None)))),
        ("getitem bool mask", lambda o: (lambda v: v[o["m"]]), x1, dict(m=onp.array([True, False, True, True, False]))),
        ("transpose axes list", lambda o: (lambda v: anp.transpose(v, o["ax"])), x3, dict(ax=[2, 0, -2])),
        ("reshape shape list", lambda o: (lambda v: anp.reshape(v, o["s"])), x3, dict(s=[4, -1])),
        ("pad width lists", lambda o: (lambda v: anp.pad(v, o["w"], mode="constant")), x2, dict(w=[[1, 0], [0, 2]])),
        ("roll shift / axis lists", lambda o: (lambda v: anp.roll(v, o["sh"], axis=o["ax"])), x3, dict(sh=[1, -2], ax=[0, -1])),
        ("moveaxis lists", lambda o: (lambda v: anp.moveaxis(v, o["a"], o["b"])), x3, dict(a=[0, -1], b=[-1, 0])),
        ("sum axis list->tuple", lambda o: (lambda v: anp.sum(v, axis=tuple(o["ax"]))), x3, dict(ax=[-1, 0])),
        ("clip array bounds", lambda o: (lambda v: anp.clip(v, o["lo"], o["hi"])), x1, dict(lo=onp.array([0.6, 0.0, 2.0, 0.0, 1.0]), hi=onp.full(5, 2.2))),
        ("where condition and constant", lambda o: (lambda v: anp.where(o["c"], v, o["k"])), x1, dict(c=onp.array([True, False, True, False, True]), k=onp.full(5, 9.0))),
        ("concatenate list object", lambda o: (lambda v: anp.concatenate(o["L"] + [v])), x1, dict(L=[onp.ones(2), onp.zeros(1)])),
        ("einsum constant operand", lambda o: (lambda v: anp.einsum("ij,jk->ik", v, o["B"])), x2, dict(B=onp.arange(6.0).reshape(3, 2))),
        ("tensordot axes lists", lambda o: (lambda v: anp.tensordot(v, o["B"], axes=o["ax"])), x3, dict(B=onp.arange(12.0).reshape(4, 3), ax=[[1, 2], [1, 0]])),
        ("split indices list", lambda o: (lambda v: anp.concatenate(anp.split(v, o["i"])[::-1])), x1, dict(i=[1, 3])),
        ("linalg.norm axis tuple", lambda o: (lambda v: anp.linalg.norm(v, axis=o["ax"])), x3, dict(ax=(-1, 0))),
        ("fft n and axis", lambda o: (lambda v: anp.real(anp.fft.fft(v, *o["a"]))), x2, dict(a=[4, 0])),
        ("fftn s / axes lists", lambda o: (lambda v: anp.real(anp.fft.fftn(v, s=o["s"], axes=o["ax"]))), x3, dict(s=[2, 4], ax=[0, -1])),
        ("diff prepend constant", lambda o: (lambda v: anp.diff(v, axis=0)), x2, dict()),
    ]
    import autograd.numpy.fft  # noqa
    import autograd.numpy.linalg  # noqa

    def same(a, b):
        if isinstance(a, dict):
            return isinstance(b, dict) and list(a) == list(b) and all(same(a[k_], b[k_]) for k_ in a)
        if isinstance(a, onp.ndarray) or isinstance(b, onp.ndarray):
            return isinstance(a, onp.ndarray) and isinstance(b, onp.ndarray) and a.dtype == b.dtype and a.shape == b.shape and bool(onp.all(a == b))
        if isinstance(a, (list, tuple)):
            return type(a) is type(b) and len(a) == len(b) and all(same(u, v) for u, v in zip(a, b))
        return type(a) is type(b) and a == b
    for lab, mk, x, opts in T:
        rep.bounded_case((lab, "N-args-unmodified"))
        ref = copy.deepcopy(opts)
        x_before = x.copy()
        try:
            f = mk(opts)
            stages = []
            vjp, val = make_vjp(f, x)
            stages.append(("forward evaluation", same(opts, ref)))
            g = onp.cos(onp.arange(onp.asarray(val).size) * 0.7).reshape(onp.shape(val))
            r1 = onp.asarray(vjp(g))
            stages.append(("backward pass", same(opts, ref)))
            r2 = onp.asarray(vjp(g * 1.0))
            stages.append(("second backward pass", same(opts, ref) and onp.array_equal(r1, r2)))
            try:
                make_jvp(f, x)(onp.ones_like(x))
                stages.append(("forward-mode call", same(opts, ref)))
            except NotImplementedError:
                pass
            # a later call through the SAME option objects equals a call through fresh copies
            xx = x * 1.5 + 0.25
            again = onp.asarray(make_vjp(f, xx)[0](g))
            fresh = onp.asarray(make_vjp(mk(copy.deepcopy(ref)), xx)[0](g))
            stages.append(("later call equals a fresh one", again.shape == fresh.shape and onp.array_equal(again, fresh)))
            stages.append(("input array unchanged", onp.array_equal(x, x_before)))
            bad = [nm for nm, ok in stages if not ok]
        except Exception as e:
            rep.note(f"N-args-unmodified {lab}: raised {type(e).__name__}: {str(e)[:60]}")
            continue
        if bad:
            rep.violation("NUM:N-args-unmodified", lab, f"{lab}: option objects {ref!r} -> {opts!r}; failed after: {bad}", replay=dict(module="contracts.rules_numeric", args_unmodified=lab), witness=True)


def run_accum(rep):
    """Accumulation of several cotangent contributions to ONE value (dense and indexed/sparse, in every order) must be exact, also when a contribution is the incoming
    cotangent itself handed on unchanged (identity / reshape / take paths).  The maps are
    LINEAR (C-linear), so the exact answer is J^T g with J assembled from plain-NumPy evaluations on basis vectors."""
    warnings.simplefilter("ignore")
    import autograd.numpy as anp
    from autograd.core import make_vjp
    idx = [3, 3, 0, 1]
    uses = {"D": lambda x, c: c * x, "S": lambda x, c: c * x[idx], "V": lambda x, c: c * x[::-1], "T": lambda x, c: c * anp.take(x, [1, 1, 2, 0]),
            "I": lambda x, c: x, "R": lambda x, c: anp.reshape(x, (2, 2)).ravel(), "P": lambda x, c: x[idx],
            # one position selected through DIFFERENT index values (negative and non-negative alias), list and integer-array spelling
            "A": lambda x, c: c * x[[1, -3, 1, -1]], "B": lambda x, c: c * x[onp.array([0, -4, 2, -2])]}   # I/R/P hand the cotangent on UNCHANGED (no widening product)
    values = {"float64": onp.array([0.5, -1.5, 2.0, 4.0]), "complex128": onp.array([1.0 + 2.0j, -0.5j, 3.0 + 0.0j, 0.25 - 1.0j])}
    # cotangents are elements of the OUTPUT's vector space (same dtype as the value here).  A seed of a narrower dtype (int / bool / real-for-complex) is
    # outside the property's domain: on the unchanged tree the order dense, dense, sparse already truncates it (int + int stays int, then add.at).
    cots = {"float64": [("float64", onp.array([1.0, 0.5, 2.0, -1.0])), ("float64 one-hot", onp.array([0.0, 1.0, 0.0, 0.0]))],
            "complex128": [("complex128", onp.array([1.0 + 1.0j, 2.0, 3.0 - 0.5j, -1.0])), ("complex128 real-valued", onp.array([1.0, 2.0, 3.0, -1.0]) + 0.0j)]}
    for vk, x0 in values.items():
        cs = [0.5, 0.25, 2.0] if vk == "float64" else [0.5, 1.0j, 2.0 - 0.5j]
        for order in ("DS", "SD", "DDS", "SSD", "DSD", "VS", "SV", "DT", "TD", "DVS", "IS", "SI", "IIS", "ISI", "IP", "PI", "RS", "SR", "IPS", "PPI", "IRP",
                      "A", "B", "DA", "AD", "AB", "BA", "SB", "IA", "IB", "ABD"):
            f = lambda x, order=order: sum((uses[u](x, cs[i]) for i, u in enumerate(order)), 0 * x) if order[0] not in "IRP" else sum((uses[u](x, cs[i]) for i, u in enumerate(order[1:], 1)), uses[order[0]](x, cs[0]))
            n = x0.size
            J = onp.stack([onp.asarray(f(onp.eye(n, dtype=x0.dtype)[i])) for i in range(n)], axis=1)   # plain NumPy, f linear
            try:
                vjp, _ = make_vjp(f, x0)
            except Exception as e:
                rep.note(f"N-accum {vk} {order}: forward raised {type(e).__name__}")
                continue
            for ck, g in cots[vk]:
                lab = f"accum[{order}]|value {vk}|cotangent {ck}"
                rep.bounded_case((lab, "N-accum"))
                try:
                    got = onp.asarray(vjp(g))
                    exp = J.T @ g
                    ok = got.shape == x0.shape and onp.allclose(got, exp, rtol=1e-12, atol=1e-12) and (vk != "float64" or not onp.iscomplexobj(got))
                    det = f"vjp(g) = {got.tolist()} (dtype {got.dtype}); exact J^T g = {exp.tolist()}"
                except Exception as e:   # a loud failure is the property's 'or raises'
                    rep.note(f"N-accum {lab}: raised {type(e).__name__}: {str(e)[:60]}") if len(rep.notes) < 60 else None
                    continue
                if not ok:
                    rep.violation("NUM:N-accum", lab, f"{lab}: {det}", replay=dict(module="contracts.rules_numeric", accum=lab), witness=True)


def run_zero_cotangent(rep):
    """Second order at points where a first-order cotangent is exactly ZERO (but not identically zero): rules that branch on the VALUE of the
    cotangent (`if anp.any(g)`) prune a term whose derivative does not vanish.  f(A) = sum((v(A) - V0)^2) with V0 = v(A0): the gradient at A0 is 0, the
    Hessian is not; reverse-over-reverse must agree with central differences of autograd's own gradient."""
    warnings.simplefilter("ignore")
    import autograd.numpy as anp
    from autograd.core import make_vjp
    A0 = onp.array([[2.0, 0.5, -0.25], [0.5, -1.0, 0.75], [-0.25, 0.75, 0.5]])
    progs = {
        "eigh vectors": (lambda A, V0: anp.sum((anp.linalg.eigh(A)[1] - V0) ** 2), lambda A: onp.linalg.eigh(A)[1]),
        "eigh values": (lambda A, V0: anp.sum((anp.linalg.eigh(A)[0] - V0) ** 2), lambda A: onp.linalg.eigh(A)[0]),
        "svd vectors": (lambda A, V0: anp.sum((anp.linalg.svd(A)[0] - V0) ** 2), lambda A: onp.linalg.svd(A)[0]),
        "qr Q": (lambda A, V0: anp.sum((anp.linalg.qr(A)[0] - V0) ** 2), lambda A: onp.linalg.qr(A)[0]),
        "sort": (lambda A, V0: anp.sum((anp.sort(anp.ravel(A)) - V0) ** 2), lambda A: onp.sort(onp.ravel(A))),
        "max": (lambda A, V0: (anp.max(A) - V0) ** 2, lambda A: onp.max(A)),
    }
    sym = lambda B: onp.tril(B) + onp.tril(B, -1).T    # eigh reads the lower triangle
    for lab, (f, plain) in progs.items():
        try:
            V0 = plain(A0)
            grad_at = lambda A: onp.asarray(make_vjp(lambda Z: f(Z, V0), A)[0](1.0), dtype=float)
            n = A0.size
            hh = 1e-5
            Hnum = onp.zeros((n, n))
            Hrr = onp.zeros((n, n))
            for i in range(n):
                e = onp.zeros(n)
                e[i] = 1
                e = e.reshape(A0.shape)
                Hnum[:, i] = ((grad_at(A0 + hh * e) - grad_at(A0 - hh * e)) / (2 * hh)).ravel()
                Hrr[:, i] = onp.asarray(make_vjp(lambda Z: anp.sum(make_vjp(lambda Y: f(Y, V0), Z)[0](1.0) * e), A0)[0](1.0), dtype=float).ravel()
            err, sc = float(onp.max(onp.abs(Hrr - Hnum))), 1 + float(onp.max(onp.abs(Hnum)))
            rep.bounded_case(("N-hess0", lab))
            if not err <= 2e-4 * sc:
                rep.violation("NUM:N-hess0", lab, f"{lab}: gradient at A0 is {float(onp.max(onp.abs(grad_at(A0)))):.1e} (zero cotangent into the rule); |H_rev-rev - H_fd| = {err:.2e} (scale {sc:.2f}), "
                              f"max |H_rev-rev| = {float(onp.max(onp.abs(Hrr))):.2e}", replay=dict(module="contracts.rules_numeric", hess0=lab), witness=True)
        except Exception as e:
            rep.note(f"N-hess0 {lab}: {type(e).__name__}: {str(e)[:80]}")


NEAR_TIE = [
    ("max 1-D", "lambda anp, x: anp.max(x)", (4,)), ("min 1-D", "lambda anp, x: anp.min(-x)", (4,)), ("amax axis=1", "lambda anp, x: anp.amax(x, axis=1)", (2, 4)),
    ("amin axis=0 keepdims", "lambda anp, x: anp.amin(-x, axis=0, keepdims=True)", (4, 2)), ("max axis=(0,1)", "lambda anp, x: anp.max(x, axis=(0, 1))", (2, 2, 2)),
    ("maximum of halves", "lambda anp, x: anp.maximum(x[:2], x[2:])", (4,)), ("fmax of halves", "lambda anp, x: anp.fmax(x[:2], x[2:])", (4,)),
    ("minimum of halves", "lambda anp, x: anp.minimum(-x[:2], -x[2:])", (4,)), ("sort", "lambda anp, x: anp.sort(x)", (4,)), ("method max", "lambda anp, x: x.max()", (4,)),
    ("abs near 0", "lambda anp, x: anp.abs(x - 1.7)", (4,)), ("norm ord=inf", "lambda anp, x: anp.linalg.norm(x, __import__('numpy').inf)", (4,)),
]


def run_near_tie(rep):
    """N-near-tie: regular (tie-free) points at which two entries differ by a relative 3e-7.  The function is differentiable there and the exact
    Jacobian is a 0/1 selection matrix, computed here from plain NumPy on +-1e-9 perturbations of each entry (smaller than the gap, so no entry
    changes rank); reverse and forward mode must both reproduce it, and <g, J t> == <J^T g, t>."""
    import autograd.numpy as anp
    from autograd.core import make_jvp, make_vjp
    rep.bound(f"near-tie points: {len(NEAR_TIE)} selection-type configurations at one point whose two largest entries differ by 3e-7 relative (bounded)")
    warnings.simplefilter("ignore")
    for label, src, shape in NEAR_TIE:
        f0 = eval(src)
        n = int(onp.prod(shape))
        base = onp.array([0.3, 1.7, 1.7 * (1 - 3e-7), -0.2, 0.9, 1.1, -1.3, 0.6])[:n]
        x = onp.roll(base, 1 if len(shape) > 1 else 0).reshape(shape)
        y0 = onp.asarray(f0(onp, x))
        J = onp.zeros((y0.size, n))
        h = 1e-9
        for i in range(n):
            e = onp.zeros(n)
            e[i] = h
            J[:, i] = onp.round(((onp.asarray(f0(onp, x + e.reshape(shape))) - onp.asarray(f0(onp, x - e.reshape(shape)))) / (2 * h)).ravel(), 3)
        g = _mk(y0.shape, "R", 11)
        t = _mk(shape, "R", 5)
        f = lambda z: f0(anp, z)
        try:
            got = onp.asarray(make_vjp(f, x)[0](g))
            tang = onp.asarray(make_jvp(f, x)(t)[1])
            ev = float(onp.max(onp.abs(got.ravel() - J.T @ onp.asarray(g).ravel()))) if got.shape == x.shape else float("inf")
            ej = float(onp.max(onp.abs(tang.ravel() - J @ t.ravel()))) if tang.shape == y0.shape else float("inf")
            ea = abs(float(onp.sum(onp.asarray(g) * tang)) - float(onp.sum(got * t)))
            ok = ev <= 1e-9 and ej <= 1e-9 and ea <= 1e-9
            det = f"|vjp - J^T g| = {ev:.2e}, |jvp - J t| = {ej:.2e}, |<g,Jt> - <J^T g,t>| = {ea:.2e} at a point whose two largest entries differ by 3e-7 relative"
        except Exception as e:
            ok, det = True, f"raises {type(e).__name__} (allowed)"
            rep.note(f"near-tie {label}: {det}")
        rep.bounded_case(("N-near-tie", label), sample=dict(case=label, clause="N-near-tie", result=det) if ok and len(rep.bounded_samples) < 6 else None)
        if not ok:
            rep.violation("NUM:N-near-tie", label, f"{label}: {det}", replay=dict(module="contracts.rules_numeric", near_tie=label), witness=True)


def replay(spec):
    for key, fn in (("space_special", run_space_special), ("args_unmodified", run_args_unmodified)):
        if key in spec:
            from vlib.common import Report
            r = Report("replay", "quick", "other", "replay")
            r.known = {"findings": []}
            fn(r)
            bad = [v for v in r.violations if v["case"] == spec[key]]
            return (not bad), (bad[0]["what"] if bad else "holds"), "the option objects / spaces before the call"
    if "near_tie" in spec:
        from vlib.common import Report
        r = Report("replay", "quick", "other", "replay")
        r.known = {"findings": []}
        run_near_tie(r)
        bad = [v for v in r.violations if v["case"] == spec["near_tie"]]
        return (not bad), (bad[0]["what"] if bad else "holds"), "0/1 selection Jacobian from plain NumPy on perturbations smaller than the gap"
    if "hess0" in spec:
        from vlib.common import Report
        r = Report("replay", "quick", "other", "replay")
        r.known = {"findings": []}
        run_zero_cotangent(r)
        bad = [v for v in r.violations if v["case"] == spec["hess0"]]
        return (not bad), (bad[0]["what"] if bad else "holds"), "central differences of autograd's own first-order gradient"
    if "accum" in spec:
        from vlib.common import Report
        r = Report("replay", "quick", "other", "replay")
        r.known = {"findings": []}
        run_accum(r)
        bad = [v for v in r.violations if v["case"] == spec["accum"]]
        return (not bad), (bad[0]["what"] if bad else "holds"), "J^T g for the linear map, J from plain NumPy on basis vectors"
    if "scale_label" in spec:
        from vlib.common import Report
        r = Report("replay", "quick", "other", "replay")
        r.known = {"findings": []}
        run_scale(r)
        bad = [v for v in r.violations if v["case"].startswith(spec["scale_label"])]
        return (not bad), (bad[0]["what"] if bad else "holds"), "scale invariance of the gradient of a norm"
    if spec.get("label", "").endswith("@cube3"):
        for c in CASES:
            if c[0] + "@cube3" == spec["label"]:
                c2 = (spec["label"], c[1], [(tuple(3 if d > 1 else d for d in shp), k) for shp, k in c[2]], c[3])
                bad = [(l, cl, d) for l, cl, ok, d in run_one(c2) if not ok and cl != "N-error"]
                return (not bad), (str(bad) if bad else "holds"), "conj(J_R^T conj g) from central differences on NumPy"
    for c in CASES:
        if c[0] == spec["label"]:
            _SHIFT[0] = int(spec.get("shift", 0))
            bad = [(l, cl, d) for l, cl, ok, d in run_one(c) if not ok]
            _SHIFT[0] = 0
            return (not bad), (str(bad) if bad else "holds"), "conj(J_R^T conj g) from central differences on NumPy"
    return True, "case removed", ""
