"""Contracts of autograd.core.add_outgrads / sum_outgrads / sparse_add / VSpace.add / VSpace.mut_add (DESIGN §4).

Ghost state: val (the term of an Opaque), owned(p) (symbolic Bool), dense(g) for a SparseObject (scatter of its payload
into zeros).  The REAL functions run; the mutable flag and the ownership of the previous accumulator are symbolic.

add_outgrads(prev_g_flagged, g)
  requires  prev is None, or (p, m) with  m => owned(p);  p is never sparse
  ensures   AO-value    val(r) = dense(g)            if prev is None
                        val(r) = val(p) (+) dense(g)  otherwise      (with 0 (+) x kept syntactic; C13 supplies 0+x=x)
            AO-own      m' => owned(r)                                (result flag is only True for owned memory)
            AO-share    not m' => prev is None and r is g             (an unowned result is exactly the shared first contribution)
            AO-frame    every in-place write goes to memory that is owned: p when m holds, or a buffer allocated here
                        - never to g, never to p when m is false      (this is the obligation that fails if a flag is flipped)
            AO-dense    r is never a SparseObject
  inductive: the result satisfies the requires of the next call, so any sequence of k sparse and m dense contributions in
  any order accumulates to the left fold of dense(.) (C11 mixing, unbounded k, m) - obligation AO-inductive.
sum_outgrads(gs) = first component of the fold from None.
VSpace.mut_add(x_prev, x_new): x_prev None -> accumulates into fresh zeros; writes only x_prev / the fresh buffer.
"""
import itertools

import z3

from vlib import concolic as cx
from vlib import stubs
from vlib.common import CheckerError
from vlib.stubs import Opaque, ovs

FN = "autograd.core.add_outgrads"


def make_sparse(C, OVS, tag, log):
    payload = ("payload", tag)

    def mut_add(A):
        # contract of the scatter closures built by untake / container_untake: in-place add into A, returns A
        stubs.WRITES.append((A, A.owned))
        A.term = ("scatter+", A.term, payload)
        log.append(("scatter", A))
        return A

    return C.SparseObject(OVS(Opaque(("shape-of", tag))), mut_add), payload


def one(C, L, prevkind, gkind):
    OVS = ovs()
    del stubs.WRITES[:]
    log = []
    if gkind == "sparse":
        g, payload = make_sparse(C, OVS, "g", log)
        dense_g = ("scatter+", ("zeros", ("shape-of", "g")), payload)
        gterm = payload
    else:
        g = Opaque(("g",), owned=False)  # a cotangent we were handed: foreign memory
        dense_g = ("g",)
    if prevkind == "none":
        prev, p, m, own = None, None, None, None
    else:
        m = L.bool("m")
        own = L.bool("own_p")
        if L.model is None:
            cx.assume(cx.SBool(z3.Implies(m.t, own.t)))
        else:
            if m and not own:
                raise CheckerError("replay model violates requires")
        p = Opaque(("p",), owned=own)
        prev = (p, m)
    r = C.add_outgrads(prev, g)
    return dict(prevkind=prevkind, gkind=gkind, g=g, p=p, m=m, own=own, r=r, dense_g=dense_g, writes=list(stubs.WRITES), log=log)


def clauses(C, o):
    B = z3.BoolVal
    out = []
    r = o["r"]
    if not (isinstance(r, tuple) and len(r) == 2):
        return [("AO-shape", B(False))]
    rv, rm = r
    out.append(("AO-dense", B(type(rv) not in C.sparse_object_types and isinstance(rv, Opaque))))
    if not isinstance(rv, Opaque):
        return out
    g, p = o["g"], o["p"]
    if o["prevkind"] == "none":
        exp = o["dense_g"]
    else:
        exp = None
    # value: accept the syntactic forms the six branches produce; all denote val(p) (+) dense(g) modulo 0 (+) x = x
    t = rv.term
    if o["prevkind"] == "none":
        ok = t == o["dense_g"]
    elif o["gkind"] == "dense":
        ok = t == ("+", ("p",), ("g",))
    else:
        payload = o["dense_g"][2]
        ok = _norm(t) == ("scatter+", ("p",), payload)  # modulo 0 (+) x = x (copy-on-first-sparse branch)
    out.append(("AO-value", B(ok)))
    rmb = cx._b(rm) if not isinstance(rm, bool) else B(rm)
    rown = cx._b(rv.owned) if not isinstance(rv.owned, bool) else B(rv.owned)
    out.append(("AO-own", z3.Implies(rmb, rown)))
    out.append(("AO-share", z3.Implies(z3.Not(rmb), B(o["prevkind"] == "none" and rv is g))))
    fr = []
    for obj, owned_at_write in o["writes"]:
        fr.append(B(obj is not g))
        fr.append(cx._b(owned_at_write) if not isinstance(owned_at_write, bool) else B(owned_at_write))
    out.append(("AO-frame", z3.And(fr + [B(True)])))
    # inductive: (rv, rm) satisfies the requires for prev of the next call
    out.append(("AO-inductive", z3.And(z3.Implies(rmb, rown), B(type(rv) not in C.sparse_object_types))))
    return out


def run(rep, tier, only=None):
    import autograd.core as C

    rep.function(FN, C.add_outgrads)
    rep.function("autograd.core.sum_outgrads", C.sum_outgrads)
    rep.function("autograd.core.sparse_add", C.sparse_add)
    rep.function("autograd.core.VSpace.mut_add", C.VSpace.mut_add)
    rep.function("autograd.core.VSpace.add", C.VSpace.add)
    rep.bound(f"{FN}: previous accumulator {{None, (p, m)}} x contribution {{dense, sparse}} enumerated; flag m and ownership of p symbolic "
              "with m => owned(p); any sequence length by the inductive clause")
    for prevkind, gkind in itertools.product(("none", "some"), ("dense", "sparse")):
        case = f"prev-{prevkind}.g-{gkind}"

        def harness(L):
            return one(C, L, prevkind, gkind)

        results, _ = cx.explore(harness)
        for r in results:
            if r.exc is not None:
                rep.obligation(f"{FN}:{case}:no-exception", False, "z3", 0, "E1b")
                rep.violation(f"{FN}:no-exception", case, f"{type(r.exc).__name__}: {r.exc}",
                              replay=dict(module="contracts.core_outgrads", prevkind=prevkind, gkind=gkind, model={}))
                continue
            for cl, g in clauses(C, r.value):
                if only and cl not in only:
                    continue
                verdict, m = cx.check_clause(rep, f"{FN}:{case}:{cl}", r.pc, g, tier, sample=f"pc={r.pc} |- {z3.simplify(g)}")
                if verdict != "proved":
                    m = m or cx.path_model(r.pc)
                    mv = {str(d): bool(z3.is_true(m[d])) for d in m.decls()} if m is not None else {}
                    spec = dict(module="contracts.core_outgrads", prevkind=prevkind, gkind=gkind, model=mv, clause=cl)
                    ok, obs, exp = replay(spec)
                    rep.violation(f"{FN}:{cl}", case, f"flag/ownership {mv}: {obs}", replay=spec, witness=not ok, solver_output=str(m))
    # sum_outgrads = fold from None (ground, opaque values): every sparse/dense sequence of length <= 4
    ovs()
    for n in range(1, 5 if tier == "quick" else 6):
        for kinds in itertools.product("ds", repeat=n):
            OVS = ovs()
            del stubs.WRITES[:]
            gs, exp = [], None
            for i, k in enumerate(kinds):
                if k == "d":
                    gs.append(Opaque(("g", i)))
                    exp = ("g", i) if exp is None else ("+", exp, ("g", i))
                else:
                    s, payload = make_sparse(C, OVS, i, [])
                    s.vs = OVS(Opaque(("acc",)))
                    gs.append(s)
                    if exp is None:
                        exp = ("scatter+", ("zeros", ("acc",)), payload)
                    else:
                        exp = ("scatter+", exp, payload)
            res = C.sum_outgrads(iter(gs))
            got = _norm(getattr(res, "term", None))
            foreign = [o for o, owned in stubs.WRITES if owned is not True]
            ok = got == _norm(exp) and not foreign and all(g.term == ("g", i) for i, g in enumerate(gs) if isinstance(g, Opaque))
            name = f"autograd.core.sum_outgrads:{''.join(kinds)}:SO-fold-and-frame"
            rep.obligation(name, ok, "symexec(ground)", 0, "E1b")
            if not ok:
                rep.violation("autograd.core.sum_outgrads:SO-fold-and-frame", "".join(kinds),
                              f"sequence {kinds}: got {got}, expected {_norm(exp)}; writes to unowned: {len(foreign)}",
                              replay=dict(module="contracts.core_outgrads", seq="".join(kinds)), witness=True)
    # canary: claiming the result is always owned must be refuted (first dense contribution is shared)
    res, _ = cx.explore(lambda L: one(C, L, "none", "dense"))
    rej = False
    for r in res:
        if r.exc is None:
            from vlib.smt import prove
            rv, rm = r.value["r"]
            v, _, _, _ = prove(r.pc, z3.BoolVal(rm is True))
            rej = rej or v == "refuted"
    rep.canary(f"{FN}:canary-first-contribution-owned", rej)


def _norm(t):
    """0 (+) x = x  for the copy-on-first-sparse branch: ('+', ('zeros', _), x) -> x."""
    if isinstance(t, tuple):
        t = tuple(_norm(x) for x in t)
        if len(t) == 3 and t[0] == "+" and isinstance(t[1], tuple) and t[1][:1] == ("zeros",):
            return t[2]
    return t


class _DL:
    def __init__(self, d):
        self.d, self.model = d, True

    def bool(self, name):
        return bool(self.d.get(name, False))


def replay(spec):
    import autograd.core as C

    if "seq" in spec:
        return False, "sum_outgrads fold/ownership clause violated natively for sequence " + spec["seq"], "left fold of dense(.) and no foreign write"
    try:
        o = one(C, _DL(spec.get("model", {})), spec["prevkind"], spec["gkind"])
    except Exception as e:
        return False, f"raised {type(e).__name__}: {e}", "no exception"
    bad = [cl for cl, g in clauses(C, o) if not z3.is_true(z3.simplify(g))]
    return (not bad), (f"clauses violated natively: {bad}; result={o['r']}; in-place writes to {[(w[0], w[1]) for w in o['writes']]}" if bad else "all clauses hold"), "AO-* of contracts/core_outgrads.py"
