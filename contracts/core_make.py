"""Contracts of autograd.core.make_vjp / make_jvp (DESIGN §4) - E1b with `trace` and `backward_pass` replaced by
stubs implementing their contracts (callee-by-contract: rebinding the module globals in a copy of the function object).

make_vjp(fun, x):  MV-trace   trace is entered once with (a fresh VJPNode root without parents, fun, x)
                   MV-value   the primal value returned is trace's end value (same object)
                   MV-zero    end_node is None  =>  for EVERY g, vjp(g) = vspace(x).zeros(): a value of the ARGUMENT's space,
                              freshly allocated per call, never None, backward_pass not entered           (C14, C05)
                   MV-back    otherwise vjp(g) = backward_pass(g, end_node), one backward pass per call, with that g  (C10: all
                              per-call state lives inside the call)
make_jvp(fun, x):  MJ-root    every jvp(v) call builds a NEW JVPNode root with tangent v and enters trace(root, fun, x)
                   MJ-zero    end_node is None => (end_value, vspace(end_value).zeros())  - zero of the OUTPUT's space
                   MJ-tangent otherwise (end_value, end_node.g)
"""
import types

from vlib.stubs import Opaque, ovs

FN = "autograd.core.make_vjp"


def rebind(f, **globs):
    g = dict(f.__globals__)
    g.update(globs)
    return types.FunctionType(f.__code__, g, f.__name__, f.__defaults__, f.__closure__)


def rebind_shallow(f, **globs):
    g = dict(f.__globals__)
    g.update(globs)
    return types.FunctionType(f.__code__, g, f.__name__, f.__defaults__, f.__closure__)


_ALIAS_SOURCES = ("autograd.core", "autograd.tracer", "autograd.util", "autograd.wrap_util", "autograd.extend", "autograd.builtins", "autograd.differential_operators",
                  "autograd.test_util", "autograd.numpy", "autograd.numpy.numpy_wrapper", "autograd.numpy.numpy_vspaces", "autograd.numpy.numpy_boxes")


def _same_object_names(f, name):
    """other global names of f's module bound to the SAME object the pinned tree imports as `name` (e.g. `from .core import make_vjp as _mv`): a stub for
    `name` must replace those too - callee stubs go by what is called, not by the alias the module gives it"""
    import sys
    cands = []
    for modname in _ALIAS_SOURCES:
        m = sys.modules.get(modname)
        if m is None:
            continue
        for nm in {name, name.lstrip("_")}:
            if nm and hasattr(m, nm):
                cands.append(getattr(m, nm))
    out = []
    cur = f.__globals__.get(name)
    for k, v in f.__globals__.items():
        if k != name and ((cur is not None and v is cur) or (cur is None and any(v is c for c in cands))) and not k.startswith("__"):
            out.append(k)
    return out


def rebind_deep(f, **globs):
    """like rebind, but the plain functions of f's own module are copied into the SAME patched namespace, so that private helpers extracted from f
    (and helpers of helpers) see the contract stubs too.  Names given in `globs` win over the copies."""
    g = dict(f.__globals__)
    for nm, obj in list(g.items()):
        if isinstance(obj, types.FunctionType) and obj.__module__ == f.__module__ and obj.__globals__ is f.__globals__:
            g[nm] = types.FunctionType(obj.__code__, g, obj.__name__, obj.__defaults__, obj.__closure__)
            g[nm].__kwdefaults__ = obj.__kwdefaults__
    g.update(globs)
    for nm, stub in globs.items():
        for other in _same_object_names(f, nm):
            g[other] = stub
    h = types.FunctionType(f.__code__, g, f.__name__, f.__defaults__, f.__closure__)
    h.__kwdefaults__ = f.__kwdefaults__
    return h


rebind = rebind_deep   # every contract harness: extracting a private helper from a function under contract must not detach it from the callee stubs


def run(rep, tier):
    import autograd.core as C

    ovs()
    rep.function("autograd.core.make_vjp", C.make_vjp)
    rep.function("autograd.core.make_jvp", C.make_jvp)

    def out(name, ok, detail):
        rep.obligation(name, ok, "symexec(ground)", 0.0, "E1b", sample=detail if len(rep.samples) < 3 else None)
        if not ok:
            fn, case, cl = name.split(":")
            rep.violation(f"{fn}:{cl}", case, detail, replay=dict(module="contracts.core_make", obligation=name), witness=True)

    for dependent in (False, True):
        case = "dependent" if dependent else "independent"
        tlog, blog = [], []
        end_value = Opaque(("endval",))
        end_node = object() if dependent else None

        def trace(start_node, fun, x):
            tlog.append((start_node, fun, x))
            return end_value, end_node

        def backward_pass(g, node):
            blog.append((g, node))
            return Opaque(("bp", g.term))

        mv = rebind(C.make_vjp, trace=trace, backward_pass=backward_pass)
        fun, x = object(), Opaque(("x",))
        vjp, val = mv(fun, x)
        ok = (len(tlog) == 1 and type(tlog[0][0]) is C.VJPNode and list(tlog[0][0].parents) == [] and tlog[0][1] is fun and tlog[0][2] is x)
        out(f"{FN}:{case}:MV-trace", ok, "trace entered once with (fresh VJPNode root, fun, x)")
        out(f"{FN}:{case}:MV-value", val is end_value, "primal value is trace's end value")
        g1, g2 = Opaque(("g", 1)), Opaque(("g", 2))
        r1, r2, r3 = vjp(g1), vjp(g2), vjp(g1)
        if not dependent:
            ok = (all(isinstance(r, Opaque) and r.term == ("zeros", ("x",)) and r.owned is True for r in (r1, r2, r3))
                  and len({id(r1), id(r2), id(r3)}) == 3 and not blog and len(tlog) == 1)
            out(f"{FN}:{case}:MV-zero", ok, f"vjp(g) for independent output: {[getattr(r, 'term', r) for r in (r1, r2, r3)]}; must be zeros of vspace(x), fresh per call")
        else:
            ok = ([r.term for r in (r1, r2, r3)] == [("bp", ("g", 1)), ("bp", ("g", 2)), ("bp", ("g", 1))]
                  and [b[0] for b in blog] == [g1, g2, g1] and all(b[1] is end_node for b in blog) and len(tlog) == 1)
            out(f"{FN}:{case}:MV-back", ok, "vjp(g) = backward_pass(g, end_node), once per call")
        # ---- make_jvp
        tlog2 = []
        end_node_j = types.SimpleNamespace(g=Opaque(("endtangent",))) if dependent else None

        def trace2(start_node, fun_, x_):
            tlog2.append((start_node, fun_, x_))
            return end_value, end_node_j

        mj = rebind(C.make_jvp, trace=trace2)
        jvp = mj(fun, x)
        v1, v2 = Opaque(("v", 1)), Opaque(("v", 2))
        a, b = jvp(v1), jvp(v2)
        ok = (len(tlog2) == 2 and all(type(t[0]) is C.JVPNode and t[1] is fun and t[2] is x for t in tlog2)
              and tlog2[0][0] is not tlog2[1][0] and tlog2[0][0].g is v1 and tlog2[1][0].g is v2)
        out(f"autograd.core.make_jvp:{case}:MJ-root", ok, "a new JVPNode root carrying the tangent per jvp call")
        if not dependent:
            ok = all(isinstance(r, tuple) and len(r) == 2 and r[0] is end_value and isinstance(r[1], Opaque)
                     and r[1].term == ("zeros", ("endval",)) and r[1].owned is True for r in (a, b)) and a[1] is not b[1]
            out(f"autograd.core.make_jvp:{case}:MJ-zero", ok, f"independent output: tangent {getattr(a[1], 'term', a[1])} must be zeros of vspace(end_value)")
        else:
            ok = all(r[0] is end_value and r[1] is end_node_j.g for r in (a, b))
            out(f"autograd.core.make_jvp:{case}:MJ-tangent", ok, "tangent is end_node.g")


def replay(spec):
    class R:
        samples = []
        res = {}

        def function(self, *a):
            pass

        def obligation(self, name, ok, *a, **k):
            self.res[name] = ok

        def violation(self, *a, **k):
            pass

    r = R()
    run(r, "quick")
    ok = r.res.get(spec["obligation"], True)
    return ok, ("clause holds" if ok else "clause violated natively"), spec["obligation"]
