/-
Lemma library for /verif (DESIGN §3.2): the facts about spec functions that the SMT obligations of
contracts/inv_toposort.py and contracts/inv_backward.py use as INSTANCES.  Nothing here models the code.
  L1           well-founded descent on an integer rank bounded below
  reach_least  least-fixpoint induction for reach (R ⊆ P for every P that contains `e` and is closed under par)
  reach_rank   every reachable node has rank ≥ rank e   (instance of reach_least used as a z3 axiom)
  reach_pred   every reachable node other than `e` is the parent of a reachable node (axiom of inv_backward.py)
-/
import Mathlib.Tactic

universe u
variable {Node : Type u}

/-- L1: if every element of U has a witness in U of strictly smaller rank, and ranks on U are bounded below, U is empty. -/
theorem L1 (U : Node → Prop) (w : Node → Node) (rank : Node → Int) (r0 : Int)
    (h : ∀ n, U n → U (w n) ∧ rank (w n) < rank n ∧ rank n ≥ r0) : ∀ n, ¬ U n := by
  have key : ∀ k : Nat, ∀ n, U n → rank n - r0 < k → False := by
    intro k
    induction k with
    | zero =>
      intro n hn hk
      have := (h n hn).2.2
      omega
    | succ k ih =>
      intro n hn hk
      obtain ⟨hw, hlt, hge⟩ := h n hn
      exact ih (w n) hw (by omega)
  intro n hn
  exact key ((rank n - r0).toNat + 1) n hn (by have := (h n hn).2.2; omega)

/-- reach: the least set containing `e` and closed under taking the i-th parent for 0 ≤ i < npar m. -/
inductive Reach (e : Node) (npar : Node → Int) (par : Node → Int → Node) : Node → Prop
  | base : Reach e npar par e
  | step (m : Node) (i : Int) : Reach e npar par m → 0 ≤ i → i < npar m → Reach e npar par (par m i)

theorem reach_least (e : Node) (npar : Node → Int) (par : Node → Int → Node) (P : Node → Prop)
    (h0 : P e) (hstep : ∀ m i, P m → 0 ≤ i → i < npar m → P (par m i)) :
    ∀ n, Reach e npar par n → P n := by
  intro n hn
  induction hn with
  | base => exact h0
  | step m i _ hi0 hi1 ih => exact hstep m i ih hi0 hi1

theorem reach_rank (e : Node) (npar : Node → Int) (par : Node → Int → Node) (rank : Node → Int)
    (dag : ∀ m i, 0 ≤ i → i < npar m → rank (par m i) > rank m) :
    ∀ n, Reach e npar par n → rank n ≥ rank e := by
  apply reach_least e npar par (fun n => rank n ≥ rank e)
  · exact le_refl _
  · intro m i hm hi0 hi1
    have := dag m i hi0 hi1
    show rank (par m i) ≥ rank e
    omega

theorem reach_pred (e : Node) (npar : Node → Int) (par : Node → Int → Node) :
    ∀ n, Reach e npar par n → n ≠ e → ∃ m i, Reach e npar par m ∧ 0 ≤ i ∧ i < npar m ∧ par m i = n := by
  intro n hn
  induction hn with
  | base => intro h; exact absurd rfl h
  | step m i hm hi0 hi1 _ => intro _; exact ⟨m, i, hm, hi0, hi1, rfl⟩
