/-
L2 for /verif (DESIGN §3.2, §10.1): the adjoint recurrence that contracts/inv_backward.py proves backward_pass computes
(B3/B4: outgrad(v) = seed(v) + sum over children c and parent slots k with par(c,k) = v of vjp_{c,k}(outgrad(c)))
has exactly one solution on a DAG, the sum over all dependency walks of the products of the local derivatives, and it is the
transpose of the forward chain-rule recurrence.  Nodes are the SCALAR entries of all values (index type n); W i j is the partial
derivative of entry i with respect to entry j (the local VJP/JVP rules applied to basis vectors); nothing here models the code.
-/
import Mathlib.Data.Matrix.Mul
import Mathlib.Data.Matrix.Basic
import Mathlib.Algebra.BigOperators.Fin
import Mathlib.Tactic

open Matrix Finset

variable {n : Type*} [Fintype n] [DecidableEq n] {R : Type*}

/-- L2a (unrolling): a solution of the backward recurrence `G = e + G ᵥ* W` satisfies, for every m,
    `G = e ᵥ* (∑ k < m, W^k) + G ᵥ* W^m`. -/
theorem L2_unroll [Semiring R] (W : Matrix n n R) (e G : n → R) (hG : G = e + G ᵥ* W) (m : ℕ) :
    G = e ᵥ* (∑ k ∈ range m, W ^ k) + G ᵥ* (W ^ m) := by
  induction m with
  | zero => simp
  | succ m ih =>
    rw [Finset.sum_range_succ, vecMul_add, pow_succ', ← vecMul_vecMul]
    have h2 : (G ᵥ* W) ᵥ* (W ^ m) = G ᵥ* (W ^ m) ᵥ* W := by
      rw [vecMul_vecMul, vecMul_vecMul, ← pow_succ', ← pow_succ]
    calc G = e ᵥ* (∑ k ∈ range m, W ^ k) + G ᵥ* (W ^ m) := ih
      _ = e ᵥ* (∑ k ∈ range m, W ^ k) + (e + G ᵥ* W) ᵥ* (W ^ m) := by rw [← hG]
      _ = _ := by rw [add_vecMul, add_assoc]

/-- L2 (path sum): on a graph whose weight matrix is nilpotent (a DAG, see `dag_nilpotent`), the backward recurrence has exactly one
    solution, the seed propagated along all walks: `G = e ᵥ* ∑ k < N, W^k`  (entry (i,j) of `W^k` is the sum over the walks of
    length k from i to j of the products of the edge weights - `Matrix.mul_apply`). -/
theorem L2_pathsum [Semiring R] (W : Matrix n n R) (e G : n → R) (N : ℕ) (hN : W ^ N = 0)
    (hG : G = e + G ᵥ* W) : G = e ᵥ* (∑ k ∈ range N, W ^ k) := by
  have h := L2_unroll W e G hG N
  rw [hN, vecMul_zero, add_zero] at h
  exact h

/-- DAG => nilpotent: if every edge goes from a node to a node of strictly larger index (topological numbering), all walks have
    length < N. -/
theorem dag_nilpotent [Semiring R] {N : ℕ} (W : Matrix (Fin N) (Fin N) R) (hW : ∀ i j : Fin N, j ≤ i → W i j = 0) :
    W ^ N = 0 := by
  have key : ∀ k : ℕ, ∀ i j : Fin N, (j : ℕ) < i + k → (W ^ k) i j = 0 := by
    intro k
    induction k with
    | zero =>
      intro i j h
      have : i ≠ j := by
        intro hij; subst hij; omega
      simp [this]
    | succ k ih =>
      intro i j h
      rw [pow_succ, Matrix.mul_apply]
      apply Finset.sum_eq_zero
      intro m _
      by_cases hm : (m : ℕ) < i + k
      · rw [ih i m hm, zero_mul]
      · have : j ≤ m := by
          rw [Fin.le_def]; omega
        rw [hW m j this, mul_zero]
  ext i j
  have := key N i j (by have := j.isLt; omega)
  simpa using this

omit [DecidableEq n] in
/-- L2 (reverse = transpose of forward): whatever the graph, a solution G of the backward recurrence seeded with e and a solution T
    of the forward (chain-rule) recurrence `T = u + W *ᵥ T` seeded with u pair up: `G ⬝ᵥ u = e ⬝ᵥ T`. -/
theorem L2_adjoint [Ring R] (W : Matrix n n R) (e G u T : n → R) (hG : G = e + G ᵥ* W) (hT : T = u + W *ᵥ T) :
    G ⬝ᵥ u = e ⬝ᵥ T := by
  have h1 : G ⬝ᵥ T = e ⬝ᵥ T + (G ᵥ* W) ⬝ᵥ T := by
    conv_lhs => rw [hG]
    rw [add_dotProduct]
  have h2 : G ⬝ᵥ T = G ⬝ᵥ u + G ⬝ᵥ (W *ᵥ T) := by
    conv_lhs => rw [hT]
    rw [dotProduct_add]
  have h3 : G ⬝ᵥ (W *ᵥ T) = (G ᵥ* W) ⬝ᵥ T := dotProduct_mulVec G W T
  rw [h3] at h2
  have := h1.symm.trans h2
  exact (add_right_cancel this).symm
