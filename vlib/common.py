"""Shared plumbing: report/evidence writer, verdict protocol, known findings, replay files.

Exit codes (DESIGN §2.3):  0 held / 1 VIOLATION (printed) / 2 undecided / 3 checker error.
"""
import hashlib
import inspect
import json
import os
import sys
import time
import traceback

VERIF = os.path.dirname(os.path.dirname(os.path.abspath(__file__)))
REPO = os.environ.get("VERIF_REPO", "/repo")
OUT = os.environ.get("VERIF_OUT", VERIF)  # evidence/ and replays/ go here (scratch runs against patched copies set it)
if REPO not in sys.path:
    sys.path.insert(0, REPO)

GUARD = "AUTOGRAD_VERIF"  # reserved hook guard; no hook exists in /repo


class CheckerError(Exception):
    """The checking machinery itself is wrong/inapplicable: exit 3, never a VIOLATION."""


def seed():
    try:
        return int(os.environ.get("VERIF_SEED", "0"))
    except ValueError:
        return 0


def src_hash(obj_or_path):
    try:
        if isinstance(obj_or_path, str):
            data = open(obj_or_path, "rb").read()
        else:
            data = inspect.getsource(obj_or_path).encode()
    except Exception:
        return "unavailable"
    return hashlib.sha256(data).hexdigest()[:16]


def load_known():
    p = os.path.join(VERIF, "known_findings.json")
    if not os.path.exists(p):
        return {"findings": [], "fixed": []}
    return json.load(open(p))


class Report:
    def __init__(self, pid, tier, level, checker_cmd):
        self.pid = pid
        self.tier = tier
        self.level = level
        self.checker_cmd = checker_cmd
        self.t0 = time.time()
        self.functions = {}  # qualname -> source hash
        self.obl = []  # dicts: name, ok, backend, secs, engine
        self.bounded = []  # dicts: name, ok, n
        self.bounded_cases = 0
        self.bounded_distinct = set()
        self.bounds = []
        self.violations = []  # dicts
        self.known_hits = []
        self.assumptions = []
        self.uncovered = []
        self.notes = []
        self.samples = []
        self.bounded_samples = []
        self.canaries = []  # (name, rejected?)
        self.extra = {}
        self.errors = []
        self.known = load_known()

    # ---- recording -------------------------------------------------------
    def function(self, qualname, obj=None):
        self.functions[qualname] = src_hash(obj) if obj is not None else "n/a"

    def obligation(self, name, ok, backend="z3", secs=0.0, engine="", sample=None, trivial=False):
        self.obl.append(dict(name=name, ok=bool(ok), backend=backend, secs=round(secs, 4), engine=engine, trivial=bool(trivial)))
        if sample is not None and len(self.samples) < 12:
            self.samples.append({"obligation": name, "backend": backend, "detail": sample})

    def bounded_case(self, key, sample=None):
        self.bounded_cases += 1
        self.bounded_distinct.add(key)
        if sample is not None and len(self.bounded_samples) < 8:
            self.bounded_samples.append(sample)

    def bound(self, text):
        if text not in self.bounds:
            self.bounds.append(text)

    def assume(self, *texts):
        for t in texts:
            if t not in self.assumptions:
                self.assumptions.append(t)

    def uncover(self, *texts):
        for t in texts:
            if t not in self.uncovered:
                self.uncovered.append(t)

    def note(self, t):
        self.notes.append(t)

    def canary(self, name, rejected):
        self.canaries.append((name, bool(rejected)))
        if not rejected:
            self.errors.append(f"canary {name} was NOT rejected: the checker is vacuous there")

    def error(self, msg):
        self.errors.append(msg)

    def run(self, fn, *a, **k):
        """Runs one contract module.  An exception escaping from it means the code under contract no longer behaves in a way the
        contract can even be evaluated on (on the unchanged tree every module completes): reported as an undischarged obligation."""
        try:
            return fn(*a, **k)
        except CheckerError:
            raise
        except Exception as e:
            import traceback
            tb = traceback.extract_tb(e.__traceback__)
            where = next((f"{fr.filename}:{fr.lineno}" for fr in reversed(tb) if REPO in fr.filename), f"{tb[-1].filename}:{tb[-1].lineno}")
            name = f"{fn.__module__}.{fn.__name__}:contract-evaluation"
            self.obligation(name, False, "-", 0, "harness")
            self.violation(name, type(e).__name__, f"evaluating the contract raised {type(e).__name__}: {str(e)[:160]} at {where} - the code under contract left the shape the contract is stated for",
                           witness=False, solver_output="".join(traceback.format_exception_only(type(e), e))[:400])

    def is_known(self, obligation, case):
        return any(k["property"] == self.pid and k["obligation"] == obligation and k["case"] == case for k in self.known.get("findings", []))

    def violation(self, obligation, case, what, replay=None, witness=True, solver_output=None):
        """A failed obligation.  `case` is a canonical, solver-independent key."""
        for k in self.known.get("findings", []):
            if k["property"] == self.pid and k["obligation"] == obligation and k["case"] == case:
                if (obligation, case) not in [(h["obligation"], h["case"]) for h in self.known_hits]:
                    self.known_hits.append(dict(obligation=obligation, case=case, what=k.get("what", what)))
                return
        self.violations.append(
            dict(obligation=obligation, case=case, what=what, replay=replay, witness=witness, solver_output=solver_output)
        )

    # ---- finishing -------------------------------------------------------
    def finish(self):
        wall = time.time() - self.t0
        os.makedirs(os.path.join(OUT, "evidence"), exist_ok=True)
        os.makedirs(os.path.join(OUT, "replays"), exist_ok=True)
        n = len(self.obl)
        d = sum(1 for o in self.obl if o["ok"])
        by_backend = {}
        for o in self.obl:
            if o["ok"]:
                by_backend[o["backend"]] = by_backend.get(o["backend"], 0) + 1
        by_engine = {}
        for o in self.obl:
            e = by_engine.setdefault(o["engine"] or "?", [0, 0])
            e[0] += 1
            e[1] += int(o["ok"])
        secs = [o["secs"] for o in self.obl]
        # write replays + print violations
        lines = []
        seen = set()
        for i, v in enumerate(self.violations):
            key = (v["obligation"], v["case"])
            if key in seen:
                continue
            seen.add(key)
            safe = "".join(c if c.isalnum() or c in "-_." else "_" for c in f"{v['obligation']}-{v['case']}")[:150]
            path = os.path.join("replays", f"{self.pid}-{safe}.json")
            body = dict(
                property=self.pid,
                obligation=v["obligation"],
                case=v["case"],
                what=v["what"],
                replay=v["replay"],
                solver_output=v["solver_output"],
                failing_input_found=bool(v["witness"]),
            )
            with open(os.path.join(OUT, path), "w") as f:
                json.dump(body, f, indent=1, default=str)
            tail = "" if v["witness"] else " no-failing-input-found"
            lines.append(f"VIOLATION property={self.pid} replay={path} obligation={v['obligation']} case={v['case']} :: {v['what']}{tail}")
        for h in self.known_hits:
            print(f"KNOWN-FINDING: property={self.pid} {h['obligation']} [{h['case']}] {h['what']}")
        shown = {}
        for v, l in zip([v for v in self.violations], lines):
            pass
        per_obl = {}
        printed = 0
        for l in lines:
            ob = l.split(" obligation=")[1].split(" ")[0]
            per_obl[ob] = per_obl.get(ob, 0) + 1
            if per_obl[ob] <= 3 and printed < 12:
                print(l[:900])
                printed += 1
        if len(lines) > printed:
            print(f"... {len(lines) - printed} further violation cases (all written under replays/): " +
                  ", ".join(f"{k} x{v}" for k, v in per_obl.items()))
        cov = dict(
            obligations=n,
            discharged=d,
            checker_cmd=self.checker_cmd,
            trusted_base=self.assumptions,
            discharged_by_backend=by_backend,
            obligations_by_engine={k: {"generated": v[0], "discharged": v[1]} for k, v in by_engine.items()},
            solver_seconds_sum=round(sum(secs), 3),
            solver_seconds_max=round(max(secs), 3) if secs else 0.0,
            functions_under_contract=self.functions,
            bounded_cases=self.bounded_cases,
            bounded_distinct=len(self.bounded_distinct),
            bound=self.bounds,
            uncovered=self.uncovered,
            canaries=[{"name": a, "rejected": b} for a, b in self.canaries],
            known_findings_hit=self.known_hits,
            notes=self.notes,
            samples=(self.samples + self.bounded_samples) or [{"note": "no sample recorded"}],
            explanation=(
                f"{d}/{n} contract obligations generated from {REPO}'s current source were discharged "
                f"(by back end: {by_backend}; 'symexec(ground)' = clause decided by executing the real code on opaque values over an exhaustively "
                f"enumerated structure, no solver query; 'ast-abstract-interpretation' = frame/traceability discipline on the AST); "
                f"{sum(1 for o in self.obl if o.get('trivial'))} of them have a goal that simplifies to True under its path condition (counted, but excluded from distinct_nontrivial); "
                f"{self.bounded_cases} bounded cases ({len(self.bounded_distinct)} distinct) were run on the real code and are NOT counted as proved; "
                f"uncovered items are listed under 'uncovered'."
            ),
            trivial_goals=sum(1 for o in self.obl if o.get("trivial")),
            # exploration-style counts (measured): evaluations = obligations + bounded cases
            evaluations=n + self.bounded_cases,
            distinct_nontrivial=len({o["name"] for o in self.obl if not o.get("trivial")}) + len(self.bounded_distinct),
            rule="distinct = distinct obligation names (function:structure-case:clause) plus distinct bounded case keys; an SMT obligation is "
            "trivial when its goal simplifies to the literal True before the solver is called (measured, listed as trivial_goals)",
        )
        cov.update(self.extra)
        ev = dict(
            property_id=self.pid,
            tier=self.tier,
            seed=seed(),
            level=self.level,
            coverage=cov,
            assumptions=self.assumptions,
            wall_s=round(wall, 2),
            violations=len(lines),
        )
        with open(os.path.join(OUT, "evidence", f"{self.pid}.json"), "w") as f:
            json.dump(ev, f, indent=1, default=str)
        print(
            f"[{self.pid}] tier={self.tier} obligations={n} discharged={d} bounded_cases={self.bounded_cases} "
            f"violations={len(lines)} known={len(self.known_hits)} errors={len(self.errors)} wall={wall:.1f}s"
        )
        if lines:
            return 1
        if self.errors:
            for e in self.errors[:20]:
                print("CHECKER-ERROR:", e)
            return 3
        undec = [o for o in self.obl if not o["ok"]]
        if undec:
            # every non-discharged obligation must have been turned into a violation or an error
            for o in undec[:10]:
                print("UNDECIDED:", o["name"])
            return 2
        if n == 0 and self.bounded_cases == 0:
            print("CHECKER-ERROR: zero obligations generated (vacuous run)")
            return 3
        return 0


def run_check(pid, fn, tier, level, checker_cmd):
    rep = Report(pid, tier, level, checker_cmd)
    try:
        fn(rep, tier)
    except CheckerError as e:
        rep.error(f"CheckerError: {e}")
        traceback.print_exc()
    except Exception as e:  # a crash of the machinery is never a violation
        rep.error(f"crash: {type(e).__name__}: {e}")
        traceback.print_exc()
    return rep.finish()
