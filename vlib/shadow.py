"""Shadow-loading of the rule modules of /repo (DESIGN §2.1, E2/E3).

The module source is parsed; its module-level Import / ImportFrom statements - and nothing else - are removed and
replaced by bindings supplied by the engine (abstract `anp`, `onp`, recorders for defvjp/defjvp/..., identity
`primitive`, ...).  Everything else is compiled and executed unchanged, so the recorded rule makers are the real lambdas
and functions of the current tree and calling them runs their real byte-code.
"""
import ast
import os

from .common import REPO, CheckerError


class Prim:
    """Stands for a wrapped numpy function `anp.<name>`; callable through the engine's implementation table."""

    def __init__(self, name, impl=None):
        self.name = name
        self.impl = impl
        self.__name__ = name

    def __call__(self, *a, **k):
        if self.impl is None:
            raise NotModelled(self.name)
        return self.impl(*a, **k)

    def __repr__(self):
        return f"anp.{self.name}"


class NotModelled(Exception):
    """The abstract namespace has no semantics for this function: the rule is outside this engine's scope."""


class Namespace:
    """Abstract module object: attribute access yields one Prim per name (stable identity)."""

    def __init__(self, label, impls=None, consts=None):
        self._label = label
        self._impls = impls or {}
        self._consts = consts or {}
        self._prims = {}

    def __getattr__(self, name):
        if name.startswith("__"):
            raise AttributeError(name)
        if name in self._consts:
            return self._consts[name]
        if name not in self._prims:
            self._prims[name] = Prim(name, self._impls.get(name))
        return self._prims[name]


class Recorder:
    def __init__(self):
        self.vjps = {}   # (prim name, argnum) -> maker        (defvjp)
        self.vjp_argnum = {}  # prim name -> maker(argnum, ans, args, kwargs)   (defvjp_argnum)
        self.jvps = {}   # (prim name, argnum) -> rule | "same" | None
        self.jvp_argnum = {}
        self.linear = set()
        self.notrace = []  # (node type name, prim name)
        self.helpers = {}  # name -> function decorated with @primitive in the module

    @staticmethod
    def _nm(fun):
        return getattr(fun, "name", None) or getattr(fun, "__name__", repr(fun))

    def defvjp(self, fun, *makers, **kw):
        argnums = kw.get("argnums", range(len(makers)))
        for a, m in zip(argnums, makers):
            self.vjps[(self._nm(fun), a)] = m

    def defvjp_argnum(self, fun, maker):
        self.vjp_argnum[self._nm(fun)] = maker

    def defjvp(self, fun, *rules, **kw):
        argnums = kw.get("argnums", range(len(rules)))
        for a, r in zip(argnums, rules):
            self.jvps[(self._nm(fun), a)] = r

    def defjvp_argnum(self, fun, maker):
        self.jvp_argnum[self._nm(fun)] = maker

    def def_linear(self, fun):
        self.linear.add(self._nm(fun))

    def register_notrace(self, node_type, fun):
        self.notrace.append((getattr(node_type, "__name__", str(node_type)), self._nm(fun)))

    def primitive(self, f):
        p = Prim(f.__name__, f)
        p.fun = f
        self.helpers[f.__name__] = p
        return p


def tree_imports(src, path):
    return [n for n in ast.parse(src, filename=path).body if isinstance(n, (ast.Import, ast.ImportFrom))]


def load(relpath, bindings):
    """Executes REPO/relpath with its imports replaced by `bindings`.  Returns (namespace dict, dropped import lines)."""
    path = os.path.join(REPO, relpath)
    src = open(path).read()
    tree = ast.parse(src, filename=path)
    dropped = []
    body = []
    for node in tree.body:
        if isinstance(node, (ast.Import, ast.ImportFrom)):
            dropped.append(ast.get_source_segment(src, node).replace("\n", " "))
        else:
            body.append(node)
    tree.body = body
    code = compile(tree, path, "exec")
    ns = dict(bindings)
    ns["__name__"] = "shadow:" + relpath
    # The engine's bindings are keyed by the names the pinned tree uses (onp, anp, defvjp, ...).  Bind them ALSO under whatever alias the current
    # import statements choose, identified by WHAT is imported, so that a change of import style or alias does not detach the rules from the engine.
    MODULES = {"numpy": "onp", "numpy.linalg": "npla", "numpy.fft": "ffto", "numpy.random": "npr", "autograd.numpy.numpy_wrapper": "anp", "autograd.numpy": "anp",
               "scipy": "sp", "scipy.special": "sps", "scipy.linalg": "spla"}
    pkg = relpath[:-3].replace("/", ".").split(".")

    def absolute(mod, level):
        if not level:
            return mod or ""
        base = pkg[:-level]
        return ".".join(base + ([mod] if mod else []))
    for node in tree_imports(src, path):
        if isinstance(node, ast.Import):
            for a in node.names:
                key = MODULES.get(a.name)
                bound = a.asname or a.name.split(".")[0]
                if key in bindings and bound not in ns:
                    ns[bound] = bindings[key]
        else:
            mod = absolute(node.module, node.level)
            for a in node.names:
                bound = a.asname or a.name
                full = (mod + "." + a.name) if mod else a.name
                key = MODULES.get(full)
                if bound in ns:
                    continue
                if key in bindings:                      # from <pkg> import <module> as X
                    ns[bound] = bindings[key]
                elif a.name in bindings:                 # from <any autograd module> import <symbol> as X
                    ns[bound] = bindings[a.name]
                elif not mod.startswith("autograd") and not mod.startswith("numpy") and not mod.startswith("scipy"):
                    try:                                  # standard library: the real thing
                        ns[bound] = getattr(__import__(mod, fromlist=[a.name]), a.name)
                    except Exception:
                        pass
    try:
        exec(code, ns)
    except NotModelled as e:
        raise CheckerError(f"module-level code of {relpath} calls an unmodelled function: {e}")
    return ns, dropped
