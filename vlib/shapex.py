"""E3 (restricted): shape/kind symbolic execution of the REAL rule bodies with SYMBOLIC dimension sizes.

Abstract arrays SArr(shape = tuple of int | SInt, kind).  The shadow-loaded rule modules run on them; NumPy calls go to the assumed
shape contracts below (npspec for the functions the broadcasting/reduction helpers use): broadcasting adds NumPy's acceptance
condition to the path condition and yields If-terms for the result dimensions (no fork); reductions remove / collapse the named
axes.  A Python-level branch on a symbolic size (`if size == 1`) forks the path (vlib/concolic.py).
"""
import itertools

import z3

from . import concolic as cx
from . import shadow
from .common import CheckerError

KINDS = ("bool", "int", "real", "complex")
INDEX_OBLIG = [None]
IN_RULE = [None]     # set by the harness while the RULE (not the primal) runs: receives the broadcast conditions met there


def dim_term(d):
    return cx.term(d)


def is_one(d):
    return isinstance(d, int) and d == 1


class DT:
    def __init__(self, kind):
        self.kind = kind

    def __eq__(self, o):
        return isinstance(o, DT) and o.kind == self.kind

    __hash__ = object.__hash__


def promote(*ks):
    return KINDS[max(KINDS.index(k) for k in ks)]


def kind_of(x):
    if isinstance(x, SArr):
        return x.kind
    if isinstance(x, bool):
        return "bool"
    if isinstance(x, int):
        return "int"
    if isinstance(x, float):
        return "real"
    if isinstance(x, complex):
        return "complex"
    if isinstance(x, (cx.SInt,)):
        return "int"
    if isinstance(x, cx.SVal):
        return "real"
    import numpy as _n
    if isinstance(x, (_n.ndarray, _n.generic)):
        return {"b": "bool", "i": "int", "u": "int", "f": "real", "c": "complex"}.get(_n.asarray(x).dtype.kind, "real")
    raise CheckerError(f"kind of {type(x).__name__}")


def shape_of(x):
    if isinstance(x, SArr):
        return x.shape
    import numpy as _n
    if isinstance(x, (_n.ndarray, _n.generic)):
        return tuple(int(d) for d in _n.shape(x))
    return ()


def bdim(a, b):
    """broadcast of two dimensions; adds NumPy's acceptance condition to the path condition"""
    if is_one(a):
        return b
    if is_one(b):
        return a
    if isinstance(a, int) and isinstance(b, int):
        if a != b:
            raise ValueError("operands could not be broadcast together")
        return a
    ta, tb = dim_term(a), dim_term(b)
    if IN_RULE[0] is not None:
        IN_RULE[0](z3.Or(ta == tb, ta == 1, tb == 1))
    cx.assume(cx.SBool(z3.Or(ta == tb, ta == 1, tb == 1)))
    return cx.SInt(z3.simplify(z3.If(ta == 1, tb, ta)))


def bshape(*shapes):
    n = max(len(s) for s in shapes)
    out = []
    for i in range(n):
        d = 1
        for s in shapes:
            j = i - (n - len(s))
            if j >= 0:
                d = bdim(d, s[j])
        out.append(d)
    return tuple(out)


_METHODS = {}


class SArr:
    __array_priority__ = 1000

    def __init__(self, shape, kind="real", tag=""):
        self.shape, self.kind, self.tag = tuple(shape), kind, tag

    ndim = property(lambda s: len(s.shape))
    dtype = property(lambda s: DT(s.kind))
    T = property(lambda s: SArr(s.shape[::-1], s.kind))

    def _bin(self, o, kind=None):
        return SArr(bshape(self.shape, shape_of(o)), kind or promote(self.kind, kind_of(o)))

    __add__ = __radd__ = __sub__ = __rsub__ = __mul__ = __rmul__ = lambda s, o: s._bin(o)
    __truediv__ = __rtruediv__ = lambda s, o: s._bin(o, promote("real", s.kind, kind_of(o)))
    __pow__ = __rpow__ = __mod__ = __rmod__ = __floordiv__ = __rfloordiv__ = lambda s, o: s._bin(o)
    __neg__ = lambda s: SArr(s.shape, s.kind)
    __eq__ = __ne__ = __lt__ = __le__ = __gt__ = __ge__ = lambda s, o: s._bin(o, "bool")
    __and__ = __rand__ = __or__ = __ror__ = __xor__ = __rxor__ = lambda s, o: s._bin(o, "bool" if s.kind == "bool" and kind_of(o) == "bool" else None)   # element-wise & | ^
    __invert__ = lambda s: SArr(s.shape, s.kind)
    __hash__ = object.__hash__

    def __bool__(self):
        raise CheckerError("rule body branches on array VALUES (outside the shape abstraction)")

    def __getitem__(self, idx):
        """basic indexing (ints, slices with step None/1/-1, None, Ellipsis) with symbolic bounds; NumPy/Python bounds become obligations"""
        idx = idx if isinstance(idx, tuple) else (idx,)
        n_real = sum(1 for i in idx if i is not None and i is not Ellipsis)
        if any(isinstance(i, (list, SArr)) for i in idx):
            raise shadow.NotModelled("advanced indexing")
        out, pos = [], 0
        for i in idx:
            if i is None:
                out.append(1)
            elif i is Ellipsis:
                k = len(self.shape) - n_real
                out.extend(self.shape[pos:pos + k])
                pos += k
            elif isinstance(i, slice):
                d = self.shape[pos]
                if i.step not in (None, 1, -1):
                    raise shadow.NotModelled("stepped slice")
                if i.step == -1 and (i.start is not None or i.stop is not None):
                    raise shadow.NotModelled("bounded reversed slice")

                def nrm(v, default):
                    if v is None:
                        return default
                    if type(v).__module__ == "numpy":
                        v = int(v)
                    if isinstance(v, int) and v < 0:
                        return d + v
                    return v
                lo, hi = nrm(i.start, 0), nrm(i.stop, d)
                if INDEX_OBLIG[0] is not None:
                    INDEX_OBLIG[0]("slice-within-bounds(no clipping)", z3.And(dim_term(lo) >= 0, dim_term(lo) <= dim_term(hi), dim_term(hi) <= dim_term(d)))
                out.append(hi - lo if not (isinstance(lo, int) and lo == 0) else hi)
                pos += 1
            else:
                d = self.shape[pos]
                if INDEX_OBLIG[0] is not None:
                    iv = dim_term(i)
                    INDEX_OBLIG[0]("index-within-bounds", z3.And(iv >= -dim_term(d), iv < dim_term(d)))
                pos += 1
        out.extend(self.shape[pos:])
        return SArr(tuple(out), self.kind)

    def __setitem__(self, idx, v):
        """values are not tracked: an item assignment keeps shape and kind (NumPy's own acceptance of the index / broadcast is not modelled)"""
        return None

    def reshape(self, *shape, **kw):
        if _METHODS.get("reshape") is None:
            raise shadow.NotModelled("ndarray.reshape")
        return _METHODS["reshape"](self, shape[0] if len(shape) == 1 else shape, **kw)

    def swapaxes(self, a, b):
        s = list(self.shape)
        s[a], s[b] = s[b], s[a]
        return SArr(tuple(s), self.kind)

    def __repr__(self):
        return f"SArr({self.shape}, {self.kind})"


def norm_axes(axis, nd):
    if axis is None:
        return tuple(range(nd))
    axs = (axis,) if isinstance(axis, int) else tuple(axis)
    out = []
    for a in axs:
        if not -nd <= a < nd:
            raise ValueError("axis out of bounds")
        out.append(a % nd if nd else 0)
    if len(set(out)) != len(out):
        raise ValueError("duplicate axis")
    return tuple(out)


def reduce_shape(shape, axis, keepdims):
    axs = norm_axes(axis, len(shape))
    if keepdims:
        return tuple(1 if i in axs else d for i, d in enumerate(shape))
    return tuple(d for i, d in enumerate(shape) if i not in axs)


class ShapeVec(list):
    """what onp.array(shape) is used for in the rule helpers: item assignment with int / list / None index, fancy read, prod"""

    def __getitem__(self, i):
        if i is None:
            return ShapeVec(self)
        if isinstance(i, (list, tuple)):
            return ShapeVec([list.__getitem__(self, j) for j in i])
        return list.__getitem__(self, i)

    def __setitem__(self, i, v):
        if i is None:
            for j in range(len(self)):
                list.__setitem__(self, j, v)
        elif isinstance(i, (list, tuple)):
            for j in i:
                list.__setitem__(self, j, v)
        elif isinstance(i, slice) and not isinstance(v, (list, tuple)):
            for j in range(*i.indices(len(self))):      # NumPy broadcasts a scalar over the slice
                list.__setitem__(self, j, v)
        else:
            list.__setitem__(self, i, v)

    __array_ufunc__ = None      # NumPy defers to the reflected methods below

    def _zip(self, o):
        import numpy as _n
        if isinstance(o, (list, tuple, _n.ndarray)):
            if len(o) != len(self):
                raise ValueError("shape vectors of different length")
            return [(d, int(e) if type(e).__module__ == "numpy" else e) for d, e in zip(self, o)]
        return [(d, o) for d in self]

    def __sub__(self, o):
        return ShapeVec([a - b for a, b in self._zip(o)])

    def __rsub__(self, o):
        return ShapeVec([b - a for a, b in self._zip(o)])

    def __add__(self, o):
        if isinstance(o, (list, tuple)) and not isinstance(o, ShapeVec):
            return ShapeVec(list(self) + list(o))      # list concatenation (what `list(shape) + [n]` means)
        return ShapeVec([a + b for a, b in self._zip(o)])

    def __eq__(self, o):
        return [d == (o[i] if isinstance(o, (list, tuple)) else o) for i, d in enumerate(self)]

    def __gt__(self, o):
        return [d > (o[i] if isinstance(o, (list, tuple)) else o) for i, d in enumerate(self)]

    def __ne__(self, o):
        return [d != (o[i] if isinstance(o, (list, tuple)) else o) for i, d in enumerate(self)]

    __hash__ = None


def prod(v):
    if isinstance(v, (ShapeVec, list, tuple)):
        r = 1
        for d in v:
            r = r * d
        return r
    return v


def same_dims(a, b):
    """z3 formula: shapes equal (same rank is decided concretely)"""
    if len(a) != len(b):
        return z3.BoolVal(False)
    return z3.And([dim_term(x) == dim_term(y) for x, y in zip(a, b)] + [z3.BoolVal(True)])


def size_term(shape):
    r = z3.IntVal(1)
    for d in shape:
        if not is_one(d):
            r = r * dim_term(d)
    return r


class Requires(Exception):
    pass


def fft_impls():
    """NumPy shape contracts of numpy.fft (assumed; audited against NumPy on concrete sizes by contracts/rules_shape.audit_fft)."""
    def _rep(sh, axes, s_):
        sh = list(sh)
        nd = len(sh)
        for j, ax in enumerate(axes):
            if ax < -nd or ax >= nd:
                raise ValueError("axis out of range")
            if s_ is not None and s_[j] is not None:
                sh[ax % nd] = s_[j]
        return sh

    def _axes(a, s_, axes, default_last=None):
        nd = len(shape_of(a))
        if axes is None:
            if default_last is not None:
                axes = default_last
            elif s_ is not None:
                axes = list(range(nd - len(s_), nd))
            else:
                axes = list(range(nd))
        return [int(x) for x in axes]

    def c1(a, n=None, axis=-1, norm=None, out=None):
        return SArr(tuple(_rep(shape_of(a), [axis], None if n is None else [n])), "complex")

    def cn(default_last):
        def f(a, s=None, axes=None, norm=None, out=None):
            ax = _axes(a, s, axes if axes is not None else default_last)
            return SArr(tuple(_rep(shape_of(a), ax, s)), "complex")
        return f

    def half(n):
        return n // 2 + 1

    def r1(a, n=None, axis=-1, norm=None, out=None):
        sh = shape_of(a)
        m = sh[axis] if n is None else n
        return SArr(tuple(_rep(sh, [axis], [half(m)])), "complex")

    def ir1(a, n=None, axis=-1, norm=None, out=None):
        sh = shape_of(a)
        m = 2 * (sh[axis] - 1) if n is None else n
        return SArr(tuple(_rep(sh, [axis], [m])), "real")

    def rn(default_last):
        def f(a, s=None, axes=None, norm=None, out=None):
            ax = _axes(a, s, axes if axes is not None else default_last)
            sh = _rep(shape_of(a), ax, s)
            sh[ax[-1] % len(sh)] = half(sh[ax[-1] % len(sh)])
            return SArr(tuple(sh), "complex")
        return f

    def irn(default_last):
        def f(a, s=None, axes=None, norm=None, out=None):
            ax = _axes(a, s, axes if axes is not None else default_last)
            sh0 = list(shape_of(a))
            s2 = list(s) if s is not None else [sh0[x] for x in ax[:-1]] + [2 * (sh0[ax[-1]] - 1)]
            return SArr(tuple(_rep(sh0, ax, s2)), "real")
        return f
    same_ = lambda x, axes=None: SArr(shape_of(x), kind_of(x))
    return dict(fft=c1, ifft=c1, fft2=cn((-2, -1)), ifft2=cn((-2, -1)), fftn=cn(None), ifftn=cn(None), rfft=r1, irfft=ir1, rfft2=rn((-2, -1)), irfft2=irn((-2, -1)),
                rfftn=rn(None), irfftn=irn(None), fftshift=same_, ifftshift=same_)


def linalg_impls():
    """NumPy 2 shape contracts of numpy.linalg (assumed; audited against NumPy on small sizes by contracts/rules_shape.audit_linalg)."""
    def sq(a, what):
        sa = shape_of(a)
        if len(sa) < 2:
            raise ValueError(f"{what}: at least 2-D required")
        cx.assume(cx.SBool(dim_term(sa[-1]) == dim_term(sa[-2])))
        return sa
    fk = lambda *xs: promote("real", *[kind_of(x) for x in xs])

    def l_inv(a):
        return SArr(sq(a, "inv"), fk(a))

    def l_det(a):
        return SArr(sq(a, "det")[:-2], fk(a))

    def l_slogdet(a):
        sa = sq(a, "slogdet")
        return (SArr(sa[:-2], fk(a)), SArr(sa[:-2], "real"))

    def l_cholesky(a, **kw):
        return SArr(sq(a, "cholesky"), fk(a))

    def l_pinv(a, *args, **kw):
        sa = shape_of(a)
        if len(sa) < 2:
            raise ValueError("pinv: at least 2-D required")
        return SArr(sa[:-2] + (sa[-1], sa[-2]), fk(a))

    def l_solve(a, b):
        sa, sb = sq(a, "solve"), shape_of(b)
        if len(sb) == 0:
            raise ValueError("solve: 0-d right-hand side")
        if len(sb) == 1:        # NumPy 2: b is a vector only if it is exactly 1-D
            cx.assume(cx.SBool(dim_term(sb[0]) == dim_term(sa[-1])))
            return SArr(sa[:-2] + (sa[-1],), fk(a, b))
        cx.assume(cx.SBool(dim_term(sb[-2]) == dim_term(sa[-1])))
        return SArr(bshape(sa[:-2], sb[:-2]) + (sa[-1], sb[-1]), fk(a, b))

    def l_eigh(a, UPLO="L"):
        sa = sq(a, "eigh")
        return (SArr(sa[:-1], "real"), SArr(sa, fk(a)))

    def l_norm(x, ord=None, axis=None, keepdims=False):
        sx_ = shape_of(x)
        if axis is None:
            return SArr((1,) * len(sx_) if keepdims else (), "real")
        return SArr(reduce_shape(sx_, axis, keepdims), "real")
    def _smin2(a, b):
        if isinstance(a, int) and isinstance(b, int):
            return min(a, b)
        ta, tb = dim_term(a), dim_term(b)
        return cx.SInt(z3.If(ta <= tb, ta, tb))

    def l_svd(a, full_matrices=True, compute_uv=True, hermitian=False):
        sa = shape_of(a)
        if len(sa) < 2:
            raise ValueError("svd: at least 2-D required")
        m, n = sa[-2], sa[-1]
        k = _smin2(m, n)
        s_ = SArr(sa[:-2] + (k,), "real")
        if not compute_uv:
            return s_
        u = SArr(sa[:-2] + ((m, m) if full_matrices else (m, k)), fk(a))
        vh = SArr(sa[:-2] + ((n, n) if full_matrices else (k, n)), fk(a))
        return (u, s_, vh)

    def l_eig(a):
        sa = sq(a, "eig")
        return (SArr(sa[:-1], "complex"), SArr(sa, "complex"))
    return dict(inv=l_inv, det=l_det, slogdet=l_slogdet, cholesky=l_cholesky, pinv=l_pinv, solve=l_solve, eigh=l_eigh, norm=l_norm, svd=l_svd, eig=l_eig)


def make_namespaces(oblig):
    """abstract `anp` and `onp` for the shape engine.  oblig(name, z3 formula) records a NumPy-acceptance obligation."""
    INDEX_OBLIG[0] = oblig
    def unary(x, *a, **k):
        return SArr(shape_of(x), promote("real", kind_of(x)))

    def same(x, *a, **k):
        return SArr(shape_of(x), kind_of(x))

    def a_sum(x, axis=None, keepdims=False, dtype=None):
        return SArr(reduce_shape(shape_of(x), axis, keepdims), promote("int", kind_of(x)) if kind_of(x) == "bool" else kind_of(x))

    def a_mean(x, axis=None, keepdims=False):
        return SArr(reduce_shape(shape_of(x), axis, keepdims), promote("real", kind_of(x)))

    def a_reshape(x, shape, order=None):
        shp = tuple(shape) if isinstance(shape, (list, tuple, ShapeVec)) else (shape,)
        oblig("numpy-accepts-reshape(total size preserved)", size_term(shape_of(x)) == size_term(shp))
        return SArr(shp, kind_of(x))

    _METHODS["reshape"] = a_reshape

    def a_where(c, a, b):
        return SArr(bshape(shape_of(c), shape_of(a), shape_of(b)), promote(kind_of(a), kind_of(b)))

    def a_real(x):
        return SArr(shape_of(x), "real" if kind_of(x) == "complex" else kind_of(x))

    def a_zeros(shape, dtype=None):
        shp = tuple(shape) if isinstance(shape, (list, tuple, ShapeVec)) else (shape,)
        k = dtype.kind if isinstance(dtype, DT) else ("int" if dtype is int else "real")
        return SArr(shp, k)

    def a_expand_dims(x, axis):
        s = list(shape_of(x))
        axs = (axis,) if isinstance(axis, int) else tuple(axis)
        nd = len(s) + len(axs)
        for a in sorted(a_ % nd for a_ in axs):
            s.insert(a, 1)
        return SArr(tuple(s), kind_of(x))

    def a_broadcast_to(x, shape):
        return SArr(bshape(shape_of(x), tuple(shape)), kind_of(x))

    def a_repeat(x, reps, axis=None):
        shp = list(shape_of(x))
        if axis is None:
            return SArr((prod(shp) * reps,), kind_of(x))
        shp[axis] = shp[axis] * reps
        return SArr(tuple(shp), kind_of(x))

    def a_prod(x, axis=None, keepdims=False):
        if isinstance(x, (ShapeVec, list, tuple)) or not isinstance(x, SArr):
            return prod(x)
        return a_sum(x, axis, keepdims)

    def a_transpose(x, axes=None):
        sh = shape_of(x)
        if axes is None:
            return SArr(sh[::-1], kind_of(x))
        axes = [int(a) for a in axes]
        nd = len(sh)
        if sorted(a % nd for a in axes) != list(range(nd)):
            raise ValueError("axes don't match array")
        return SArr(tuple(sh[a % nd] for a in axes), kind_of(x))

    def a_swapaxes(x, a, b):
        return x.swapaxes(a, b)

    def a_moveaxis(x, src, dst):
        nd = len(shape_of(x))
        srcs = [src] if isinstance(src, int) else list(src)
        dsts = [dst] if isinstance(dst, int) else list(dst)
        srcs = [a % nd for a in srcs]
        dsts = [a % nd for a in dsts]
        rest = [a for a in range(nd) if a not in srcs]
        res = [None] * nd
        for s_, d_ in zip(srcs, dsts):
            res[d_] = s_
        it = iter(rest)
        res = [r if r is not None else next(it) for r in res]
        return SArr(tuple(shape_of(x)[a] for a in res), kind_of(x))

    def a_rollaxis(x, axis, start=0):
        nd = len(shape_of(x))
        axis = axis % nd
        if start < 0:
            start += nd
        if not 0 <= start <= nd:
            raise ValueError("rollaxis: start out of range")
        axes = list(range(nd))
        if axis < start:
            start -= 1
        axes.remove(axis)
        axes.insert(start, axis)
        return SArr(tuple(shape_of(x)[a] for a in axes), kind_of(x))

    def a_ravel(x, order=None):
        return SArr((prod(list(shape_of(x))),), kind_of(x))

    def a_squeeze(x, axis=None):
        sh = list(shape_of(x))
        if axis is None:
            return SArr(tuple(d for d in sh if not is_one(d)), kind_of(x))
        axs = (axis,) if isinstance(axis, int) else tuple(axis)
        axs = [a % len(sh) for a in axs]
        for a in axs:
            if not is_one(sh[a]):
                oblig("numpy-accepts-squeeze(axis has size 1)", dim_term(sh[a]) == 1)
        return SArr(tuple(d for i_, d in enumerate(sh) if i_ not in axs), kind_of(x))

    def a_concat_args(axis, *arrs):
        sh0 = list(shape_of(arrs[0]))
        ax = axis % len(sh0)
        tot = sh0[ax]
        for a_ in arrs[1:]:
            tot = tot + shape_of(a_)[ax]
        sh0[ax] = tot
        return SArr(tuple(sh0), promote(*[kind_of(a_) for a_ in arrs]))

    def a_split(g, n_, axis=0):
        if not isinstance(n_, int):
            raise shadow.NotModelled("split at indices")
        sh = list(shape_of(g))
        d = sh[axis]
        if n_ == 1:
            return [g]
        q = cx.SInt(z3.FreshInt("q"))
        cx.assume(cx.SBool(dim_term(q) * n_ == dim_term(d)))
        cx.assume(q >= 0)
        sh[axis] = q
        return [SArr(tuple(sh), kind_of(g)) for _ in range(n_)]

    def a_pad(x, width, mode="constant", **kw):
        import numpy as _n
        nd_ = len(shape_of(x))
        if isinstance(width, (list, tuple)) and len(width) == nd_ and all(isinstance(p_, (list, tuple)) and len(p_) == 2 for p_ in width) \
                and any(isinstance(e, cx.SInt) for p_ in width for e in p_):
            # explicit (before, after) pairs with symbolic widths: NumPy requires them non-negative (obligation), the result grows by their sum
            for lo, hi in width:
                for e in (lo, hi):
                    if isinstance(e, cx.SInt):
                        oblig("numpy-accepts-pad(width >= 0)", dim_term(e) >= 0)
            return SArr(tuple(d + (lo if isinstance(lo, cx.SInt) else int(lo)) + (hi if isinstance(hi, cx.SInt) else int(hi)) for d, (lo, hi) in zip(shape_of(x), width)), kind_of(x))
        pairs = _n.lib._arraypad_impl._as_pairs(width, nd_, as_index=True)
        return SArr(tuple(d + int(lo) + int(hi) for d, (lo, hi) in zip(shape_of(x), pairs)), kind_of(x))

    def a_rot90(x, k=1, axes=(0, 1)):
        return x.swapaxes(axes[0], axes[1]) if k % 2 else SArr(shape_of(x), kind_of(x))

    def a_matmul(a, b):
        sa, sb = shape_of(a), shape_of(b)
        if not sa or not sb:
            raise ValueError("matmul: 0-d operand")
        a2 = (1,) + sa if len(sa) == 1 else sa
        b2 = sb + (1,) if len(sb) == 1 else sb
        cx.assume(cx.SBool(dim_term(a2[-1]) == dim_term(b2[-2])))
        batch = bshape(a2[:-2], b2[:-2])
        res = list(batch) + [a2[-2], b2[-1]]
        if len(sb) == 1:
            res.pop(-1)
        if len(sa) == 1:
            res.pop(-2 if len(sb) != 1 else -1)
        return SArr(tuple(res), promote(kind_of(a), kind_of(b)))

    def a_tri(x, k=0):
        sh = shape_of(x)
        if len(sh) == 1:      # NumPy: the mask (n, n) broadcast against the vector
            return SArr((sh[0], sh[0]), kind_of(x))
        return same(x)

    def a_atleast(nmin):
        def f(*xs):
            outs = []
            for x in xs:
                sh = shape_of(x)
                if len(sh) >= nmin:
                    new = sh
                elif nmin == 1:
                    new = (1,)
                elif nmin == 2:
                    new = (1, 1) if len(sh) == 0 else (1,) + sh
                else:
                    new = (1, 1, 1) if len(sh) == 0 else ((1,) + sh + (1,) if len(sh) == 1 else sh + (1,))
                outs.append(SArr(new, kind_of(x)))
            return outs[0] if len(outs) == 1 else outs
        return f

    _binary = lambda x, y, *a, **k: SArr(bshape(shape_of(x), shape_of(y)), promote("real", kind_of(x), kind_of(y)))

    def a_maximum(x, y, *a, **k):
        # integer vectors of sizes (onp.maximum(0, wanted - have)): element-wise symbolic maximum
        if isinstance(x, ShapeVec) or isinstance(y, ShapeVec):
            v, c = (x, y) if isinstance(x, ShapeVec) else (y, x)
            out = ShapeVec()
            for d, e in v._zip(c):
                if isinstance(d, cx.SInt) or isinstance(e, cx.SInt):
                    td, te = dim_term(d), dim_term(e)
                    out.append(cx.SInt(z3.simplify(z3.If(td >= te, td, te))))
                else:
                    out.append(max(d, e))
            return out
        return _binary(x, y)
    binary = _binary
    cmp_ = lambda x, y, *a, **k: SArr(bshape(shape_of(x), shape_of(y)), "bool")
    impls = dict(ndim=lambda x: len(shape_of(x)), shape=lambda x: shape_of(x), iscomplexobj=lambda x: kind_of(x) == "complex", isscalar=lambda x: isinstance(x, (int, float, complex, cx.SInt)),
                 result_type=lambda *xs: DT(promote(*[kind_of(x) for x in xs])), metadata=lambda x: (shape_of(x), len(shape_of(x)), DT(kind_of(x)), kind_of(x) == "complex"),
                 sum=a_sum, mean=a_mean, prod=a_prod, repeat=a_repeat, size=lambda x: prod(shape_of(x)), array=lambda v, *a, **k: ShapeVec(v) if isinstance(v, (list, tuple)) else v, max=a_sum, min=a_sum, amax=a_sum, amin=a_sum, var=a_mean, std=a_mean, reshape=a_reshape, where=a_where, real=a_real,
                 imag=a_real, zeros=a_zeros, ones=a_zeros, expand_dims=a_expand_dims, broadcast_to=a_broadcast_to, conj=same, conjugate=same, sign=same, floor=same,
                 negative=same, abs=a_real, absolute=a_real, isfinite=lambda x: SArr(shape_of(x), "bool"), logical_and=cmp_, equal=cmp_,
                 maximum=a_maximum, minimum=binary, add=binary, subtract=binary, multiply=binary, divide=binary, true_divide=binary, power=binary, arctan2=binary, hypot=binary,
                 logaddexp=binary, logaddexp2=binary, mod=binary, remainder=binary, fmax=binary, fmin=binary)
    for u in ("exp", "log", "sin", "cos", "tan", "sinh", "cosh", "tanh", "sqrt", "arcsin", "arccos", "arctan", "arcsinh", "arccosh", "arctanh", "log2", "log10", "log1p", "expm1", "exp2",
              "square", "reciprocal", "sinc", "deg2rad", "rad2deg", "degrees", "radians"):
        impls[u] = unary
    impls.update(angle=a_real, fabs=unary, real_if_close=same, nan_to_num=same, ceil=same, rint=same, trunc=same, fix=same, round=same, around=same)
    def a_tile(x, reps):
        reps = (reps,) if isinstance(reps, int) else tuple(reps)
        sh = tuple(shape_of(x))
        nd = max(len(sh), len(reps))
        sh = (1,) * (nd - len(sh)) + sh
        reps = (1,) * (nd - len(reps)) + reps
        return SArr(tuple(d * r for d, r in zip(sh, reps)), kind_of(x))

    def a_argsort(v, *a, **k):
        import numpy as _n
        return [int(t) for t in _n.argsort([int(q) for q in v])]

    def _ax_list(v):
        import numpy as _n
        if isinstance(v, (int, _n.integer)):
            return [int(v)]
        return [int(t) for t in list(v)]

    def a_tensordot(a, b, axes=2):
        sa, sb = list(shape_of(a)), list(shape_of(b))
        import numpy as _n
        if isinstance(axes, (int, _n.integer)):
            n_ = int(axes)
            ia, ib = list(range(len(sa) - n_, len(sa))), list(range(n_))
        else:
            ia, ib = _ax_list(axes[0]), _ax_list(axes[1])
        if len(ia) != len(ib):
            raise ValueError("shape-mismatch for sum")
        ia = [t % len(sa) if sa else t for t in ia]
        ib = [t % len(sb) if sb else t for t in ib]
        for p_, q_ in zip(ia, ib):
            cx.assume(cx.SBool(dim_term(sa[p_]) == dim_term(sb[q_])))
        res = [d for t, d in enumerate(sa) if t not in ia] + [d for t, d in enumerate(sb) if t not in ib]
        return SArr(tuple(res), promote(kind_of(a), kind_of(b)))

    def a_dot(a, b):
        sa, sb = shape_of(a), shape_of(b)
        if len(sa) == 0 or len(sb) == 0:
            return SArr(bshape(sa, sb), promote(kind_of(a), kind_of(b)))
        if len(sb) == 1:
            return a_tensordot(a, b, ([len(sa) - 1], [0]))
        return a_tensordot(a, b, ([len(sa) - 1], [len(sb) - 2]))

    def a_inner(a, b):
        sa, sb = shape_of(a), shape_of(b)
        if len(sa) == 0 or len(sb) == 0:
            return SArr(bshape(sa, sb), promote(kind_of(a), kind_of(b)))
        return a_tensordot(a, b, ([len(sa) - 1], [len(sb) - 1]))

    def a_outer(a, b):
        return SArr((prod(list(shape_of(a))), prod(list(shape_of(b)))), promote(kind_of(a), kind_of(b)))

    def a_asarray(x, dtype=None):
        return SArr(shape_of(x), dtype.kind if isinstance(dtype, DT) else kind_of(x)) if isinstance(x, SArr) else x

    def a_parse_einsum_input(*operands):
        """NumPy's own parser on dummy arrays of the same rank (it only looks at ranks to expand the ellipsis)"""
        import numpy as _n
        from numpy._core.einsumfunc import _parse_einsum_input
        dummies = [(_n.zeros((1,) * len(shape_of(v))) if isinstance(v, SArr) else v) for v in operands]
        ins, outs, _ = _parse_einsum_input(dummies)
        return ins, outs, [v for v in operands if isinstance(v, SArr)]

    def a_einsum(*operands, **kw):
        ins, outs, ops = a_parse_einsum_input(*operands)
        dims = {}
        for sub, op_ in zip(ins.split(","), ops):
            sh = shape_of(op_)
            if len(sub) != len(sh):
                raise ValueError("einsum: subscripts do not match operand rank")
            for ch, d in zip(sub, sh):
                if ch in dims:
                    dims[ch] = bdim(dims[ch], d)   # repeated label: equal or broadcast (size 1) - NumPy's acceptance condition
                else:
                    dims[ch] = d
        return SArr(tuple(dims[ch] for ch in outs), promote(*[kind_of(o_) for o_ in ops]))

    impls.update(einsum=a_einsum, parse_einsum_input=a_parse_einsum_input)
    impls.update(tile=a_tile, zeros_like=same, ones_like=same, argsort=a_argsort, tensordot=a_tensordot, dot=a_dot, inner=a_inner, outer=a_outer, asarray=a_asarray)
    impls.update(transpose=a_transpose, swapaxes=a_swapaxes, moveaxis=a_moveaxis, rollaxis=a_rollaxis, ravel=a_ravel, squeeze=a_squeeze, concatenate_args=a_concat_args,
                 split=a_split, pad=a_pad, rot90=a_rot90, matmul=a_matmul, atleast_1d=a_atleast(1), atleast_2d=a_atleast(2), atleast_3d=a_atleast(3),
                 flipud=same, fliplr=same, roll=same, triu=a_tri, tril=a_tri, cumsum=lambda x, axis=None: (same(x) if axis is not None else a_ravel(x)),
                 clip=lambda x, lo, hi: SArr(bshape(shape_of(x), shape_of(lo), shape_of(hi)), promote(kind_of(x), kind_of(lo), kind_of(hi))))
    # ---- further shape contracts (diag / eye / trace / full / linspace / kron / diff / cross)
    def _smin(a, b):
        ta, tb = cx.term(a), cx.term(b)
        return cx.SInt(z3.If(ta <= tb, ta, tb))

    def _smax0(a):
        ta = cx.term(a)
        return cx.SInt(z3.If(ta >= 0, ta, 0))

    def a_diag(x, k=0):
        sh = shape_of(x)
        if len(sh) == 1:
            n = sh[0] + abs(k)
            return SArr((n, n), kind_of(x))
        if len(sh) == 2:
            n, m = sh
            ln = _smax0(_smin(n, m - k)) if k >= 0 else _smax0(_smin(n + k, m))
            return SArr((ln,), kind_of(x))
        raise ValueError("diag: input must be 1- or 2-d")

    def a_eye(n, m=None, k=0, dtype=None):
        return SArr((n, n if m is None else m), "real")

    def a_trace(x, offset=0, axis1=0, axis2=1):
        sh = list(shape_of(x))
        if len(sh) < 2:
            raise ValueError("trace: at least 2-d")
        a1, a2 = axis1 % len(sh), axis2 % len(sh)
        return SArr(tuple(d for i, d in enumerate(sh) if i not in (a1, a2)), kind_of(x))

    def a_full(shape, fill_value, dtype=None):
        shape = tuple(shape) if isinstance(shape, (tuple, list)) else (shape,)
        oblig("full: fill value broadcastable to shape", z3.BoolVal(True))
        bshape(shape, shape_of(fill_value))
        return SArr(shape, kind_of(fill_value) if dtype is None else "real")

    def a_linspace(start, stop, num=50, **kw):
        return SArr((num,) + tuple(bshape(shape_of(start), shape_of(stop))), promote("real", kind_of(start), kind_of(stop)))

    def a_kron(a, b):
        sa, sb = list(shape_of(a)), list(shape_of(b))
        nd = max(len(sa), len(sb))
        sa, sb = [1] * (nd - len(sa)) + sa, [1] * (nd - len(sb)) + sb
        return SArr(tuple(x_ * y_ for x_, y_ in zip(sa, sb)), promote(kind_of(a), kind_of(b)))

    def a_diff(x, n=1, axis=-1):
        sh = list(shape_of(x))
        ax = axis % len(sh)
        sh[ax] = _smax0(sh[ax] - n)
        return SArr(tuple(sh), kind_of(x))

    def a_cross(a, b, axisa=-1, axisb=-1, axisc=-1, axis=None):
        if (axisa, axisb, axisc, axis) != (-1, -1, -1, None):
            raise shadow.NotModelled("cross with non-default axes")
        sa, sb = shape_of(a), shape_of(b)
        if not sa or not sb or sa[-1] != 3 or sb[-1] != 3:
            raise shadow.NotModelled("cross of non-3-vectors")
        return SArr(tuple(bshape(sa[:-1], sb[:-1])) + (3,), promote(kind_of(a), kind_of(b)))

    def a_diagonal(x, offset=0, axis1=0, axis2=1):
        sh = list(shape_of(x))
        nd = len(sh)
        a1, a2 = axis1 % nd, axis2 % nd
        if a1 == a2:
            raise ValueError("axis1 and axis2 cannot be the same")
        d1, d2 = sh[a1], sh[a2]
        k = int(offset)
        ln = _smax0(_smin(d1, d2 - k)) if k >= 0 else _smax0(_smin(d1 + k, d2))
        return SArr(tuple(d for i, d in enumerate(sh) if i not in (a1, a2)) + (ln,), kind_of(x))

    def a_make_diagonal(D, offset=0, axis1=0, axis2=1):
        # contract of autograd.numpy.numpy_wrapper.make_diagonal (autograd's own primitive, not NumPy): audited by VT-plain / the numeric rows
        if not (offset == 0 and axis1 == -1 and axis2 == -2):
            raise NotImplementedError("Currently make_diagonal only supports offset=0, axis1=-1, axis2=-2")
        sh = shape_of(D)
        return SArr(tuple(sh) + (sh[-1],), kind_of(D))

    def a_concatenate(arrs, axis=0):
        if all(not isinstance(v, SArr) for v in arrs):      # vectors of sizes (some symbolic): what the rules build reshape targets from
            out = ShapeVec()
            for v in arrs:
                out.extend([int(e) if type(e).__module__ == "numpy" else e for e in v])
            return out
        return a_concat_args(axis, *arrs)

    def a_min(x, *a, **k):
        if isinstance(x, (tuple, list)) and not a and not k and all(isinstance(e, (int, cx.SInt)) for e in x):
            r = x[0]
            for e in x[1:]:
                r = _smin(r, e) if (isinstance(r, cx.SInt) or isinstance(e, cx.SInt)) else min(r, e)
            return r
        return a_sum(x, *a, **k)
    impls.update(diag=a_diag, eye=a_eye, trace=a_trace, full=a_full, linspace=a_linspace, kron=a_kron, diff=a_diff, cross=a_cross, concatenate=a_concatenate, min=a_min, diagonal=a_diagonal, make_diagonal=a_make_diagonal)
    import numpy as _rnp

    def _abstract(v):
        return isinstance(v, (SArr, cx.SInt, ShapeVec, DT)) or (isinstance(v, (list, tuple)) and any(_abstract(e) for e in v))

    def _with_fallback(nm, f):
        def g(*a, **k):
            if hasattr(_rnp, nm) and not any(_abstract(v) for v in a) and not any(_abstract(v) for v in k.values()):
                return getattr(_rnp, nm)(*a, **k)   # purely concrete arguments (widths, axes, ...): NumPy itself
            return f(*a, **k)
        return g
    impls = {nm: _with_fallback(nm, f) for nm, f in impls.items()}
    anp = shadow.Namespace("anp", impls, consts=dict(pi=3.141592653589793, newaxis=None))

    class ONP:
        """raw numpy as the rule helpers use it: abstract operands -> the shape contracts above, concrete operands (axes, shapes, widths) -> NumPy itself"""
        __version__ = "2.5.3"

        class lib:
            NumpyVersion = staticmethod(lambda v: "2.5.3")

        def __getattr__(self, n):
            if n in ("array",):
                return lambda v, dtype=None: ShapeVec(v) if (isinstance(v, (list, tuple)) and any(isinstance(e, cx.SInt) for e in v)) else (_rnp.array(v, dtype=dtype) if not _abstract(v) else v)
            if n == "prod":
                return lambda v, *a, **k: prod(v) if _abstract(v) else _rnp.prod(v, *a, **k)
            if n == "where":
                return lambda v, *a: ([i for i, t in enumerate(v) if t],) if (isinstance(v, list) and not a) else _rnp.where(v, *a)
            if n == "logical_and":
                return lambda a_, b_: [x and y for x, y in zip(a_, b_)] if isinstance(a_, list) else _rnp.logical_and(a_, b_)
            if n in impls:
                return impls[n]
            if hasattr(_rnp, n):
                real = getattr(_rnp, n)

                def g(*a, **k):
                    if any(_abstract(v) for v in a) or any(_abstract(v) for v in k.values()):
                        raise shadow.NotModelled("onp." + n)
                    return real(*a, **k)
                return g
            raise shadow.NotModelled("onp." + n)

    return anp, ONP()
