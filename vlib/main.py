"""bin/check entry point."""
import argparse
import importlib
import json
import os
import sys

from .common import VERIF, run_check


def main():
    ap = argparse.ArgumentParser()
    ap.add_argument("pid")
    ap.add_argument("--tier", default=os.environ.get("VERIF_TIER", "quick"), choices=["quick", "thorough"])
    ap.add_argument("--replay")
    a = ap.parse_args()
    os.chdir(VERIF)
    if a.replay:
        spec = json.load(open(a.replay))
        r = spec.get("replay") or {}
        print(f"replay of {spec['property']} obligation={spec['obligation']} case={spec['case']}")
        print("reported:", spec["what"])
        if not r or "module" not in r:
            print("no executable input in this replay file (no-failing-input-found); solver output:")
            print(spec.get("solver_output"))
            return 0
        mod = importlib.import_module(r["module"])
        ok, obs, exp = mod.replay(r)
        print("observed on current /repo:", obs)
        print("contract requires        :", exp)
        print("RESULT:", "holds now" if ok else "VIOLATED")
        return 0 if ok else 1
    mod = importlib.import_module(f"props.{a.pid}")
    cmd = f"./bin/check {a.pid} --tier {a.tier}"
    fn = mod.check
    if a.tier == "thorough" and not os.environ.get("VERIF_REPO"):
        def fn(rep, tier, inner=mod.check):
            inner(rep, tier)
            rep.extra["mutation_self_test"] = self_test(a.pid)
    return run_check(a.pid, fn, a.tier, mod.LEVEL, cmd)


def self_test(pid):
    """thorough tier: every seeded change recorded for this property (seeded/<pid>-m*/patch.diff) is applied to a scratch copy of /repo
    outside /repo and /verif and the quick check must report a VIOLATION there; harmless edits must stay green.  Reported, never
    changes the verdict of the unchanged tree."""
    import glob
    import shutil
    import subprocess
    import tempfile
    res = []
    seeds = sorted(glob.glob(os.path.join(VERIF, "seeded", f"{pid}-m*")))
    harmless = [("rename-local-in-toposort", "autograd/util.py", "s/childless_nodes/ready_nodes/g"), ("reorder-independent-statements", "autograd/tracer.py", "s/    top_boxes = \\[\\]\\n    top_node_type = None/    top_node_type = None\\n    top_boxes = []/")]
    if pid == "C18":   # retunings of the checker that stay inside the contract's bands
        harmless += [("EPS=1e-5", "autograd/test_util.py", "s/\\nEPS = 1e-6/\\nEPS = 1e-5/"), ("TOL=2e-6", "autograd/test_util.py", "s/\\nTOL = 1e-6/\\nTOL = 2e-6/"),
                     ("relative-measure-|a|+|b|", "autograd/test_util.py", "s#abs(a - b) / abs(a + b) < RTOL#abs(a - b) / (abs(a) + abs(b)) < RTOL#")]
    # behaviour-preserving refactorings written by sub-agents (harmless/<region>-r<k>.diff): a rotating selection of 8 per property
    hd = sorted(glob.glob(os.path.join(VERIF, "harmless", "*.diff")))
    if hd:
        k0 = int(pid[1:]) % len(hd)
        pick = [hd[(k0 + 4 * i) % len(hd)] for i in range(min(8, len(hd)))]
    else:
        pick = []
    jobs = ([(os.path.basename(d), ("patch", os.path.join(d, "patch.diff")), True) for d in seeds] + [(n, ("sed", f, e), False) for n, f, e in harmless]
            + [("harmless/" + os.path.basename(h), ("patch", h), False) for h in dict.fromkeys(pick)])
    def one(job):
        name, how, must_fail = job
        S = tempfile.mkdtemp(prefix="verif-selftest.")
        try:
            subprocess.run(["rsync", "-a", "--exclude", ".git", "--exclude", "__pycache__", "/repo/", S + "/"], check=True)
            if how[0] == "patch":
                ok = subprocess.run(["patch", "-s", "-p1", "-i", how[1]], cwd=S, capture_output=True).returncode == 0
            else:
                ok = subprocess.run(["sed", "-i", "-z", "-e", how[2], os.path.join(S, how[1])], capture_output=True).returncode == 0
            if not ok:
                return dict(change=name, applied=False)
            env = dict(os.environ, VERIF_REPO=S, VERIF_OUT=os.path.join(S, "_out"), VERIF_TIER="quick")
            p = subprocess.run([os.path.join(VERIF, "bin", "check"), pid, "--tier", "quick"], capture_output=True, text=True, env=env, timeout=3600)
            return dict(change=name, applied=True, expected="VIOLATION" if must_fail else "green", exit=p.returncode,
                        as_expected=(p.returncode == 1) if must_fail else (p.returncode == 0))
        except Exception as e:
            return dict(change=name, error=str(e)[:100])
        finally:
            shutil.rmtree(S, ignore_errors=True)
    # the changes are independent scratch copies: four at a time (each quick check has its own worker pools)
    from concurrent.futures import ThreadPoolExecutor
    with ThreadPoolExecutor(max_workers=4) as ex:
        res = list(ex.map(one, jobs))
    return res


if __name__ == "__main__":
    sys.exit(main())
