"""bin/check entry point."""
import argparse
import importlib
import json
import os
import sys

from .common import VERIF, run_check


def main():
    ap = argparse.ArgumentParser()
    ap.add_argument("pid")
    ap.add_argument("--tier", default=os.environ.get("VERIF_TIER", "quick"), choices=["quick", "thorough"])
    ap.add_argument("--replay")
    a = ap.parse_args()
    os.chdir(VERIF)
    if a.replay:
        spec = json.load(open(a.replay))
        r = spec.get("replay") or {}
        print(f"replay of {spec['property']} obligation={spec['obligation']} case={spec['case']}")
        print("reported:", spec["what"])
        if not r or "module" not in r:
            print("no executable input in this replay file (no-failing-input-found); solver output:")
            print(spec.get("solver_output"))
            return 0
        mod = importlib.import_module(r["module"])
        ok, obs, exp = mod.replay(r)
        print("observed on current /repo:", obs)
        print("contract requires        :", exp)
        print("RESULT:", "holds now" if ok else "VIOLATED")
        return 0 if ok else 1
    mod = importlib.import_module(f"props.{a.pid}")
    cmd = f"./bin/check {a.pid} --tier {a.tier}"
    return run_check(a.pid, mod.check, a.tier, mod.LEVEL, cmd)


if __name__ == "__main__":
    sys.exit(main())
