"""SMT back ends: z3 (python API, in-process) with /usr/bin/cvc5 on SMT-LIB text as second solver."""
import os
import subprocess
import tempfile
import time

import z3

QUICK_MS = 20000
THOROUGH_MS = 120000


def budget_ms(tier):
    return QUICK_MS if tier == "quick" else THOROUGH_MS


def _cvc5(smt2, timeout_ms, extra=()):
    with tempfile.NamedTemporaryFile("w", suffix=".smt2", delete=False) as f:
        f.write(smt2)
        path = f.name
    try:
        p = subprocess.run(
            ["/usr/bin/cvc5", f"--tlimit={timeout_ms}", *extra, path],
            capture_output=True,
            text=True,
            timeout=timeout_ms / 1000 + 5,
        )
        out = (p.stdout or "").strip().splitlines()
        return out[0] if out else "unknown"
    except Exception:
        return "unknown"
    finally:
        os.unlink(path)


def _z3_try(constraints, timeout_ms, alt):
    s = z3.Solver()
    s.set("timeout", int(timeout_ms))
    if alt:
        s.set("random_seed", 7)
        try:
            s.set("smt.mbqi", False)
        except Exception:
            pass
    for c in constraints:
        s.add(c)
    t0 = time.time()
    r = s.check()
    return r, s, time.time() - t0


def check_sat(constraints, timeout_ms=QUICK_MS, want_model=True, use_cvc5=True, logic=None, both=False):
    """Returns (status, model_or_None, backend, secs); status in sat/unsat/unknown; secs = time of the DECIDING attempt.

    Ladder (DESIGN §2.3), staged so that a query one configuration finds hard does not burn the whole budget before the next one is
    tried: [z3 default, z3 second seed + mbqi off, cvc5] first with a short slice (<= 2 s / 5 s), then each with the full budget.
    both=True additionally runs cvc5 on a z3 'unsat' and raises on disagreement."""
    t_start = time.time()
    short = min(2000, timeout_ms)
    plan = [("z3", False, short), ("z3(seed2,mbqi=off)", True, short)]
    if use_cvc5:
        plan.append(("cvc5", None, min(5000, timeout_ms)))
    if timeout_ms > short:
        plan += [("z3", False, timeout_ms), ("z3(seed2,mbqi=off)", True, timeout_ms)] + ([("cvc5", None, timeout_ms)] if use_cvc5 else [])
    last_solver = None
    for backend, alt, tmo in plan:
        if backend == "cvc5":
            if last_solver is None:
                continue
            t0 = time.time()
            c = _cvc5("(set-logic ALL)\n" + last_solver.to_smt2(), tmo)
            if c in ("unsat", "sat"):
                return c, None, "cvc5", time.time() - t0
            continue
        r, sv, secs = _z3_try(constraints, tmo, alt)
        last_solver = sv
        if r == z3.unsat:
            if both:
                c = _cvc5("(set-logic ALL)\n" + sv.to_smt2(), min(timeout_ms, 30000))
                if c == "sat":
                    from .common import CheckerError
                    raise CheckerError("z3 says unsat, cvc5 says sat on the same obligation")
                if c == "unsat":
                    backend = backend + "+cvc5"
            return "unsat", None, backend, secs
        if r == z3.sat:
            return "sat", (sv.model() if want_model else None), backend, secs
    return "unknown", None, "z3", time.time() - t_start


def prove(hyps, goal, timeout_ms=QUICK_MS, both=False):
    """valid(hyps => goal)?  returns (verdict, model, backend, secs), verdict in proved/refuted/unknown."""
    st, m, b, secs = check_sat(list(hyps) + [z3.Not(goal)], timeout_ms, both=both)
    return {"unsat": "proved", "sat": "refuted", "unknown": "unknown"}[st], m, b, secs


def model_value(m, term, default=0):
    if m is None:
        return default
    v = m.eval(term, model_completion=True)
    if z3.is_int_value(v):
        return v.as_long()
    if z3.is_rational_value(v):
        return v.numerator_as_long() / v.denominator_as_long()
    if z3.is_true(v):
        return True
    if z3.is_false(v):
        return False
    if z3.is_algebraic_value(v):
        a = v.approx(20)
        return a.numerator_as_long() / a.denominator_as_long()
    return default
