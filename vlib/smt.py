"""SMT back ends: z3 (python API, in-process) with /usr/bin/cvc5 on SMT-LIB text as second solver."""
import os
import subprocess
import tempfile
import time

import z3

QUICK_MS = 20000
THOROUGH_MS = 120000


def budget_ms(tier):
    return QUICK_MS if tier == "quick" else THOROUGH_MS


def _cvc5(smt2, timeout_ms, extra=()):
    with tempfile.NamedTemporaryFile("w", suffix=".smt2", delete=False) as f:
        f.write(smt2)
        path = f.name
    try:
        p = subprocess.run(
            ["/usr/bin/cvc5", f"--tlimit={timeout_ms}", *extra, path],
            capture_output=True,
            text=True,
            timeout=timeout_ms / 1000 + 5,
        )
        out = (p.stdout or "").strip().splitlines()
        return out[0] if out else "unknown"
    except Exception:
        return "unknown"
    finally:
        os.unlink(path)


def check_sat(constraints, timeout_ms=QUICK_MS, want_model=True, use_cvc5=True, logic=None, both=False):
    """Returns (status, model_or_None, backend, secs); status in sat/unsat/unknown.

    Ladder (DESIGN §2.3): z3 default -> z3 second seed, mbqi off -> cvc5.
    both=True additionally runs cvc5 on a z3 'unsat' and raises on disagreement."""
    t0 = time.time()
    s = z3.Solver() if logic is None else z3.SolverFor(logic)
    s.set("timeout", int(timeout_ms))
    for c in constraints:
        s.add(c)
    r = s.check()
    backend = "z3"
    if r == z3.unknown:
        s2 = z3.Solver()
        s2.set("timeout", int(timeout_ms))
        s2.set("random_seed", 7)
        try:
            s2.set("smt.mbqi", False)
        except Exception:
            pass
        for c in constraints:
            s2.add(c)
        r2 = s2.check()
        if r2 != z3.unknown:
            r, s, backend = r2, s2, "z3(seed2,mbqi=off)"
    if r == z3.unknown and use_cvc5:
        txt = "(set-logic ALL)\n" + s.to_smt2()
        c = _cvc5(txt, timeout_ms)
        if c == "unsat":
            return "unsat", None, "cvc5", time.time() - t0
        if c == "sat":
            return "sat", None, "cvc5", time.time() - t0
    if r == z3.unsat and both:
        txt = "(set-logic ALL)\n" + s.to_smt2()
        c = _cvc5(txt, timeout_ms)
        if c == "sat":
            from .common import CheckerError

            raise CheckerError("z3 says unsat, cvc5 says sat on the same obligation")
        if c == "unsat":
            backend = "z3+cvc5"
    if r == z3.sat:
        return "sat", (s.model() if want_model else None), backend, time.time() - t0
    if r == z3.unsat:
        return "unsat", None, backend, time.time() - t0
    return "unknown", None, backend, time.time() - t0


def prove(hyps, goal, timeout_ms=QUICK_MS, both=False):
    """valid(hyps => goal)?  returns (verdict, model, backend, secs), verdict in proved/refuted/unknown."""
    st, m, b, secs = check_sat(list(hyps) + [z3.Not(goal)], timeout_ms, both=both)
    return {"unsat": "proved", "sat": "refuted", "unknown": "unknown"}[st], m, b, secs


def model_value(m, term, default=0):
    if m is None:
        return default
    v = m.eval(term, model_completion=True)
    if z3.is_int_value(v):
        return v.as_long()
    if z3.is_rational_value(v):
        return v.numerator_as_long() / v.denominator_as_long()
    if z3.is_true(v):
        return True
    if z3.is_false(v):
        return False
    if z3.is_algebraic_value(v):
        a = v.approx(20)
        return a.numerator_as_long() / a.denominator_as_long()
    return default
