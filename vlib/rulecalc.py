r"""E2: scalar calculus of element-wise derivative rules (DESIGN §2.2).

Ex  - symbolic real expression with operator overloading, so the REAL rule lambdas of the shadow-loaded modules run on it.
D   - chain-rule differentiator over the basis {exp, log, sin, cos, sqrt, atan, asin, acos, atan2, floor, sign, abs}.
Z   - translation to z3: transcendental basis functions become uninterpreted functions with instance axioms
      (EXP>0, EXP(a)EXP(b)=EXP(c) whenever a+b=c is provable for arguments that occur, EXP(LOG u)=u, SIN^2+COS^2=1,
      SQRT(u)^2=u & SQRT(u)>=0, ...).  An obligation  domain /\ axioms |- lhs = rhs  is then NRA+EUF.
"""
import itertools
from fractions import Fraction

import z3

from .common import CheckerError
from .smt import check_sat, model_value


class NotScalar(Exception):
    pass


COMPLEX_LIFT = [None]  # set by contracts/rules_complex.py: lifts Ex / complex literals to pairs


def _foreign(o):
    """operand that Ex arithmetic must hand over to (complex pair class / complex literal)"""
    return type(o).__name__ == "Cx" or (isinstance(o, complex) and COMPLEX_LIFT[0] is not None)


def _ex(v):
    if isinstance(v, Ex):
        return v
    if isinstance(v, bool):
        return Ex("const", Fraction(int(v)))
    if isinstance(v, int):
        return Ex("const", Fraction(v))
    if isinstance(v, float):
        return Ex("const", Fraction(v).limit_denominator(10**9) if v == v else None)
    if isinstance(v, Fraction):
        return Ex("const", v)
    if isinstance(v, complex):
        raise NotScalar("complex literal in a real-scalar run")
    raise NotScalar(f"cannot lift {type(v).__name__}")


class Ex:
    __slots__ = ["op", "a"]
    __array_priority__ = 1000
    shape = ()
    ndim = 0
    dtype = "float64"

    def __init__(self, op, *a):
        self.op, self.a = op, a

    # arithmetic ------------------------------------------------------------
    def _defer(self, o, name):
        L = COMPLEX_LIFT[0]
        if L is None:
            return NotImplemented
        return getattr(L(self), name)(L(o))

    def __add__(self, o): return self._defer(o, "__add__") if _foreign(o) else Ex("+", self, _ex(o))
    def __radd__(self, o): return self._defer(o, "__radd__") if _foreign(o) else Ex("+", _ex(o), self)
    def __sub__(self, o): return self._defer(o, "__sub__") if _foreign(o) else Ex("+", self, Ex("neg", _ex(o)))
    def __rsub__(self, o): return self._defer(o, "__rsub__") if _foreign(o) else Ex("+", _ex(o), Ex("neg", self))
    def __mul__(self, o): return self._defer(o, "__mul__") if _foreign(o) else Ex("*", self, _ex(o))
    def __rmul__(self, o): return self._defer(o, "__rmul__") if _foreign(o) else Ex("*", _ex(o), self)
    def __truediv__(self, o): return self._defer(o, "__truediv__") if _foreign(o) else Ex("/", self, _ex(o))
    def __rtruediv__(self, o): return self._defer(o, "__rtruediv__") if _foreign(o) else Ex("/", _ex(o), self)
    def __neg__(self): return Ex("neg", self)
    def __pos__(self): return self
    def __pow__(self, o): return Ex("pow", self, _ex(o))
    def __rpow__(self, o): return Ex("pow", _ex(o), self)
    def __eq__(self, o): return Ex("eq", self, _ex(o))
    def __ne__(self, o): return Ex("ne", self, _ex(o))
    def __lt__(self, o): return Ex("lt", self, _ex(o))
    def __le__(self, o): return Ex("le", self, _ex(o))
    def __gt__(self, o): return Ex("lt", _ex(o), self)
    def __ge__(self, o): return Ex("le", _ex(o), self)
    def __and__(self, o): return Ex("and", self, _ex(o))          # element-wise & of two conditions
    __rand__ = __and__
    def __or__(self, o): return Ex("or", self, _ex(o))
    __ror__ = __or__
    def __invert__(self): return Ex("not", self)
    __hash__ = object.__hash__

    def __bool__(self):
        raise NotScalar("rule body branches on a symbolic value")

    def __repr__(self):
        if self.op == "const":
            return str(self.a[0])
        if self.op == "var":
            return self.a[0]
        if self.op == "fn":
            return f"{self.a[0]}({self.a[1]!r})"
        return f"{self.op}({', '.join(map(repr, self.a))})"

    def conj(self):
        return self

    @property
    def real(self):
        return self

    @property
    def T(self):
        return self


def var(n): return Ex("var", n)
def const(v): return _ex(v)
def fn(name, *a): return Ex("fn", name, *[_ex(x) for x in a])
PI = Ex("pi")
def where(c, a, b): return Ex("where", _ex(c), _ex(a), _ex(b))


# ---- derived functions in terms of the basis (textbook definitions) -----------------------------------------------
def exp(u): return fn("exp", u)
def log(u): return fn("log", u)
def sin(u): return fn("sin", u)
def cos(u): return fn("cos", u)
def sqrt(u): return fn("sqrt", u)
def floor(u): return fn("floor", u)
def sign(u): return fn("sign", u)
def absf(u): return fn("abs", u)
def sinh(u): return (exp(u) - exp(-_ex(u))) / 2
def cosh(u): return (exp(u) + exp(-_ex(u))) / 2
def tan(u): return sin(u) / cos(u)
def tanh(u): return sinh(u) / cosh(u)


SPEC = {
    # name: (nargs, f(*vars) -> Ex, domain(*vars) -> list of Ex conditions (truthy), differentiable argnums)
    "negative": (1, lambda x: -x, lambda x: []),
    "reciprocal": (1, lambda x: 1 / x, lambda x: [x != 0]),
    "exp": (1, lambda x: exp(x), lambda x: []),
    "exp2": (1, lambda x: exp(x * log(2)), lambda x: []),
    "expm1": (1, lambda x: exp(x) - 1, lambda x: []),
    "log": (1, lambda x: log(x), lambda x: [x > 0]),
    "log2": (1, lambda x: log(x) / log(2), lambda x: [x > 0]),
    "log10": (1, lambda x: log(x) / log(10), lambda x: [x > 0]),
    "log1p": (1, lambda x: log(1 + x), lambda x: [x > -1]),
    "sin": (1, lambda x: sin(x), lambda x: []),
    "cos": (1, lambda x: cos(x), lambda x: []),
    "tan": (1, lambda x: tan(x), lambda x: [cos(x) != 0]),
    "arcsin": (1, lambda x: fn("asin", x), lambda x: [x > -1, x < 1]),
    "arccos": (1, lambda x: fn("acos", x), lambda x: [x > -1, x < 1]),
    "arctan": (1, lambda x: fn("atan", x), lambda x: []),
    "sinh": (1, lambda x: sinh(x), lambda x: []),
    "cosh": (1, lambda x: cosh(x), lambda x: []),
    "tanh": (1, lambda x: tanh(x), lambda x: []),
    "arcsinh": (1, lambda x: log(x + sqrt(x * x + 1)), lambda x: []),
    "arccosh": (1, lambda x: log(x + sqrt(x * x - 1)), lambda x: [x > 1]),
    "arctanh": (1, lambda x: log((1 + x) / (1 - x)) / 2, lambda x: [x > -1, x < 1]),
    "rad2deg": (1, lambda x: x * 180 / PI, lambda x: []),
    "degrees": (1, lambda x: x * 180 / PI, lambda x: []),
    "deg2rad": (1, lambda x: x * PI / 180, lambda x: []),
    "radians": (1, lambda x: x * PI / 180, lambda x: []),
    "square": (1, lambda x: x * x, lambda x: []),
    "sqrt": (1, lambda x: sqrt(x), lambda x: [x > 0]),
    "sinc": (1, lambda x: sin(PI * x) / (PI * x), lambda x: [x != 0]),
    "abs": (1, lambda x: absf(x), lambda x: [x != 0]),
    "absolute": (1, lambda x: absf(x), lambda x: [x != 0]),
    "fabs": (1, lambda x: absf(x), lambda x: [x != 0]),
    "real": (1, lambda x: x, lambda x: []),
    "real_if_close": (1, lambda x: x, lambda x: []),
    "conj": (1, lambda x: x, lambda x: []),
    "conjugate": (1, lambda x: x, lambda x: []),
    "nan_to_num": (1, lambda x: x, lambda x: []),
    "add": (2, lambda x, y: x + y, lambda x, y: []),
    "subtract": (2, lambda x, y: x - y, lambda x, y: []),
    "multiply": (2, lambda x, y: x * y, lambda x, y: []),
    "divide": (2, lambda x, y: x / y, lambda x, y: [y != 0]),
    "true_divide": (2, lambda x, y: x / y, lambda x, y: [y != 0]),
    "maximum": (2, lambda x, y: where(x >= y, x, y), lambda x, y: [x != y]),
    "minimum": (2, lambda x, y: where(x <= y, x, y), lambda x, y: [x != y]),
    "fmax": (2, lambda x, y: where(x >= y, x, y), lambda x, y: [x != y]),
    "fmin": (2, lambda x, y: where(x <= y, x, y), lambda x, y: [x != y]),
    "logaddexp": (2, lambda x, y: log(exp(x) + exp(y)), lambda x, y: []),
    "logaddexp2": (2, lambda x, y: log(exp(x * log(2)) + exp(y * log(2))) / log(2), lambda x, y: []),
    "mod": (2, lambda x, y: x - y * floor(x / y), lambda x, y: [y != 0, x / y != floor(x / y)]),
    "remainder": (2, lambda x, y: x - y * floor(x / y), lambda x, y: [y != 0, x / y != floor(x / y)]),
    "power": (2, lambda x, y: exp(y * log(x)), lambda x, y: [x > 0]),
    "arctan2": (2, lambda x, y: fn("atan2", x, y), lambda x, y: [x * x + y * y > 0]),
    "hypot": (2, lambda x, y: sqrt(x * x + y * y), lambda x, y: [x * x + y * y > 0]),
    "clip": (3, lambda x, lo, hi: where(x < lo, lo, where(x > hi, hi, x)), lambda x, lo, hi: [lo < hi, x != lo, x != hi]),
    "where": (3, lambda c, x, y: where(c, x, y), lambda c, x, y: []),
}
SPEC_ARGNUMS = {"clip": (0,), "where": (1, 2)}


# ---- differentiation ---------------------------------------------------------------------------------------------
def D(e, v):
    op = e.op
    if op in ("const", "pi"):
        return const(0)
    if op == "var":
        return const(1 if e.a[0] == v else 0)
    if op == "+":
        return D(e.a[0], v) + D(e.a[1], v)
    if op == "neg":
        return -D(e.a[0], v)
    if op == "*":
        return D(e.a[0], v) * e.a[1] + e.a[0] * D(e.a[1], v)
    if op == "/":
        return (D(e.a[0], v) * e.a[1] - e.a[0] * D(e.a[1], v)) / (e.a[1] * e.a[1])
    if op == "pow":
        b, p = e.a
        if p.op == "const":
            return p * Ex("pow", b, const(p.a[0] - 1)) * D(b, v)
        return D(exp(p * log(b)), v)
    if op == "where":
        return where(e.a[0], D(e.a[1], v), D(e.a[2], v))
    if op in ("eq", "ne", "lt", "le", "and", "or", "not"):
        return const(0)
    if op == "fn":
        name, u = e.a[0], e.a[1]
        du = D(u, v)
        if name == "exp": return e * du
        if name == "log": return du / u
        if name == "sin": return cos(u) * du
        if name == "cos": return -sin(u) * du
        if name == "sqrt": return du / (2 * e)
        if name == "atan": return du / (1 + u * u)
        if name == "asin": return du / sqrt(1 - u * u)
        if name == "acos": return -du / sqrt(1 - u * u)
        if name in ("floor", "sign", "isfinite", "isnan", "isinf", "ceil", "rint", "trunc", "round", "fix", "signbit", "heaviside"): return const(0)   # locally constant
        if name == "abs": return sign(u) * du
        if name == "atan2":  # numpy arctan2(x1, x2) = angle of (x2, x1)
            w = e.a[2]
            return (w * du - u * D(w, v)) / (u * u + w * w)
    raise CheckerError(f"no derivative rule for {e!r}")


BASIS_TABLE = ["exp' = exp", "log' = 1/u", "sin' = cos", "cos' = -sin", "sqrt' = 1/(2 sqrt)", "atan' = 1/(1+u^2)",
               "asin' = 1/sqrt(1-u^2)", "acos' = -1/sqrt(1-u^2)", "d atan2(a,b) = (b da - a db)/(a^2+b^2)",
               "floor' = sign' = 0 away from jumps", "abs' = sign"]


# ---- translation to z3 -------------------------------------------------------------------------------------------
class Z:
    def __init__(self):
        R = z3.RealSort()
        self.F = {n: z3.Function(n.upper(), R, R) for n in ("exp", "log", "sin", "cos", "sqrt", "floor", "atan", "asin", "acos")}
        self.F["atan2"] = z3.Function("ATAN2", R, R, R)
        self.PI = z3.Real("PI")
        self.axioms = [self.PI > 3, self.PI < 4]
        self.exp_args = []
        self.log_args = []
        self.defined = []  # side conditions under which every intermediate is a finite real (no x/0, no 0**negative)
        self.seen = {}
        self.vars = {}

    def v(self, name):
        if name not in self.vars:
            self.vars[name] = z3.Real(name)
        return self.vars[name]

    def b(self, e):
        """truth value of an Ex used as a condition"""
        if e.op in ("eq", "ne", "lt", "le"):
            l, r = self.t(e.a[0]), self.t(e.a[1])
            return {"eq": l == r, "ne": l != r, "lt": l < r, "le": l <= r}[e.op]
        if e.op == "and":
            return z3.And(self.b(e.a[0]), self.b(e.a[1]))
        if e.op == "or":
            return z3.Or(self.b(e.a[0]), self.b(e.a[1]))
        if e.op == "not":
            return z3.Not(self.b(e.a[0]))
        if e.op == "fn" and e.a[0] == "isfinite":
            return z3.BoolVal(True)  # reals are finite
        return self.t(e) != 0

    def t(self, e):
        op = e.op
        if op == "const":
            if e.a[0] is None:
                raise CheckerError("NaN literal")
            return z3.RealVal(str(e.a[0]))
        if op == "pi":
            return self.PI
        if op == "var":
            return self.v(e.a[0])
        if op == "+":
            return self.t(e.a[0]) + self.t(e.a[1])
        if op == "neg":
            return -self.t(e.a[0])
        if op == "*":
            return self.t(e.a[0]) * self.t(e.a[1])
        if op == "/":
            den = self.t(e.a[1])
            self.defined.append(den != 0)
            return self.t(e.a[0]) / den
        if op in ("eq", "ne", "lt", "le", "and", "or", "not"):
            return z3.If(self.b(e), z3.RealVal(1), z3.RealVal(0))
        if op == "where":
            return z3.If(self.b(e.a[0]), self.t(e.a[1]), self.t(e.a[2]))
        if op == "pow":
            b, p = e.a
            if p.op == "neg" and p.a[0].op == "const":
                p = const(-p.a[0].a[0])
            if p.op == "const":
                q = p.a[0]
                if q.denominator == 1:
                    n = int(q)
                    bt = self.t(b)
                    if n == 0:
                        return z3.RealVal(1)
                    r = bt
                    for _ in range(abs(n) - 1):
                        r = r * bt
                    if n < 0:
                        self.defined.append(bt != 0)
                    return r if n > 0 else 1 / r
                if q.denominator == 2:
                    s = self.t(sqrt(b))
                    n = int(q * 2)
                    r = s
                    for _ in range(abs(n) - 1):
                        r = r * s
                    return r if n > 0 else 1 / r
                raise CheckerError(f"unsupported rational exponent {q}")
            bt, pt = self.t(b), self.t(p)
            if z3.is_rational_value(bt) and bt.numerator_as_long() > 0:
                return self.t(exp(p * log(b)))
            # x ** t  =  exp(t log x) for x > 0;  0 ** t = 1 (t = 0), 0 (t > 0)   [NumPy's float power]
            P0 = self.F.setdefault("pow0", z3.Function("POW0", z3.RealSort(), z3.RealSort()))
            self.axioms.append(z3.Implies(pt == 0, P0(pt) == 1))
            self.axioms.append(z3.Implies(pt > 0, P0(pt) == 0))
            self.defined.append(z3.Not(z3.And(bt == 0, pt < 0)))
            return z3.If(bt == 0, P0(pt), self.t(exp(p * log(b))))
        if op == "fn":
            name = e.a[0]
            if name == "sign":
                u = self.t(e.a[1])
                return z3.If(u > 0, z3.RealVal(1), z3.If(u < 0, z3.RealVal(-1), z3.RealVal(0)))
            if name == "abs":
                u = self.t(e.a[1])
                return z3.If(u >= 0, u, -u)
            if name == "isfinite":
                return z3.RealVal(1)
            if name == "atan2":
                return self.F["atan2"](self.t(e.a[1]), self.t(e.a[2]))
            u = self.t(e.a[1])
            f = self.F[name](u)
            key = (name, u.sexpr())
            if key not in self.seen:
                self.seen[key] = True
                if name == "exp":
                    self.axioms.append(f > 0)
                    self.exp_args.append(u)
                elif name == "log":
                    self.log_args.append(u)
                elif name in ("sin", "cos"):
                    s, c = self.F["sin"](u), self.F["cos"](u)
                    self.axioms.append(s * s + c * c == 1)
                elif name == "sqrt":
                    self.axioms.append(f >= 0)
                    self.axioms.append(f * f == u)   # under u >= 0 (domain)
            return f
        raise CheckerError(f"cannot translate {e!r}")

    def close(self, domain):
        """Instance axioms relating the exp/log atoms that occur (checked relations between their arguments)."""
        EXP, LOG = self.F["exp"], self.F["log"]
        for u in list(self.log_args):
            # EXP(LOG(u)) = u  for u > 0 ; log of a positive constant >0 handled as atom
            self.axioms.append(z3.Implies(u > 0, EXP(LOG(u)) == u))
            self.axioms.append(z3.Implies(u == 1, LOG(u) == 0))
            self.axioms.append(EXP(LOG(u)) > 0)
            self.exp_args.append(LOG(u))
        for u in self.log_args:
            if z3.is_rational_value(u) and u.numerator_as_long() > u.denominator_as_long():
                self.axioms.append(LOG(u) > 0)
        args = []
        for a in self.exp_args:
            if not any(a.eq(b) for b in args):
                args.append(a)
        hyp = list(domain) + [ax for ax in self.axioms]

        def eq(x, y):
            if z3.simplify(x - y).eq(z3.RealVal(0)):
                return True
            st, _, _, _ = check_sat(hyp + [x != y], 2000, want_model=False, use_cvc5=False)
            return st == "unsat"

        zero = z3.RealVal(0)
        for a in args:
            if eq(a, zero):
                self.axioms.append(EXP(a) == 1)
        for a, b in itertools.combinations(args, 2):
            if eq(a + b, zero):
                self.axioms.append(EXP(a) * EXP(b) == 1)
            if eq(a, b):
                self.axioms.append(EXP(a) == EXP(b))
        for a, b, c in itertools.permutations(args, 3):
            if a.get_id() < b.get_id() and eq(a + b, c):
                self.axioms.append(EXP(a) * EXP(b) == EXP(c))
        for a, b in itertools.permutations(args, 2):
            if eq(a + a, b):
                self.axioms.append(EXP(a) * EXP(a) == EXP(b))
        # LOG(EXP(a)) = a for log arguments that are exp atoms
        for u in self.log_args:
            for a in args:
                if u.eq(EXP(a)):
                    self.axioms.append(LOG(u) == a)


def identity_obligation(lhs, rhs, domain_ex, timeout_ms=20000, check_defined=False):
    """valid( domain => lhs = rhs [and every intermediate finite] )?   returns (verdict, model, backend, secs, z)."""
    z = Z()
    l, r = z.t(lhs), z.t(rhs)
    dom = [z.b(c) for c in domain_ex]
    z.close(dom)
    hyps = dom + z.axioms
    goal = z3.And([l == r] + (z.defined if check_defined else []))
    st, m, backend, secs = check_sat(hyps + [z3.Not(goal)], timeout_ms)
    verdict = {"unsat": "proved", "sat": "refuted", "unknown": "unknown"}[st]
    return verdict, m, backend, secs, z


def prove_condition(domain_ex, build, timeout_ms=20000):
    """valid( domain => build(z) )? where build gets the translator and returns a z3 Bool."""
    z = Z()
    dom = [z.b(c) for c in domain_ex]
    goal = build(z)
    goal = z3.And([goal] + z.defined)  # finite: no division by zero / 0**negative in any intermediate
    z.close(dom)
    st, m, backend, secs = check_sat(dom + z.axioms + [z3.Not(goal)], timeout_ms)
    return {"unsat": "proved", "sat": "refuted", "unknown": "unknown"}[st], m, backend, secs


def domain_satisfiable(domain_ex):
    z = Z()
    dom = [z.b(c) for c in domain_ex]
    z.close(dom)
    st, _, _, _ = check_sat(dom + z.axioms, 5000, want_model=False)
    return st != "unsat"


# ---- numeric evaluation (replay / cross-check against mpmath) ----------------------------------------------------
def evalf(e, env, mp):
    op = e.op
    if op == "const": return mp.mpf(e.a[0].numerator) / mp.mpf(e.a[0].denominator)
    if op == "pi": return mp.pi
    if op == "var": return mp.mpf(env[e.a[0]])
    if op == "+": return evalf(e.a[0], env, mp) + evalf(e.a[1], env, mp)
    if op == "neg": return -evalf(e.a[0], env, mp)
    if op == "*": return evalf(e.a[0], env, mp) * evalf(e.a[1], env, mp)
    if op == "/": return evalf(e.a[0], env, mp) / evalf(e.a[1], env, mp)
    if op == "pow": return mp.power(evalf(e.a[0], env, mp), evalf(e.a[1], env, mp))
    if op == "where": return evalf(e.a[1], env, mp) if evalf(e.a[0], env, mp) != 0 else evalf(e.a[2], env, mp)
    if op in ("eq", "ne", "lt", "le"):
        l, r = evalf(e.a[0], env, mp), evalf(e.a[1], env, mp)
        return mp.mpf(int({"eq": l == r, "ne": l != r, "lt": l < r, "le": l <= r}[op]))
    if op == "and": return mp.mpf(int(evalf(e.a[0], env, mp) != 0 and evalf(e.a[1], env, mp) != 0))
    if op == "or": return mp.mpf(int(evalf(e.a[0], env, mp) != 0 or evalf(e.a[1], env, mp) != 0))
    if op == "not": return mp.mpf(int(evalf(e.a[0], env, mp) == 0))
    if op == "fn":
        name = e.a[0]
        if name == "atan2": return mp.atan2(evalf(e.a[1], env, mp), evalf(e.a[2], env, mp))
        u = evalf(e.a[1], env, mp)
        return {"exp": mp.exp, "log": mp.log, "sin": mp.sin, "cos": mp.cos, "sqrt": mp.sqrt, "floor": mp.floor, "atan": mp.atan,
                "asin": mp.asin, "acos": mp.acos, "sign": mp.sign, "abs": abs, "isfinite": lambda q: mp.mpf(1)}[name](u)
    raise CheckerError(op)
