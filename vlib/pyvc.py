"""E1a: verification-condition generation from the REAL AST for functions with genuinely unbounded loops (DESIGN §2.1, App. A).

Subset translated (anything else => ExtractError => the obligation `<fn>:extract` fails; the proof then does not cover the code):
   x = {} | [name] | L.pop() | D.pop(k) | D.get(k) | f(...) (contract call) | name
   D[k] = e ; D[k] += c ; D[k] -= c ; L.append(e) ; L.extend(parents(e)) ; yield e ; return e
   while L: ...        if k in D: ... else: ...       if D[k] == c: ... else: ...
   for v in parents(e): ...           for a, b in zip(e.parents, seq): ...
Lists are (Array Int T, len), dicts are (Array K Bool, Array K V); integers are mathematical (true of CPython).
Loops are cut at their heads: establish / preserve-per-path / use-at-exit; invariants, ghost state and ghost updates come from the
sidecar (contracts/inv_*.py), attached to EVENTS the translator emits (pop#k, then#k, else#k, extend#k, append#k, yield#k,
setsub#k, augsub#k, for#k ...) - numbered in source order, never by line or by local names.
"""
import ast
import inspect
import textwrap

import z3

from .smt import check_sat


class ExtractError(Exception):
    pass


class St:
    """symbolic state: program variables, ghost variables, path condition"""

    def __init__(self):
        self.v = {}      # name -> ('node'|'int'|'bool', term) | ('list', arr, len) | ('dict', has, val)
        self.g = {}      # ghost name -> z3 term
        self.pc = []
        self.trace = []  # events seen on this path (for obligation names)

    def copy(self):
        s = St()
        s.v, s.g, s.pc, s.trace = dict(self.v), dict(self.g), list(self.pc), list(self.trace)
        return s


class VCGen:
    def __init__(self, fn, spec):
        self.fn = fn
        self.spec = spec
        src = textwrap.dedent(inspect.getsource(fn))
        self.tree = ast.parse(src).body[0]
        if not isinstance(self.tree, ast.FunctionDef):
            raise ExtractError("not a function")
        self.obligations = []  # (name, hyps, goal)
        self.counters = {}
        self.fresh_n = 0
        self.loop_n = 0
        self.roles = {}   # role -> program variable name; roles are assigned by initializer pattern / event ordinal, never by the name itself
        self.loop_stack = []   # ids of the loops being translated (innermost last): semantic events are keyed by the enclosing loop, not by syntax
        self.inline_depth = 0

    # ---- helpers ---------------------------------------------------------------------------------------------------
    def ev(self, kind):
        self.counters[kind] = self.counters.get(kind, 0) + 1
        return f"{kind}#{self.counters[kind]}"

    def role(self, prefix, event, name):
        self.roles[f"{prefix}{event.split('#')[1]}"] = name

    def var(self, st, role):
        """program variable bound to a role (None if not bound yet)"""
        nm = self.roles.get(role)
        return st.v.get(nm) if nm else None

    def fresh(self, base, sort):
        self.fresh_n += 1
        return z3.Const(f"{base}!{self.fresh_n}", sort)

    def hook(self, event, st, **kw):
        h = self.spec.HOOKS.get(event)
        st.trace.append(event)
        if h:
            h(self, st, **kw)

    def dstore(self, st, dname, key, present, old, new):
        """semantic event of EVERY store into a dict (`d[k] = v`, `d[k] += c`, ...): `dstore@L<innermost loop id>` (or `dstore@L0`) with the
        key, whether it was present, the old and the new value.  Sidecars attach ghost updates to it instead of to the syntactic form."""
        lid = self.loop_stack[-1] if self.loop_stack else 0
        drole = next((r for r, nm in self.roles.items() if nm == dname and r.startswith("D") and not r.startswith("DP")), "D?")
        self.hook(f"dstore@L{lid}", st, key=key, present=present, old=old, new=new, drole=drole)

    def oblige(self, name, st, goal):
        self.obligations.append((name, list(st.pc), goal))

    # ---- expressions -----------------------------------------------------------------------------------------------
    def expr(self, e, st):
        if isinstance(e, ast.Name):
            if e.id not in st.v:
                raise ExtractError(f"unknown name {e.id}")
            return st.v[e.id]
        if isinstance(e, ast.Constant) and isinstance(e.value, int) and not isinstance(e.value, bool):
            return ("int", z3.IntVal(e.value))
        if isinstance(e, ast.BinOp) and isinstance(e.op, (ast.Add, ast.Sub)):
            l, r = self._val(self.expr(e.left, st)), self._val(self.expr(e.right, st))
            if l[0] == "int" and r[0] == "int":
                return ("int", l[1] + r[1] if isinstance(e.op, ast.Add) else l[1] - r[1])
        if isinstance(e, ast.UnaryOp) and isinstance(e.op, ast.USub):
            v = self.expr(e.operand, st)
            if v[0] == "int":
                return ("int", -v[1])
        if isinstance(e, ast.Subscript) and isinstance(e.value, ast.Name) and st.v.get(e.value.id, ("",))[0] == "dict":
            k = self.expr(e.slice, st)
            _, has, val = st.v[e.value.id]
            self.oblige(f"safety:keyerror:{self.ev('getsub')}", st, z3.Select(has, k[1]))
            drole = next((r for r, nm in self.roles.items() if nm == e.value.id and r.startswith("D") and not r.startswith("DP")), None)
            return (self.spec.DICT_VAL.get(drole, "int"), z3.Select(val, k[1]))
        if isinstance(e, ast.Subscript) and isinstance(e.value, ast.Name) and st.v.get(e.value.id, ("",))[0] == "pair":
            if isinstance(e.slice, ast.Constant) and e.slice.value in (0, 1):
                return self.spec.project(st.v[e.value.id][1], e.slice.value)
        raise ExtractError(f"unsupported expression {ast.dump(e)[:80]}")

    @staticmethod
    def _val(x):
        return (x[2], x[3]) if x[0] == "opt" else x

    def cond(self, e, st):
        """returns z3 Bool for an `if`/`while` test"""
        if isinstance(e, ast.Compare) and len(e.ops) == 1 and isinstance(e.ops[0], (ast.Is, ast.IsNot)) and isinstance(e.comparators[0], ast.Constant) and e.comparators[0].value is None \
                and isinstance(e.left, ast.Name) and st.v.get(e.left.id, ("",))[0] == "opt":
            present = st.v[e.left.id][1]
            return z3.Not(present) if isinstance(e.ops[0], ast.Is) else present
        if isinstance(e, ast.UnaryOp) and isinstance(e.op, ast.Not):
            return z3.Not(self.cond(e.operand, st))
        if isinstance(e, ast.BoolOp):
            cs = [self.cond(v, st) for v in e.values]
            return z3.And(*cs) if isinstance(e.op, ast.And) else z3.Or(*cs)
        if hasattr(self.spec, "custom_cond"):
            r = self.spec.custom_cond(self, st, e)
            if r is not None:
                return r
        if isinstance(e, ast.Name) and st.v.get(e.id, ("",))[0] == "list":
            return st.v[e.id][2] > 0
        if isinstance(e, ast.Compare) and len(e.ops) == 1:
            op = e.ops[0]
            if isinstance(op, ast.In):
                k = self.expr(e.left, st)
                d = self.expr(e.comparators[0], st)
                if d[0] != "dict":
                    raise ExtractError("`in` on a non-dict")
                return z3.Select(d[1], k[1])
            l, r = self._val(self.expr(e.left, st)), self._val(self.expr(e.comparators[0], st))
            table = {ast.Eq: lambda a, b: a == b, ast.NotEq: lambda a, b: a != b, ast.Lt: lambda a, b: a < b, ast.LtE: lambda a, b: a <= b,
                     ast.Gt: lambda a, b: a > b, ast.GtE: lambda a, b: a >= b}
            if type(op) in table:
                return table[type(op)](l[1], r[1])
        raise ExtractError(f"unsupported condition {ast.dump(e)[:80]}")

    # ---- statements ------------------------------------------------------------------------------------------------
    def block(self, stmts, st):
        """executes statements; returns list of live end states (paths)"""
        states = [st]
        for s in stmts:
            nxt = []
            for cur in states:
                nxt.extend(self.stmt(s, cur))
            states = nxt
        return states

    def parents_call(self, e, st):
        """recognises `parents(x)` for the `parents` parameter (a deterministic function of the node)"""
        if isinstance(e, ast.Call) and isinstance(e.func, ast.Name) and e.func.id in self.spec.PARENTS_FUN and len(e.args) == 1:
            return self.expr(e.args[0], st)[1]
        if isinstance(e, ast.Attribute) and e.attr == "parents":
            return self.expr(e.value, st)[1]
        return None

    def stmt(self, s, st):
        S = self.spec
        if hasattr(S, "custom_stmt"):
            r = S.custom_stmt(self, st, s)   # function-specific statement forms (still read from the AST; see the sidecar)
            if r is not None:
                return r
        if isinstance(s, ast.Expr) and isinstance(s.value, ast.Constant):
            return [st]  # docstring
        if isinstance(s, ast.Pass):
            return [st]
        if isinstance(s, ast.Assign) and len(s.targets) == 1 and isinstance(s.targets[0], ast.Name):
            name, v = s.targets[0].id, s.value
            if isinstance(v, ast.Dict) and not v.keys:
                K, V = S.DICT_SORTS["*"]
                st.v[name] = ("dict", z3.K(K, z3.BoolVal(False)), self.fresh(name + "_val", z3.ArraySort(K, V)))
                e_ = self.ev("newdict")
                self.role("D", e_, name)
                self.hook(e_, st, name=name)
                return [st]
            if isinstance(v, ast.Dict) and len(v.keys) == 1:
                K, V = S.DICT_SORTS["*"]
                k = self.expr(v.keys[0], st)
                val = self.tuple_or_expr(v.values[0], st)
                st.v[name] = ("dict", z3.Store(z3.K(K, z3.BoolVal(False)), k[1], True), z3.Store(self.fresh(name + "_val", z3.ArraySort(K, V)), k[1], val))
                e_ = self.ev("newdict")
                self.role("D", e_, name)
                self.hook(e_, st, name=name)
                return [st]
            if isinstance(v, ast.List) and len(v.elts) == 1:
                x = self.expr(v.elts[0], st)
                arr = z3.Store(self.fresh(name + "_arr", z3.ArraySort(z3.IntSort(), x[1].sort())), 0, x[1])
                st.v[name] = ("list", arr, z3.IntVal(1))
                e_ = self.ev("newlist")
                self.role("L", e_, name)
                self.hook(e_, st, name=name)
                return [st]
            if isinstance(v, ast.Call) and isinstance(v.func, ast.Attribute) and v.func.attr == "pop" and isinstance(v.func.value, ast.Name):
                c = st.v.get(v.func.value.id)
                if c and c[0] == "list" and not v.args:
                    _, arr, ln = c
                    self.oblige(f"safety:pop-from-empty:{self.ev('popsafe')}", st, ln > 0)
                    st.v[name] = (S.ELEM_KIND, z3.Select(arr, ln - 1))
                    st.v[v.func.value.id] = ("list", arr, ln - 1)
                    e_ = self.ev("pop")
                    self.role("P", e_, name)
                    self.hook(e_, st, var=name, lst=v.func.value.id)
                    return [st]
                if c and c[0] == "dict" and len(v.args) == 1:
                    k = self.expr(v.args[0], st)
                    _, has, val = c
                    self.oblige(f"safety:keyerror:{self.ev('dictpop')}", st, z3.Select(has, k[1]))
                    st.v[name] = self.unpack_val(z3.Select(val, k[1]))
                    st.v[v.func.value.id] = ("dict", z3.Store(has, k[1], False), val)
                    e_ = self.ev("dpop")
                    self.role("DP", e_, name)
                    self.hook(e_, st, var=name, key=k[1])
                    return [st]
            if isinstance(v, ast.IfExp) and isinstance(v.test, ast.Compare) and len(v.test.ops) == 1 and isinstance(v.test.ops[0], (ast.In, ast.NotIn)) \
                    and isinstance(v.test.comparators[0], ast.Name) and st.v.get(v.test.comparators[0].id, ("",))[0] == "dict":
                # x = d[k] if k in d else None   (or with `not in` and the branches swapped): the same optional value as d.get(k)
                pos, neg = (v.body, v.orelse) if isinstance(v.test.ops[0], ast.In) else (v.orelse, v.body)
                dn = v.test.comparators[0].id
                if isinstance(neg, ast.Constant) and neg.value is None and isinstance(pos, ast.Subscript) and isinstance(pos.value, ast.Name) and pos.value.id == dn \
                        and ast.dump(pos.slice) == ast.dump(v.test.left):
                    v = ast.Call(func=ast.Attribute(value=ast.Name(id=dn, ctx=ast.Load()), attr="get", ctx=ast.Load()), args=[v.test.left], keywords=[])
            if isinstance(v, ast.Call) and isinstance(v.func, ast.Attribute) and v.func.attr == "get" and isinstance(v.func.value, ast.Name) and len(v.args) == 2 \
                    and isinstance(v.args[1], ast.Constant) and v.args[1].value is None:
                v = ast.Call(func=v.func, args=[v.args[0]], keywords=[])
            if isinstance(v, ast.Call) and isinstance(v.func, ast.Attribute) and v.func.attr == "get" and isinstance(v.func.value, ast.Name) and len(v.args) == 1 \
                    and st.v.get(v.func.value.id, ("",))[0] == "dict":
                # x = d.get(k): an OPTIONAL value (present?, value); `x is None` tests the presence, arithmetic on x uses the value
                k = self.expr(v.args[0], st)
                _, has, val = st.v[v.func.value.id]
                drole = next((r for r, nm in self.roles.items() if nm == v.func.value.id and r.startswith("D") and not r.startswith("DP")), None)
                st.v[name] = ("opt", z3.Select(has, k[1]), self.spec.DICT_VAL.get(drole, "int"), z3.Select(val, k[1]), v.func.value.id, k[1])
                return [st]
            if isinstance(v, ast.Call):
                r = S.call(self, st, name, v)
                if r is not None:
                    return r
                r = self.inline_call(st, name, v)
                if r is not None:
                    return r
            if isinstance(v, (ast.Name, ast.BinOp, ast.Subscript, ast.UnaryOp, ast.Constant)):
                st.v[name] = self.expr(v, st)      # a local that merely names a value
                return [st]
            raise ExtractError(f"unsupported assignment {ast.unparse(s)[:80]}")
        if isinstance(s, ast.Assign) and len(s.targets) == 1 and isinstance(s.targets[0], ast.Tuple) and len(s.targets[0].elts) == 2 \
                and all(isinstance(e_, ast.Name) for e_ in s.targets[0].elts) and isinstance(s.value, ast.Call) and isinstance(s.value.func, ast.Attribute) and s.value.func.attr == "pop" \
                and isinstance(s.value.func.value, ast.Name) and st.v.get(s.value.func.value.id, ("",))[0] == "dict" and len(s.value.args) == 1:
            # a, b = d.pop(k): the popped pair gets the synthetic name $popped (role DP1), a and b name its components
            outs = self.stmt(ast.Assign(targets=[ast.Name(id="$popped", ctx=ast.Store())], value=s.value), st)
            for e_ in outs:
                if e_.v.get("$popped", ("",))[0] != "pair":
                    raise ExtractError("tuple unpacking of a dict value that is not a pair")
                for i_, tg in enumerate(s.targets[0].elts):
                    e_.v[tg.id] = self.spec.project(e_.v["$popped"][1], i_)
            return outs
        if isinstance(s, ast.Assign) and len(s.targets) == 1 and isinstance(s.targets[0], ast.Subscript):
            t = s.targets[0]
            if isinstance(t.value, ast.Name) and st.v.get(t.value.id, ("",))[0] == "dict":
                k = self.expr(t.slice, st)
                _, has, val = st.v[t.value.id]
                if isinstance(s.value, ast.Call):
                    e = self.ev("setsub")
                    S.setsub_call(self, st, t.value.id, k[1], s.value, e)
                    return [st]
                x = self._val(self.expr(s.value, st))
                present, old = z3.Select(has, k[1]), z3.Select(val, k[1])
                st.v[t.value.id] = ("dict", z3.Store(has, k[1], True), z3.Store(val, k[1], x[1]))
                self.hook(self.ev("setsub"), st, key=k[1])
                self.dstore(st, t.value.id, k[1], present, old, x[1])
                return [st]
        if isinstance(s, ast.AugAssign) and isinstance(s.target, ast.Subscript) and isinstance(s.target.value, ast.Name):
            t = s.target
            if st.v.get(t.value.id, ("",))[0] == "dict" and isinstance(s.op, (ast.Add, ast.Sub)):
                k = self.expr(t.slice, st)
                x = self.expr(s.value, st)
                _, has, val = st.v[t.value.id]
                self.oblige(f"safety:keyerror:{self.ev('augsafe')}", st, z3.Select(has, k[1]))
                old = z3.Select(val, k[1])
                new = old + x[1] if isinstance(s.op, ast.Add) else old - x[1]
                st.v[t.value.id] = ("dict", has, z3.Store(val, k[1], new))
                self.hook(self.ev("augsub"), st, key=k[1], old=old)
                self.dstore(st, t.value.id, k[1], z3.BoolVal(True), old, new)
                return [st]
        if isinstance(s, ast.Expr) and isinstance(s.value, ast.Call) and isinstance(s.value.func, ast.Attribute) and isinstance(s.value.func.value, ast.Name):
            f, lname = s.value.func, s.value.func.value.id
            c = st.v.get(lname)
            if c and c[0] == "list" and f.attr == "append" and len(s.value.args) == 1:
                x = self.expr(s.value.args[0], st)
                _, arr, ln = c
                st.v[lname] = ("list", z3.Store(arr, ln, x[1]), ln + 1)
                self.hook(self.ev("append"), st, lst=lname, elem=x[1], at=ln)
                return [st]
            if c and c[0] == "list" and f.attr == "extend" and len(s.value.args) == 1:
                src = self.parents_call(s.value.args[0], st)
                if src is not None:
                    _, arr, ln = c
                    n = S.npar(src)
                    new = self.fresh(lname + "_arr", arr.sort())
                    k = z3.Int("k!ext")
                    st.pc.append(z3.ForAll([k], z3.Select(new, k) == z3.If(z3.And(k >= ln, k < ln + n), S.par(src, k - ln), z3.Select(arr, k))))
                    st.v[lname] = ("list", new, ln + n)
                    self.hook(self.ev("extend"), st, lst=lname, src=src, base=ln)
                    return [st]
        if isinstance(s, ast.Expr) and isinstance(s.value, ast.Yield):
            x = self.expr(s.value.value, st)
            out, ln = st.g["OUT"], st.g["OUTLEN"]
            st.g["OUT"], st.g["OUTLEN"] = z3.Store(out, ln, x[1]), ln + 1
            self.hook(self.ev("yield"), st, elem=x[1], at=ln)
            return [st]
        if isinstance(s, ast.If):
            c = self.cond(s.test, st)
            n = self.ev("if")
            a, b = st, st.copy()
            a.pc.append(c)
            b.pc.append(z3.Not(c))
            self.hook(n.replace("if", "then"), a)
            self.hook(n.replace("if", "else"), b)
            return self.block(s.body, a) + self.block(s.orelse, b)
        if isinstance(s, ast.While):
            return self.loop(s, st, kind="while")
        if isinstance(s, ast.For):
            return self.loop(s, st, kind="for")
        if isinstance(s, ast.Return):
            r = self.spec.ret(self, st, s.value) if hasattr(self.spec, "ret") else self.tuple_or_expr_kind(s.value, st)
            st.v["$ret"] = r
            self.hook(self.ev("return"), st)
            for name, goal in self.spec.post(self, st):
                self.oblige(f"ensures:{name}", st, goal)
            return []
        if isinstance(s, ast.Continue) and getattr(self, "_cont", None):
            self._cont[-1].append(st)       # joins the end-of-body states of the innermost loop (invariant re-established there)
            return []
        if isinstance(s, ast.Break) and getattr(self, "_brk", None):
            self._brk[-1].append(st)        # leaves the innermost loop WITHOUT the negated loop condition
            return []
        if isinstance(s, ast.Pass):
            return [st]
        raise ExtractError(f"unsupported statement {ast.unparse(s)[:80]}")

    def inline_call(self, st, target, call):
        """`x = helper(a, b)` where helper is a plain function of the SAME module: its body is translated in place (parameters bound to the argument
        values, locals renamed, the single trailing `return <name or expr>` bound to the target), so that extracting part of a function into a private
        helper does not change the verification conditions."""
        if not isinstance(call.func, ast.Name) or call.keywords or self.inline_depth >= 2:
            return None
        import types
        callee = self.fn.__globals__.get(call.func.id)
        if not isinstance(callee, types.FunctionType) or callee.__module__ != self.fn.__module__ or callee is self.fn:
            return None
        try:
            htree = ast.parse(textwrap.dedent(inspect.getsource(callee))).body[0]
        except (OSError, TypeError, IndexError):
            return None
        params = [a.arg for a in htree.args.args]
        if htree.args.vararg or htree.args.kwarg or len(params) != len(call.args) or not htree.body:
            return None
        body = [b for b in htree.body if not (isinstance(b, ast.Expr) and isinstance(b.value, ast.Constant))]
        if not body or not isinstance(body[-1], ast.Return) or any(isinstance(n, (ast.Return, ast.Yield, ast.YieldFrom)) for b in body[:-1] for n in ast.walk(b)):
            return None
        pre = f"h{self.inline_depth + 1}${call.func.id}$"
        locs = set(params) | {n.id for b in body for n in ast.walk(b) if isinstance(n, ast.Name) and isinstance(n.ctx, ast.Store)}

        class Ren(ast.NodeTransformer):
            def visit_Name(self_, n):
                return ast.copy_location(ast.Name(id=pre + n.id, ctx=n.ctx), n) if n.id in locs else n
        body = [Ren().visit(b) for b in body]
        ast.fix_missing_locations(ast.Module(body=body, type_ignores=[]))
        for pname, a in zip(params, call.args):
            st.v[pre + pname] = self.expr(a, st) if not (isinstance(a, ast.Name) and a.id in getattr(self.spec, "PARENTS_FUN", ())) else ("fun", None)
            if isinstance(a, ast.Name) and a.id in getattr(self.spec, "PARENTS_FUN", ()) and (pre + pname) not in self.spec.PARENTS_FUN:
                if isinstance(self.spec.PARENTS_FUN, set):
                    self.spec.PARENTS_FUN.add(pre + pname)
                else:
                    self.spec.PARENTS_FUN = tuple(self.spec.PARENTS_FUN) + (pre + pname,)
        self.inline_depth += 1
        try:
            states = self.block(body[:-1], st)
        finally:
            self.inline_depth -= 1
        out = []
        for e in states:
            rv = body[-1].value
            e.v[target] = e.v[rv.id] if isinstance(rv, ast.Name) and rv.id in e.v else self.expr(rv, e)
            # the target takes over the roles of the returned local (e.g. D1 for the dict that was built in the helper)
            if isinstance(rv, ast.Name):
                for r_, nm in list(self.roles.items()):
                    if nm == rv.id:
                        self.roles[r_] = target
            out.append(e)
        return out

    def tuple_or_expr(self, e, st):
        return self.spec.pack(self, st, e)

    def tuple_or_expr_kind(self, e, st):
        return self.expr(e, st)

    def unpack_val(self, term):
        return self.spec.unpack(term)

    # ---- loops -----------------------------------------------------------------------------------------------------
    def modified(self, body):
        names = set()
        for n in ast.walk(ast.Module(body=body, type_ignores=[])):
            if isinstance(n, ast.Name) and isinstance(n.ctx, ast.Store):
                names.add(n.id)
            if isinstance(n, (ast.Assign, ast.AugAssign)):
                ts = n.targets if isinstance(n, ast.Assign) else [n.target]
                for t in ts:
                    if isinstance(t, ast.Subscript) and isinstance(t.value, ast.Name):
                        names.add(t.value.id)
            if isinstance(n, ast.Call) and isinstance(n.func, ast.Attribute) and isinstance(n.func.value, ast.Name) and n.func.attr in ("pop", "append", "extend"):
                names.add(n.func.value.id)
        return names

    def havoc(self, st, names, ghosts, tag):
        for nm in sorted(names):
            if nm not in st.v:
                continue
            v = st.v[nm]
            if v[0] == "list":
                st.v[nm] = ("list", self.fresh(nm + "_arr", v[1].sort()), self.fresh(nm + "_len", z3.IntSort()))
            elif v[0] == "dict":
                st.v[nm] = ("dict", self.fresh(nm + "_has", v[1].sort()), self.fresh(nm + "_val", v[2].sort()))
            elif v[0] == "tuple2":
                st.v[nm] = ("tuple2", (v[1][0], self.fresh(nm + "_0", v[1][1].sort())), (v[2][0], self.fresh(nm + "_1", v[2][1].sort())))
            else:
                st.v[nm] = (v[0], self.fresh(nm, v[1].sort()))
        for g in ghosts:
            st.g[g] = self.fresh(g, st.g[g].sort())

    def loop(self, s, st, kind):
        self.loop_n += 1
        lid = self.loop_n
        spec = self.spec.LOOPS.get(lid)
        if spec is None:
            raise ExtractError(f"loop {lid} has no invariant in the sidecar")
        mod = self.modified(s.body) | (self.modified([ast.Assign(targets=[s.target], value=ast.Constant(0))]) if kind == "for" else set())
        ghosts = spec["ghost_modified"]
        if kind == "for":
            self.roles[f"IT{lid}"] = [n_.id for n_ in ast.walk(s.target) if isinstance(n_, ast.Name)]
            self.spec.for_init(self, st, lid, s)
        self.hook(f"loophead#{lid}", st)
        for name, goal in spec["invariant"](self, st):
            self.oblige(f"establish:loop{lid}:{name}", st, goal)
        # arbitrary iteration
        h = st.copy()
        h.pc = list(self.spec.AXIOMS)  # everything else must come from the invariant (loop cut)
        self.havoc(h, mod, ghosts, f"l{lid}")
        if kind == "for":
            self.spec.for_havoc(self, h, lid, s)
        inv = spec["invariant"](self, h)
        h.pc += [g for _, g in inv]
        h.trace = [f"loop{lid}"]
        body, exit_ = h.copy(), h.copy()
        c = self.cond(s.test, body) if kind == "while" else self.spec.for_cond(self, body, lid, s)
        body.pc.append(c)
        exit_.pc.append(z3.Not(self.cond(s.test, exit_) if kind == "while" else self.spec.for_cond(self, exit_, lid, s)))
        if kind == "for":
            self.spec.for_bind(self, body, lid, s)
        if not hasattr(self, "_cont"):
            self._cont, self._brk = [], []
        self._cont.append([])
        self._brk.append([])
        self.loop_stack.append(lid)
        try:
            ends = self.block(s.body, body)
        finally:
            self.loop_stack.pop()
        ends = ends + self._cont.pop()
        broken = self._brk.pop()
        for e in ends:
            if kind == "for":
                self.spec.for_step(self, e, lid, s)
            path = ">".join(t for t in e.trace if not t.startswith("loop"))
            for name, goal in spec["invariant"](self, e):
                self.oblige(f"preserve:loop{lid}:[{path}]:{name}", e, goal)
        self.hook(f"loopexit#{lid}", exit_)
        for name, goal in spec.get("at_exit", lambda g, s_: [])(self, exit_):
            self.oblige(f"exit:loop{lid}:{name}", exit_, goal)
        return [exit_] + broken

    # ---- driver ----------------------------------------------------------------------------------------------------
    def run(self):
        st = St()
        self.spec.init(self, st, self.tree)
        st.pc = list(self.spec.AXIOMS)
        ends = self.block(self.tree.body, st)
        for e in ends:  # falling off the end
            for name, goal in self.spec.post(self, e):
                self.oblige(f"ensures:{name}", e, goal)
        return self.obligations


def discharge(obligations, timeout_ms=20000, both=False):
    out = []
    for name, hyps, goal in obligations:
        st, m, backend, secs = check_sat(hyps + [z3.Not(goal)], timeout_ms, want_model=False, both=both)
        out.append((name, st == "unsat", backend, secs, st))
    return out
