"""E4: bounded exact runs of the REAL, unmodified autograd code on NumPy object arrays whose entries are exact elements of
the fraction field QQ(x.., g.., v.., c..)  (sympy).  One run at one shape decides a contract for ALL real values at that
shape (exact, canonical arithmetic).  This is the bounded stand-in of DESIGN §2.2: never counted as proved.
"""
import itertools
from fractions import Fraction

import numpy as onp
from sympy import QQ, field

NX, NG = 40, 40
_names = [f"x{i}" for i in range(NX)] + [f"g{i}" for i in range(NG)] + [f"v{i}" for i in range(NX)] + [f"c{i}" for i in range(8)]
_F = field(_names, QQ)
K = _F[0]
GENS = dict(zip(_names, _F[1:]))


def _lift(o):
    if isinstance(o, Sym):
        return o.e
    if isinstance(o, (bool, onp.bool_)):
        return K(int(o))
    if isinstance(o, (int, onp.integer)):
        return K(int(o))
    if isinstance(o, (float, onp.floating)):
        f = Fraction(float(o))
        return K(QQ(f.numerator, f.denominator))
    if isinstance(o, Fraction):
        return K(QQ(o.numerator, o.denominator))
    return None


class SymLimit(TypeError):
    """The exact engine cannot represent this operation (order/truth/float of a symbolic entry)."""


class Sym:
    """Exact scalar: an element of QQ(x..,g..,v..,c..).  Looks like a 0-d object-dtype value to autograd."""

    __slots__ = ["e"]
    dtype = onp.dtype(object)
    shape = ()
    ndim = 0
    size = 1

    def __init__(self, e):
        self.e = e

    def _b(self, o, f):
        l = _lift(o)
        if l is None:
            return NotImplemented
        return Sym(f(self.e, l))

    def __add__(self, o): return self._b(o, lambda a, b: a + b)
    def __radd__(self, o): return self._b(o, lambda a, b: b + a)
    def __sub__(self, o): return self._b(o, lambda a, b: a - b)
    def __rsub__(self, o): return self._b(o, lambda a, b: b - a)
    def __mul__(self, o): return self._b(o, lambda a, b: a * b)
    def __rmul__(self, o): return self._b(o, lambda a, b: b * a)
    def __truediv__(self, o): return self._b(o, lambda a, b: a / b)
    def __rtruediv__(self, o): return self._b(o, lambda a, b: b / a)
    def __neg__(self): return Sym(-self.e)
    def __pos__(self): return self

    def __pow__(self, o):
        if isinstance(o, Sym):
            o = o.const()
        if isinstance(o, (float, onp.floating)) and float(o) == int(o):
            o = int(o)
        if isinstance(o, (int, onp.integer)):
            return Sym(self.e ** int(o))
        return NotImplemented

    def const(self):
        """the rational value if this element is a constant, else raises"""
        c = self.e
        num, den = c.numer, c.denom
        if num.is_ground and den.is_ground:
            return Fraction(int(QQ.numer(num.coeff(1))), int(QQ.denom(num.coeff(1)))) / Fraction(int(QQ.numer(den.coeff(1))), int(QQ.denom(den.coeff(1)))) if num != 0 else Fraction(0)
        raise SymLimit("order/truth/float of a symbolic (non-constant) entry is undefined")

    def _cmp(self, o, f):
        if isinstance(o, (onp.ndarray,)):
            return NotImplemented
        l = _lift(o)
        if l is None:
            return NotImplemented
        return f(self.const(), Sym(l).const())

    def __eq__(self, o):
        l = _lift(o)
        if l is None:
            return NotImplemented
        return self.e == l

    def __ne__(self, o):
        l = _lift(o)
        if l is None:
            return NotImplemented
        return self.e != l

    def __lt__(self, o): return self._cmp(o, lambda a, b: a < b)
    def __le__(self, o): return self._cmp(o, lambda a, b: a <= b)
    def __gt__(self, o): return self._cmp(o, lambda a, b: a > b)
    def __ge__(self, o): return self._cmp(o, lambda a, b: a >= b)
    def __hash__(self): return hash(self.e)
    def __bool__(self): return self.e != 0
    def __abs__(self): return self if self.const() >= 0 else -self
    def conjugate(self): return self
    conj = conjugate
    real = property(lambda s: s)
    imag = property(lambda s: Sym(K(0)))
    def __float__(self): return float(self.const())
    def __repr__(self): return f"<{self.e}>"
    def diff(self, name): return Sym(self.e.diff(GENS[name]))
    def astype(self, dt): return self
    def sqrt(self):
        raise SymLimit("sqrt of a symbolic entry: outside the exact rational engine")


_registered = []


def register():
    """Registers Sym through the PUBLIC extension API of the current autograd (idempotent per autograd instance)."""
    from autograd.numpy.numpy_boxes import ArrayBox
    from autograd.numpy.numpy_vspaces import ArrayVSpace
    if ArrayBox not in _registered:
        ArrayVSpace.register(Sym)
        ArrayBox.register(Sym)
        _registered.append(ArrayBox)


def sym(name):
    return Sym(GENS[name])


def symarray(prefix, shape, start=0):
    n = int(onp.prod(shape)) if shape != () else 1
    flat = [sym(f"{prefix}{start + i}") for i in range(n)]
    a = onp.empty(n, dtype=object)
    for i, s in enumerate(flat):
        a[i] = s
    return a.reshape(shape) if shape != () else flat[0], n


def constarray(values, shape):
    a = onp.empty(len(values), dtype=object)
    for i, v in enumerate(values):
        a[i] = Sym(_lift(Fraction(v)))
    return a.reshape(shape) if shape != () else a[0]


def entries(a):
    """flat list of Sym entries of an object array / Sym / number (C order)."""
    if isinstance(a, Sym):
        return [a]
    a = onp.asarray(a)
    out = []
    for v in a.ravel().tolist() if a.dtype != object else a.ravel():
        out.append(v if isinstance(v, Sym) else Sym(_lift(v) if _lift(v) is not None else _fail(v)))
    return out


def _fail(v):
    raise SymLimit(f"non-exact entry of type {type(v).__name__}")


def shape_of(a):
    return () if isinstance(a, Sym) else onp.shape(a)


def jacobian_exact(out, xnames):
    """J[o][i] = d out_o / d x_i as field elements."""
    return [[o.diff(n) for n in xnames] for o in entries(out)]


def eqsym(a, b):
    return _lift(a) == _lift(b)
