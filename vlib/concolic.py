"""E1b: concolic execution of the REAL function objects of /repo on CPython over symbolic leaves.

Leaves are SInt / SBool (wrapping z3 terms).  A Python-level branch on a symbolic value goes
through SBool.__bool__ -> decide(), which forks the path (decision log + re-execution).  Everything
else (objects, tuples, dicts, generators, context managers, exceptions) is CPython itself.
"""
import itertools
import time

import z3

from .common import CheckerError
from .smt import check_sat, model_value, prove


class Infeasible(Exception):
    pass


class Ctx:
    def __init__(self, prefix):
        self.prefix = list(prefix)
        self.log = []
        self.pc = []
        self.pending = []
        self.solver_secs = 0.0
        self.model = None  # concrete mode: a z3 model; leaves are then plain ints

    def sat(self, extra):
        st, _, _, secs = check_sat(self.pc + [extra], 10000, want_model=False, use_cvc5=False)
        self.solver_secs += secs
        if st == "unknown":
            raise CheckerError("path feasibility undecided")
        return st == "sat"


_cur = None


def cur():
    if _cur is None:
        raise CheckerError("symbolic value used outside explore()")
    return _cur


def decide(cond):
    c = cur()
    cond = z3.simplify(cond)
    i = len(c.log)
    if i < len(c.prefix):
        val = c.prefix[i]
    elif z3.is_true(cond):
        val = True
    elif z3.is_false(cond):
        val = False
    else:
        can_t = c.sat(cond)
        can_f = c.sat(z3.Not(cond))
        if can_t and can_f:
            val = True
            c.pending.append(c.log + [False])
        elif can_t:
            val = True
        elif can_f:
            val = False
        else:
            raise Infeasible()
    c.log.append(val)
    c.pc.append(cond if val else z3.Not(cond))
    return val


def assume(cond):
    """Adds a precondition to the path condition (SBool or z3 term or python bool)."""
    t = _b(cond)
    cur().pc.append(t)


def _b(x):
    if isinstance(x, SBool):
        return x.t
    if isinstance(x, bool):
        return z3.BoolVal(x)
    if z3.is_bool(x):
        return x
    raise CheckerError(f"not a boolean: {x!r}")


def _i(x):
    if isinstance(x, SInt):
        return x.t
    if isinstance(x, bool):
        return z3.IntVal(int(x))
    if isinstance(x, int):
        return z3.IntVal(x)
    if hasattr(x, "__index__") and not isinstance(x, (SInt, float)) and type(x).__module__ == "numpy":
        return z3.IntVal(int(x))
    if z3.is_int(x):
        return x
    return None


class SBool:
    __slots__ = ["t"]

    def __init__(self, t):
        self.t = t

    def __bool__(self):
        return decide(self.t)

    def __and__(self, o):
        return SBool(z3.And(self.t, _b(o)))

    __rand__ = __and__

    def __or__(self, o):
        return SBool(z3.Or(self.t, _b(o)))

    __ror__ = __or__

    def __invert__(self):
        return SBool(z3.Not(self.t))

    def __repr__(self):
        return f"SBool({self.t})"


class SVal:
    """An untracked real VALUE (a symbolic size multiplied into a float): arithmetic keeps it opaque, any comparison or conversion is a checker error."""

    def _op(self, o=None):
        return SVal()
    __add__ = __radd__ = __sub__ = __rsub__ = __mul__ = __rmul__ = __truediv__ = __rtruediv__ = __pow__ = __rpow__ = _op
    __neg__ = lambda self: SVal()

    def _no(self, *a):
        raise CheckerError("an untracked real value is compared / converted (outside the shape abstraction)")
    __bool__ = __lt__ = __le__ = __gt__ = __ge__ = __int__ = __float__ = __index__ = _no


class SInt:
    """A symbolic mathematical integer (CPython ints are unbounded, so this is exact)."""

    __slots__ = ["t"]

    def __init__(self, t):
        self.t = t if not isinstance(t, str) else z3.Int(t)

    def _bin(self, o, f):
        if isinstance(o, (float, SVal)) and not isinstance(o, bool):
            return SVal()       # e.g. the normalisation constant N = 1.0 * n1 * n2: a value, not a size
        oi = _i(o)
        if oi is None:
            return NotImplemented
        return SInt(z3.simplify(f(self.t, oi)))

    def _cmp(self, o, f):
        oi = _i(o)
        if oi is None:
            return NotImplemented
        return SBool(f(self.t, oi))

    def __add__(self, o):
        return self._bin(o, lambda a, b: a + b)

    __radd__ = __add__

    def __sub__(self, o):
        return self._bin(o, lambda a, b: a - b)

    def __rsub__(self, o):
        return self._bin(o, lambda a, b: b - a)

    def __mul__(self, o):
        return self._bin(o, lambda a, b: a * b)

    __rmul__ = __mul__

    def __floordiv__(self, o):
        oi = _i(o)
        if oi is None or not (z3.is_int_value(oi) and oi.as_long() > 0):
            return NotImplemented
        return SInt(z3.simplify(self.t / oi))     # z3 integer division by a positive constant is floor division

    def __mod__(self, o):
        oi = _i(o)
        if oi is None or not (z3.is_int_value(oi) and oi.as_long() > 0):
            return NotImplemented
        return SInt(z3.simplify(self.t % oi))

    def __neg__(self):
        return SInt(-self.t)

    def __lt__(self, o):
        return self._cmp(o, lambda a, b: a < b)

    def __le__(self, o):
        return self._cmp(o, lambda a, b: a <= b)

    def __gt__(self, o):
        return self._cmp(o, lambda a, b: a > b)

    def __ge__(self, o):
        return self._cmp(o, lambda a, b: a >= b)

    def __eq__(self, o):
        oi = _i(o)
        if oi is None:
            return False
        return SBool(self.t == oi)

    def __ne__(self, o):
        oi = _i(o)
        if oi is None:
            return True
        return SBool(self.t != oi)

    def __hash__(self):
        raise CheckerError("symbolic int used as a hash key (would need concretisation)")

    def __index__(self):
        raise CheckerError("symbolic int used as an index (would need concretisation)")

    def __bool__(self):
        return decide(self.t != 0)

    def __repr__(self):
        return f"SInt({self.t})"


def term(x):
    """z3 term of an int-like leaf (SInt / int)."""
    t = _i(x)
    if t is None:
        raise CheckerError(f"expected int-like, got {type(x).__name__}")
    return t


class Leaf:
    """Leaf provider: symbolic (z3 consts) or concrete (values from a model) - same harness code."""

    def __init__(self, model=None):
        self.model = model
        self.names = []

    def int(self, name):
        self.names.append(name)
        if self.model is None:
            return SInt(z3.Int(name))
        return int(model_value(self.model, z3.Int(name), 0))

    def bool(self, name):
        self.names.append(name)
        if self.model is None:
            return SBool(z3.Bool(name))
        return bool(model_value(self.model, z3.Bool(name), False))


class PathResult:
    def __init__(self, ctx, value, exc):
        self.pc = list(ctx.pc)
        self.log = list(ctx.log)
        self.value = value
        self.exc = exc


def explore(run, max_paths=20000):
    """run(leaf) executes the real code once; returns observation.  Yields PathResult per feasible path.

    `run` must be deterministic given the decision prefix."""
    global _cur
    work = [[]]
    results = []
    secs = 0.0
    while work:
        prefix = work.pop()
        ctx = Ctx(prefix)
        _cur = ctx
        try:
            try:
                v = run(Leaf())
                results.append(PathResult(ctx, v, None))
            except Infeasible:
                pass
            except CheckerError:
                raise
            except Exception as e:  # an exception of the code under test is an outcome
                results.append(PathResult(ctx, None, e))
        finally:
            _cur = None
        secs += ctx.solver_secs
        work.extend(ctx.pending)
        if len(results) > max_paths:
            raise CheckerError("path explosion")
    return results, secs


def run_concrete(run, model):
    """Re-runs the same harness natively on the concrete leaves of `model` (no symbolic objects)."""
    global _cur
    _cur = None
    try:
        return run(Leaf(model)), None
    except CheckerError:
        raise
    except Exception as e:
        return None, e


def evalobs(obs, model):
    """Evaluate an observation (nested tuples/lists of SInt/SBool/plain) under a model."""
    if isinstance(obs, SInt):
        return int(model_value(model, obs.t, 0))
    if isinstance(obs, SBool):
        return bool(model_value(model, obs.t, False))
    if isinstance(obs, (tuple, list)):
        return type(obs)(evalobs(o, model) for o in obs)
    if isinstance(obs, dict):
        return {k: evalobs(v, model) for k, v in obs.items()}
    return obs


def path_model(pc):
    st, m, _, _ = check_sat(pc, 10000, use_cvc5=False)
    if st != "sat":
        return None
    return m


def check_clause(rep, name, pc, goal, tier="quick", engine="E1b", sample=None):
    """Obligation: pc => goal valid.  Returns (ok, model)."""
    g = _b(goal) if not isinstance(goal, bool) else z3.BoolVal(goal)
    verdict, m, backend, secs = prove(pc, g, both=(tier == "thorough"))
    rep.obligation(name, verdict == "proved", backend, secs, engine, sample=sample, trivial=z3.is_true(z3.simplify(g)))
    return verdict, m
