"""Opaque values and stub vector space used by the E1b harnesses.

An Opaque stands for an arbitrary value of an arbitrary differentiable type: the code under contract can only pass it
around, add it through its vector space, or mutate it in place through `+=` (ghost ownership tracked).  Any attempt to
inspect it (truth value, comparison, hashing as a key of equality, iteration) raises CheckerError: the execution is then
outside the abstraction and the obligation is reported as not discharged - never as proved."""
import z3

from . import concolic as cx
from .common import CheckerError


class ForeignWrite(Exception):
    pass


class Opaque:
    def __init__(self, term, owned=False, **meta):
        self.term = term
        self.meta = meta  # ghost vspace attributes (size, iscomplex, shape, basis) for operator-level contracts
        self.owned = owned  # bool, SBool: True = allocated by the code under contract in this activation (may be written)
        self.writes = []

    def __repr__(self):
        return f"Opaque({self.term!r})"

    def __bool__(self):
        raise CheckerError("code under contract branches on an opaque value")

    def __eq__(self, o):
        if isinstance(o, Opaque):
            return self is o
        return NotImplemented

    __hash__ = object.__hash__

    def __iter__(self):
        raise CheckerError("code under contract iterates an opaque value")

    # vector-space operations as the default VSpace._add/_mut_add/_scalar_mul use them
    def __add__(self, o):
        return Opaque(("+", self.term, _t(o)), owned=True)

    def __radd__(self, o):
        return Opaque(("+", _t(o), self.term), owned=True)

    def __iadd__(self, o):
        WRITES.append((self, self.owned))
        self.term = ("+", self.term, _t(o))
        return self

    def __mul__(self, o):
        return Opaque(("*", self.term, _t(o)), owned=True)

    __rmul__ = __mul__


WRITES = []  # (object, owned-flag-at-time-of-write); obligations are generated from it by the harness


def _t(x):
    return x.term if isinstance(x, Opaque) else ("lit", repr(x))


_vs_registered = {}


def ovs():
    """Stub VSpace for Opaque, registered through the public VSpace.register; uses the REAL VSpace.add/mut_add primitives."""
    import autograd.core as C

    key = id(C.VSpace)
    if key not in _vs_registered:

        class OVS(C.VSpace):
            def __init__(self, value):
                self.of = value.term if isinstance(value, Opaque) else None
                self.meta = getattr(value, "meta", {})

            def zeros(self):
                return Opaque(("zeros", self.of), owned=True, **self.meta)

            def ones(self):
                return Opaque(("ones", self.of), owned=True, **self.meta)

            size = property(lambda s: s.meta["size"])
            iscomplex = property(lambda s: s.meta["iscomplex"])
            shape = property(lambda s: s.meta["shape"])

            def standard_basis(self):
                for k in range(self.meta["nbasis"]):
                    yield Opaque(("e", self.of, k), owned=True)

        C.VSpace.register(Opaque, OVS)
        _vs_registered[key] = OVS
    return _vs_registered[key]


_box_registered = {}


def obox():
    """Box class for Opaque values, registered through the public Box.register."""
    import autograd.tracer as T

    key = id(T.Box)
    if key not in _box_registered:

        class OBox(T.Box):
            __slots__ = []

        OBox.register(Opaque)
        _box_registered[key] = OBox
    return _box_registered[key]
